//! Shared plumbing for the verification harness binaries:
//! ndjson trace writer, seeded RNG, panic capture, small CLI helpers.

use std::fs::File;
use std::io::{BufRead, BufReader, BufWriter, Write};
use std::panic::{AssertUnwindSafe, catch_unwind};
use std::path::Path;

pub use rand_chacha::ChaCha20Rng;
pub use rand_core::{RngCore, SeedableRng};
pub use serde_json::{Value, json};

/// Writes one JSON object per line. Every event gets a sequence number `seq` (1-based),
/// assigned at emission, so TLC can check nothing was dropped or reordered.
pub struct Trace {
    out: BufWriter<File>,
    seq: u64,
}

impl Trace {
    pub fn create<P: AsRef<Path>>(path: P) -> Self {
        let f = File::create(path.as_ref())
            .unwrap_or_else(|e| panic!("cannot create trace {:?}: {e}", path.as_ref()));
        Self {
            out: BufWriter::new(f),
            seq: 0,
        }
    }

    pub fn emit(&mut self, mut ev: Value) {
        self.seq += 1;
        ev.as_object_mut()
            .expect("trace events are JSON objects")
            .insert("seq".to_string(), json!(self.seq));
        serde_json::to_writer(&mut self.out, &ev).unwrap();
        self.out.write_all(b"\n").unwrap();
    }

    pub fn len(&self) -> u64 {
        self.seq
    }

    pub fn is_empty(&self) -> bool {
        self.seq == 0
    }

    pub fn finish(mut self) -> u64 {
        self.out.flush().unwrap();
        self.seq
    }
}

/// Read an ndjson file of cases produced by TLC (GEN stage).
pub fn read_ndjson<P: AsRef<Path>>(path: P) -> Vec<Value> {
    let f = File::open(path.as_ref())
        .unwrap_or_else(|e| panic!("cannot open {:?}: {e}", path.as_ref()));
    BufReader::new(f)
        .lines()
        .map(|l| l.unwrap())
        .filter(|l| !l.trim().is_empty())
        .map(|l| serde_json::from_str(&l).unwrap_or_else(|e| panic!("bad json line {l}: {e}")))
        .collect()
}

pub fn rng(seed: u64, stream: u64) -> ChaCha20Rng {
    let mut s = [0u8; 32];
    s[..8].copy_from_slice(&seed.to_le_bytes());
    s[8..16].copy_from_slice(&stream.to_le_bytes());
    ChaCha20Rng::from_seed(s)
}

pub fn below(rng: &mut ChaCha20Rng, n: u64) -> u64 {
    if n == 0 { 0 } else { rng.next_u64() % n }
}

/// Outcome of running code under test: a panic is *data*, not a harness failure.
pub enum Guarded<T> {
    Done(T),
    Panic(String),
}

pub fn guarded<T>(f: impl FnOnce() -> T) -> Guarded<T> {
    match catch_unwind(AssertUnwindSafe(f)) {
        Ok(v) => Guarded::Done(v),
        Err(e) => {
            let msg = if let Some(s) = e.downcast_ref::<&str>() {
                s.to_string()
            } else if let Some(s) = e.downcast_ref::<String>() {
                s.clone()
            } else {
                "<non-string panic>".to_string()
            };
            Guarded::Panic(msg)
        }
    }
}

/// Silence the default panic printer (panics of code under test are recorded as events).
pub fn quiet_panics() {
    std::panic::set_hook(Box::new(|_| {}));
}

/// `--key value` style arguments.
pub struct Args(Vec<String>);

impl Args {
    pub fn parse() -> Self {
        Self(std::env::args().skip(1).collect())
    }
    pub fn get(&self, key: &str) -> Option<String> {
        let k = format!("--{key}");
        self.0
            .iter()
            .position(|a| *a == k)
            .and_then(|i| self.0.get(i + 1).cloned())
    }
    pub fn req(&self, key: &str) -> String {
        self.get(key).unwrap_or_else(|| panic!("missing --{key}"))
    }
    pub fn num(&self, key: &str, default: u64) -> u64 {
        self.get(key).map(|v| v.parse().unwrap()).unwrap_or(default)
    }
    pub fn flag(&self, key: &str) -> bool {
        let k = format!("--{key}");
        self.0.iter().any(|a| *a == k)
    }
}
