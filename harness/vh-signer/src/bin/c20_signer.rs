//! C20 — the real signer runtime driven one external stimulus at a time.
//!
//! The signer is wired as in the repository's own integration tests (a copy of
//! `mithril-signer/tests/test_extensions/state_machine_tester.rs::StateMachineTester::init`): real
//! state machine, runner, certifier, epoch service, single signer, sqlite repositories on disk, the
//! real `AggregatorHttpClient` talking HTTP.  What differs from the repository helper:
//!   * the chain / immutable observers and the aggregator double OUTLIVE the signer: a `Restart`
//!     drops every object the signer owns and rebuilds them from the sqlite files of the same
//!     work directory;
//!   * the aggregator double (same routes and message types as the repository's
//!     `FakeAggregatorHttpServer`, whose store is private and which discards signatures) records
//!     every registration (LAST one wins per recording epoch and party, like the real aggregator's
//!     store) and every signature, follows the protocol's epoch offsets with its own literals, and
//!     can answer with faults for the duration of one cycle: unavailable, stale epoch settings,
//!     round not yet open (550), a registration / a signature that it RECORDED but answered with an
//!     error (the two two-step windows register -> save initializer and publish -> mark signed),
//!     plain failures, and the chain epoch turning right after the epoch settings were served.
//!
//!   * the double keeps one network configuration per recording epoch whose protocol parameters belong to one of two
//!     GENERATIONS (really different m / phi_f); entering an epoch it creates the configuration of the next recording
//!     epoch, with the same or -- when the schedule says `flip` -- the other generation, and serves them under
//!     /protocol-configuration/{recording epoch} like the real aggregator.  Signatures of epoch e are verified with the
//!     parameters kept for e-1, the aggregator-side message of epoch e carries those kept for e.
//!
//! After every stimulus the whole abstract state is projected (signer sqlite + aggregator double)
//! and logged as an `Obs` event, validated by TLC against spec/signer/SignerTrace.tla.
use std::collections::{BTreeMap, BTreeSet};
use std::path::{Path, PathBuf};
use std::sync::Arc;

use axum::{
    Json, Router,
    extract::{Path as UrlPath, State},
    http::StatusCode,
    response::{IntoResponse, Response},
    routing::{get, post},
};
use axum_test::TestServer;
use tokio::sync::RwLock;

use mithril_cardano_node_chain::{
    entities::ScannedBlock,
    test::double::{DumbBlockScanner, FakeChainObserver},
};
use mithril_cardano_node_internal_database::{
    signable_builder::CardanoDatabaseSignableBuilder,
    test::double::{DumbImmutableDigester, DumbImmutableFileObserver},
};
use mithril_common::entities::CardanoDbBeacon;
use mithril_common::{
    crypto_helper::{ProtocolAggregateVerificationKeyForConcatenation, ProtocolInitializer},
    entities::{
        BlockNumber, ChainPoint, Epoch, PartyId, ProtocolMessage, ProtocolMessagePartKey, ProtocolParameters, SignedEntityType,
        SignedEntityTypeDiscriminants, Signer, SignerWithStake, SingleSignature, SingleSignatureAuthenticationStatus, SlotNumber,
        TimePoint,
    },
    messages::{
        EpochSettingsMessage, ProtocolConfigurationMessage, RegisterSignatureMessageHttp, RegisterSignerMessage,
        SignedEntityTypeMessage, SignerMessagePart,
    },
    protocol::{MultiSigner, SignerBuilder},
    signable_builder::SignableBuilder,
    test::builder::{MithrilFixture, MithrilFixtureBuilder},
};
use mithril_protocol_config::model::{MithrilNetworkConfigurationForEpoch, SignedEntityTypeConfiguration};
use mithril_signer::{SignerState, services::EpochService};
use mithril_ticker::{MithrilTickerService, TickerService};
use vh_core::{Args, ChaCha20Rng, Trace, Value, below, json, read_ndjson, rng};

#[path = "../signerkit.rs"]
mod signerkit;

const NSIGNERS: usize = 3; // fixture party 0 is the signer under test, 1.. are the other pool operators

// The protocol's epoch offsets, as literals: the double and the verdicts must not follow the code under test.
const RECORDING_OFFSET: u64 = 1; // a registration made during epoch e is recorded for e + 1
const RETRIEVAL_BACK: u64 = 1; //   the signers of epoch e are those recorded for e - 1
//                                  the next signers of epoch e are those recorded for e

use signerkit::logger;

/// the Cardano stake distribution in force during chain epoch `x` (varies with the epoch, so that the
/// epoch under which a stake distribution is stored / retrieved matters)
fn stake_distribution(fixture: &MithrilFixture, x: u64) -> Vec<SignerWithStake> {
    fixture
        .signers_with_stake()
        .into_iter()
        .enumerate()
        .map(|(i, mut s)| {
            s.stake = 1000 + 100 * i as u64 + 10 * ((x * (i as u64 + 2)) % 7);
            s
        })
        .collect()
}

/// the two parameter generations: a signature made under one is rejected under the other (an index >= 30, or an index
/// that wins the phi_f = 0.95 lottery but not the 0.5 one), whoever signs still wins some lottery (p(no index) < 1e-9)
fn generation(g: u8) -> ProtocolParameters {
    match g {
        1 => ProtocolParameters { k: 2, m: 30, phi_f: 0.95 },
        2 => ProtocolParameters { k: 2, m: 100, phi_f: 0.5 },
        other => panic!("no parameter generation {other}"),
    }
}

fn generation_of(p: &ProtocolParameters) -> u8 {
    (1..=2u8).find(|g| generation(*g) == *p).unwrap_or(0)
}

// -------------------------------------------------------------------------------------------
// the aggregator double
// -------------------------------------------------------------------------------------------
#[derive(Clone)]
struct ReceivedSignature {
    message: RegisterSignatureMessageHttp,
    chain_epoch: u64,
    answered_ok: bool,
}

#[derive(Default)]
struct AggStore {
    /// regs[recording epoch][party] = the LAST registration received (insert or replace)
    regs: BTreeMap<u64, BTreeMap<PartyId, SignerMessagePart>>,
    /// bumped whenever regs[recording epoch] changes (cache key of the derived signer sets)
    version: BTreeMap<u64, u64>,
    /// every registration request: (recording epoch it was stored under or 0, claimed epoch, party, vk, outcome)
    reg_log: Vec<(u64, u64, PartyId, String, &'static str)>,
    sigs: Vec<ReceivedSignature>,
    /// gens[recording epoch] = parameter generation of the configuration kept for it
    gens: BTreeMap<u64, u8>,
    flips: u64,
    fault: String,
    turn: bool,
    turn_flip: bool,
    hits: BTreeMap<String, u64>,
}

impl AggStore {
    fn hit(&mut self, what: &str) {
        *self.hits.entry(what.to_string()).or_default() += 1;
    }
    /// entering `epoch` the aggregator creates the configuration of recording epoch `epoch + 1` (the parameters the keys
    /// registered during `epoch` will sign with)
    fn enter_epoch(&mut self, epoch: u64, flip: bool) {
        let previous = self.gens[&epoch];
        if !self.gens.contains_key(&(epoch + RECORDING_OFFSET)) {
            self.gens.insert(epoch + RECORDING_OFFSET, if flip { 3 - previous } else { previous });
            if flip {
                self.flips += 1;
            }
        }
    }
    fn put(&mut self, rec: u64, part: SignerMessagePart) {
        self.regs.entry(rec).or_default().insert(part.party_id.clone(), part);
        *self.version.entry(rec).or_default() += 1;
    }
}

#[derive(Clone)]
struct AggState {
    ticker: Arc<MithrilTickerService>,
    chain: Arc<FakeChainObserver>,
    fixture: Arc<MithrilFixture>,
    config: MithrilNetworkConfigurationForEpoch,
    store: Arc<RwLock<AggStore>>,
}

impl AggState {
    /// the epoch the aggregator believes it is in (one behind the chain while it is stale)
    async fn epoch(&self) -> u64 {
        let e = *self.ticker.get_current_epoch().await.unwrap();
        if self.store.read().await.fault == "stale" { e.saturating_sub(1) } else { e }
    }
}

async fn epoch_settings(State(st): State<AggState>) -> Response {
    if st.store.read().await.fault == "unavailable" {
        st.store.write().await.hit("unavailable");
        return StatusCode::INTERNAL_SERVER_ERROR.into_response();
    }
    let epoch = st.epoch().await;
    let (current, next, turn) = {
        let mut s = st.store.write().await;
        if s.fault == "stale" {
            s.hit("stale");
        }
        let cur = epoch.checked_sub(RETRIEVAL_BACK).and_then(|r| s.regs.get(&r)).map(|m| m.values().cloned().collect()).unwrap_or_default();
        let next = s.regs.get(&epoch).map(|m| m.values().cloned().collect()).unwrap_or_default();
        (cur, next, s.turn)
    };
    #[allow(deprecated)]
    let answer = Json(EpochSettingsMessage {
        epoch: Epoch(epoch),
        signer_registration_protocol_parameters: None,
        current_signers: current,
        next_signers: next,
        cardano_transactions_signing_config: None,
    })
    .into_response();
    if turn {
        // the chain enters the next epoch while the answer travels
        let new_epoch = st.chain.next_epoch().await.unwrap();
        st.chain.set_signers(stake_distribution(&st.fixture, *new_epoch)).await;
        let mut s = st.store.write().await;
        s.turn = false;
        s.hit("turn");
        let flip = s.turn_flip;
        s.enter_epoch(*new_epoch, flip);
    }
    answer
}

async fn protocol_configuration(UrlPath(key): UrlPath<u64>, State(st): State<AggState>) -> Response {
    if st.store.read().await.fault == "unavailable" {
        return StatusCode::INTERNAL_SERVER_ERROR.into_response();
    }
    // configurations are kept by recording epoch; an aggregator in epoch e has created them up to e + 1
    let believed = st.epoch().await;
    let generation_kept = st.store.read().await.gens.get(&key).copied();
    let Some(g) = generation_kept.filter(|_| key <= believed + RECORDING_OFFSET) else {
        st.store.write().await.hit("configuration_not_found");
        return StatusCode::NOT_FOUND.into_response();
    };
    let c = st.config.clone();
    let message = ProtocolConfigurationMessage {
        protocol_parameters: generation(g),
        cardano_transactions_signing_config: c.signed_entity_types_config.cardano_transactions,
        cardano_blocks_transactions_signing_config: c.signed_entity_types_config.cardano_blocks_transactions,
        available_signed_entity_types: c.enabled_signed_entity_types.into_iter().map(Into::into).collect(),
    };
    (StatusCode::OK, Json(message)).into_response()
}

async fn register_signer(State(st): State<AggState>, Json(m): Json<RegisterSignerMessage>) -> Response {
    let round = st.epoch().await + RECORDING_OFFSET;
    let mut s = st.store.write().await;
    let vk = m.verification_key_for_concatenation.clone();
    let fault = s.fault.clone();
    match fault.as_str() {
        "unavailable" | "reg_fail" => {
            s.hit(&fault);
            s.reg_log.push((0, *m.epoch, m.party_id.clone(), vk, "failed"));
            return StatusCode::INTERNAL_SERVER_ERROR.into_response();
        }
        "closed" => {
            s.hit("closed");
            s.reg_log.push((0, *m.epoch, m.party_id.clone(), vk, "round_not_open"));
            return (StatusCode::from_u16(550).unwrap(), Json("registration round not yet opened")).into_response();
        }
        _ => {}
    }
    if *m.epoch != round {
        // the real leader aggregator answers RegistrationRoundUnexpectedEpoch
        s.hit("unexpected_epoch");
        s.reg_log.push((0, *m.epoch, m.party_id.clone(), vk, "unexpected_epoch"));
        return (StatusCode::BAD_REQUEST, Json("unexpected registration epoch")).into_response();
    }
    let part = SignerMessagePart {
        party_id: m.party_id.clone(),
        verification_key_for_concatenation: m.verification_key_for_concatenation,
        verification_key_signature_for_concatenation: m.verification_key_signature_for_concatenation,
        operational_certificate: m.operational_certificate,
        kes_evolutions: m.kes_evolutions,
    };
    s.put(round, part);
    if fault == "reg_half" {
        s.hit("reg_half");
        s.reg_log.push((round, *m.epoch, m.party_id.clone(), vk, "recorded_answer_lost"));
        return StatusCode::INTERNAL_SERVER_ERROR.into_response();
    }
    s.reg_log.push((round, *m.epoch, m.party_id.clone(), vk, "recorded"));
    StatusCode::CREATED.into_response()
}

async fn register_signatures(State(st): State<AggState>, Json(m): Json<RegisterSignatureMessageHttp>) -> Response {
    let chain_epoch = *st.ticker.get_current_epoch().await.unwrap();
    let mut s = st.store.write().await;
    let fault = s.fault.clone();
    if fault == "unavailable" || fault == "pub_fail" {
        s.hit(&fault);
        return StatusCode::INTERNAL_SERVER_ERROR.into_response();
    }
    let half = fault == "pub_half";
    s.sigs.push(ReceivedSignature { message: m, chain_epoch, answered_ok: !half });
    if half {
        s.hit("pub_half");
        return StatusCode::INTERNAL_SERVER_ERROR.into_response();
    }
    StatusCode::CREATED.into_response()
}

// -------------------------------------------------------------------------------------------
// what outlives a signer restart
// -------------------------------------------------------------------------------------------
struct World {
    dir: PathBuf,
    chain: Arc<FakeChainObserver>,
    immutables: Arc<DumbImmutableFileObserver>,
    ticker: Arc<MithrilTickerService>,
    block_scanner: Arc<DumbBlockScanner>,
    fixture: Arc<MithrilFixture>,
    me: PartyId,
    store: Arc<RwLock<AggStore>>,
    _server: TestServer,
    url: String,
    // projection helpers
    key_ids: BTreeMap<String, usize>,
    sigma_ids: BTreeMap<String, usize>,
    set_cache: BTreeMap<(u64, u64), Option<(Arc<SignerBuilder>, Arc<MultiSigner>)>>,
    verdict_cache: BTreeMap<(usize, u64, u64), bool>,
    resign_cache: BTreeMap<(usize, u64, u64, usize), bool>,
    message_cache: BTreeMap<(String, u64), Option<String>>,
}

use signerkit::SignerProc;

fn blocks(range: std::ops::RangeInclusive<u64>) -> Vec<ScannedBlock> {
    range
        .map(|n| ScannedBlock::new(format!("block_hash-{n}"), BlockNumber(n), SlotNumber(n), vec![format!("tx_hash-{n}-1")]))
        .collect()
}

impl World {
    async fn new(dir: PathBuf) -> World {
        let _ = std::fs::remove_dir_all(&dir);
        std::fs::create_dir_all(dir.join("stores")).unwrap();
        let fixture = Arc::new(MithrilFixtureBuilder::default().with_signers(NSIGNERS).with_protocol_parameters(generation(1)).build());
        let me = fixture.signers_with_stake()[0].party_id.clone();
        let start = TimePoint {
            epoch: Epoch(1),
            immutable_file_number: 1,
            chain_point: ChainPoint { slot_number: SlotNumber(100), block_number: BlockNumber(100), block_hash: "block_hash-100".to_string() },
        };
        let immutables = Arc::new(DumbImmutableFileObserver::new());
        immutables.shall_return(Some(1)).await;
        let chain = Arc::new(FakeChainObserver::new(Some(start)));
        chain.set_signers(stake_distribution(&fixture, 1)).await;
        let ticker = Arc::new(MithrilTickerService::new(chain.clone(), immutables.clone()));
        let block_scanner = Arc::new(DumbBlockScanner::new());
        block_scanner.add_forwards(vec![blocks(1..=100)]);
        // in epoch 1 the aggregator holds the configurations of recording epochs 0, 1 and 2
        let store = Arc::new(RwLock::new(AggStore { fault: "none".into(), gens: BTreeMap::from([(0, 1), (1, 1), (2, 1)]), ..Default::default() }));
        let state = AggState {
            ticker: ticker.clone(),
            chain: chain.clone(),
            fixture: fixture.clone(),
            config: MithrilNetworkConfigurationForEpoch {
                protocol_parameters: generation(1), // (not served: the generation kept for the asked epoch is)
                enabled_signed_entity_types: BTreeSet::from([
                    SignedEntityTypeDiscriminants::MithrilStakeDistribution,
                    SignedEntityTypeDiscriminants::CardanoDatabase,
                ]),
                signed_entity_types_config: SignedEntityTypeConfiguration { cardano_transactions: None, cardano_blocks_transactions: None },
            },
            store: store.clone(),
        };
        let router = Router::new()
            .route("/epoch-settings", get(epoch_settings))
            .route("/protocol-configuration/{epoch}", get(protocol_configuration))
            .route("/register-signer", post(register_signer))
            .route("/register-signatures", post(register_signatures))
            .with_state(state);
        let server = TestServer::builder().http_transport().build(router);
        let url = server.server_address().unwrap().to_string();
        World {
            dir,
            chain,
            immutables,
            ticker,
            block_scanner,
            fixture,
            me,
            store,
            _server: server,
            url,
            key_ids: BTreeMap::new(),
            sigma_ids: BTreeMap::new(),
            set_cache: BTreeMap::new(),
            verdict_cache: BTreeMap::new(),
            resign_cache: BTreeMap::new(),
            message_cache: BTreeMap::new(),
        }
    }

    /// the signer process (wiring shared with harness/vh-system: ../signerkit.rs), on the sqlite files of the work directory
    async fn start_signer(&self) -> SignerProc {
        signerkit::start_signer(&signerkit::SignerWiring {
            dir: self.dir.clone(),
            party_id: self.me.clone(),
            url: self.url.clone(),
            chain: self.chain.clone(),
            ticker: self.ticker.clone(),
            block_scanner: self.block_scanner.clone(),
            digester: Arc::new(DumbImmutableDigester::default().with_digest("DIGEST")),
        })
        .await
    }

    fn key_id(&mut self, vk_hex: &str) -> usize {
        let n = self.key_ids.len();
        *self.key_ids.entry(vk_hex.to_string()).or_insert(n + 1)
    }

    /// the signer set (and verifier) an aggregator derives for recording epoch `rec` from exactly the registrations
    /// the double holds, with the stake distribution that was in force when they were made
    async fn derived_set(&mut self, rec: u64) -> Option<(Arc<SignerBuilder>, Arc<MultiSigner>, u64)> {
        let (version, parts, params) = {
            let s = self.store.read().await;
            // the parameters the aggregator keeps for that recording epoch
            let params = generation(*s.gens.get(&rec)?);
            (s.version.get(&rec).copied().unwrap_or(0), s.regs.get(&rec).map(|m| m.values().cloned().collect::<Vec<_>>()).unwrap_or_default(), params)
        };
        if !self.set_cache.contains_key(&(rec, version)) {
            let stakes = stake_distribution(&self.fixture, rec.checked_sub(RECORDING_OFFSET)?);
            let mut signers = vec![];
            for p in parts {
                let signer: Signer = p.try_into().ok()?;
                let stake = stakes.iter().find(|s| s.party_id == signer.party_id)?.stake;
                signers.push(SignerWithStake::from_signer(signer, stake));
            }
            let built = SignerBuilder::new(&signers, &params).ok().map(|b| {
                let ms = b.build_multi_signer();
                (Arc::new(b), Arc::new(ms))
            });
            self.set_cache.insert((rec, version), built);
        }
        self.set_cache[&(rec, version)].clone().map(|(b, m)| (b, m, version))
    }

    /// the protocol message an aggregator computes for `entity` from its own registrations (hash, hex)
    async fn aggregator_message(&mut self, entity: &SignedEntityType) -> Option<String> {
        let epoch = *entity.get_epoch_when_signed_entity_type_is_signed();
        let version = self.store.read().await.version.get(&epoch).copied().unwrap_or(0);
        let key = (entity_name(entity), version);
        if let Some(m) = self.message_cache.get(&key) {
            return m.clone();
        }
        let m = self.aggregator_message_uncached(entity).await;
        self.message_cache.insert(key, m.clone());
        m
    }

    async fn aggregator_message_uncached(&mut self, entity: &SignedEntityType) -> Option<String> {
        let epoch = *entity.get_epoch_when_signed_entity_type_is_signed();
        let (next, _, _) = self.derived_set(epoch).await?; // next signers of `epoch`: recorded for `epoch`
        let mut message = match entity {
            SignedEntityType::MithrilStakeDistribution(_) => ProtocolMessage::new(),
            SignedEntityType::CardanoDatabase(beacon) => {
                let digester = Arc::new(DumbImmutableDigester::default().with_digest("DIGEST"));
                CardanoDatabaseSignableBuilder::new(digester, Path::new(""), logger()).compute_protocol_message(beacon.clone()).await.ok()?
            }
            _ => return None,
        };
        let avk: ProtocolAggregateVerificationKeyForConcatenation =
            next.compute_aggregate_verification_key().to_concatenation_aggregate_verification_key().to_owned().into();
        message.set_message_part(ProtocolMessagePartKey::NextAggregateVerificationKey, avk.to_json_hex().ok()?);
        // the next parameters of `epoch`: those kept for recording epoch `epoch`
        let next_parameters = generation(*self.store.read().await.gens.get(&epoch)?);
        message.set_message_part(ProtocolMessagePartKey::NextProtocolParameters, next_parameters.compute_hash());
        message.set_message_part(ProtocolMessagePartKey::CurrentEpoch, epoch.to_string());
        Some(message.compute_hash())
    }
}

fn entity_name(t: &SignedEntityType) -> String {
    match t {
        SignedEntityType::MithrilStakeDistribution(e) => format!("MSD:{}", **e),
        SignedEntityType::CardanoStakeDistribution(e) => format!("CSD:{}", **e),
        SignedEntityType::CardanoDatabase(b) => format!("CDB:{}/{}", *b.epoch, b.immutable_file_number),
        SignedEntityType::CardanoTransactions(e, b) => format!("CTX:{}/{}", **e, **b),
        SignedEntityType::CardanoBlocksTransactions(e, b, _) => format!("CBT:{}/{}", **e, **b),
    }
}

thread_local! {
    static IN_CYCLE: std::cell::Cell<bool> = const { std::cell::Cell::new(false) };
}

struct Harness {
    w: World,
    signer: Option<SignerProc>,
    restarts: u64,
    panics: u64,
    lost_cache: BTreeMap<String, bool>,
}

impl Harness {
    async fn new(dir: PathBuf) -> Harness {
        let w = World::new(dir).await;
        let signer = Some(w.start_signer().await);
        Harness { w, signer, restarts: 0, panics: 0, lost_cache: BTreeMap::new() }
    }

    /// a beacon marked as signed without any signature received: TRUE iff the signer, with the initializer it has stored
    /// for the beacon's epoch and the signer set the aggregator derives, wins no lottery for the aggregator's message
    async fn lost_every_lottery(&mut self, entity: &SignedEntityType, stored: &[(u64, ProtocolInitializer)]) -> bool {
        let ee = *entity.get_epoch_when_signed_entity_type_is_signed();
        let Some(rec) = ee.checked_sub(RETRIEVAL_BACK) else { return false };
        let Some(message) = self.w.aggregator_message(entity).await else { return false };
        let Some((builder, _, _)) = self.w.derived_set(rec).await else { return false };
        let Some((_, init)) = stored.iter().find(|(e, _)| *e == rec) else { return false };
        match builder.restore_signer_from_initializer(self.w.me.clone(), init.clone()) {
            Ok(signer) => matches!(signer.sign(&message), Ok(None)),
            Err(_) => false,
        }
    }

    async fn act(&mut self, a: &Value) -> Value {
        match a["a"].as_str().unwrap() {
            "Tick" => {
                let fault = a["fault"].as_str().unwrap_or("none").to_string();
                {
                    let mut s = self.w.store.write().await;
                    s.fault = fault.clone();
                    s.turn = a["turn"].as_bool().unwrap_or(false);
                    s.turn_flip = a["flip"].as_bool().unwrap_or(false);
                }
                // a panic of the code under test is data: it ends the process, which is then restarted
                let r = {
                    use futures::FutureExt;
                    IN_CYCLE.with(|c| c.set(true));
                    let r = std::panic::AssertUnwindSafe(self.signer.as_ref().unwrap().state_machine.cycle()).catch_unwind().await;
                    IN_CYCLE.with(|c| c.set(false));
                    r
                };
                {
                    let mut s = self.w.store.write().await;
                    s.fault = "none".into();
                    s.turn = false;
                    s.turn_flip = false;
                }
                match r {
                    Ok(Ok(())) => json!({"ok": true, "err": "", "critical": false, "panic": false}),
                    Ok(Err(e)) => {
                        let critical = e.is_critical();
                        let t = format!("{e}");
                        json!({"ok": false, "critical": critical, "panic": false, "err": t.chars().take(200).collect::<String>()})
                    }
                    Err(p) => {
                        let msg = p.downcast_ref::<String>().cloned().or_else(|| p.downcast_ref::<&str>().map(|s| s.to_string())).unwrap_or_default();
                        self.signer = None;
                        self.signer = Some(self.w.start_signer().await);
                        self.restarts += 1;
                        self.panics += 1;
                        json!({"ok": false, "critical": true, "panic": true, "err": msg.chars().take(200).collect::<String>()})
                    }
                }
            }
            "EpochUp" => {
                let e = self.w.chain.next_epoch().await.unwrap();
                self.w.chain.set_signers(stake_distribution(&self.w.fixture, *e)).await;
                self.w.store.write().await.enter_epoch(*e, a["flip"].as_bool().unwrap_or(false));
                json!({"ok": true})
            }
            "ImmUp" => {
                self.w.immutables.increase().await.unwrap();
                json!({"ok": true})
            }
            "Others" => {
                // other pool operators register with the aggregator during the current epoch
                let epoch = *self.w.ticker.get_current_epoch().await.unwrap();
                let who: Vec<usize> = a["who"].as_array().unwrap().iter().map(|v| v.as_u64().unwrap() as usize).collect();
                let mut s = self.w.store.write().await;
                for i in who {
                    let signer: Signer = self.w.fixture.signers_with_stake()[i].clone().into();
                    s.put(epoch + RECORDING_OFFSET, signer.into());
                }
                json!({"ok": true})
            }
            "StakesAhead" => {
                // the node already answers with the stake distribution of the NEXT epoch although the epoch has not turned for
                // the signer yet (a read racing the boundary). Only once the signer holds the stakes of this epoch's recording
                // epoch -- from then on they are frozen; before, the first transition of the epoch legitimately stores what
                // the node says. The next EpochUp sets the observer right again.
                let epoch = self.w.ticker.get_current_epoch().await.unwrap();
                let held = match self.signer.as_ref() {
                    Some(p) => p.stake_store.get_stakes(epoch + RECORDING_OFFSET).await.ok().flatten().is_some(),
                    None => false,
                };
                if held {
                    self.w.chain.set_signers(stake_distribution(&self.w.fixture, *epoch + 1)).await;
                }
                json!({"ok": held})
            }
            "Restart" => {
                // everything the signer owns is dropped (sqlite connections closed) and rebuilt from the same files
                self.signer = None;
                self.signer = Some(self.w.start_signer().await);
                self.restarts += 1;
                json!({"ok": true})
            }
            other => panic!("unknown action {other}"),
        }
    }

    async fn project(&mut self) -> Value {
        let p = self.signer.as_ref().unwrap();
        let (label, state_epoch) = match p.state_machine.get_state().await {
            SignerState::Init => ("Init", 0),
            SignerState::Unregistered { epoch } => ("Unregistered", *epoch),
            SignerState::ReadyToSign { epoch } => ("ReadyToSign", *epoch),
            SignerState::RegisteredNotAbleToSign { epoch } => ("RegisteredNotAbleToSign", *epoch),
        };
        let data_epoch = p.epoch_service.read().await.epoch_of_current_data().map(|e| *e).unwrap_or(0);
        let tp = self.w.ticker.get_current_time_point().await.unwrap();
        // --- stored protocol initializers (signer sqlite)
        let mut stored: Vec<(u64, ProtocolInitializer)> =
            p.protocol_initializer_store.get_last_protocol_initializer(1000).await.unwrap().into_iter().map(|(e, i)| (*e, i)).collect();
        stored.sort_by_key(|(e, _)| *e);
        let mut inits = vec![];
        let mut stored_kid: BTreeMap<u64, usize> = BTreeMap::new();
        for (e, i) in &stored {
            let vk: mithril_common::crypto_helper::ProtocolSignerVerificationKeyForConcatenation = i.verification_key_for_concatenation().into();
            let id = self.w.key_id(&vk.to_json_hex().unwrap());
            stored_kid.insert(*e, id);
            // the parameters a key signs with are those embedded in its initializer
            let embedded: ProtocolParameters = i.get_protocol_parameters().into();
            inits.push(json!({"epoch": e, "key": id, "gen": generation_of(&embedded)}));
        }
        // --- stored stake distributions
        let mut stakes = vec![];
        for e in 0..=(*tp.epoch + 3) {
            if let Some(sd) = p.stake_store.get_stakes(Epoch(e)).await.unwrap() {
                let expected: BTreeMap<String, u64> = if e >= 1 {
                    stake_distribution(&self.w.fixture, e - RECORDING_OFFSET).into_iter().map(|s| (s.party_id, s.stake)).collect()
                } else {
                    BTreeMap::new()
                };
                let same = sd.iter().all(|(k, v)| expected.get(k) == Some(v)) && sd.len() == expected.len();
                stakes.push(json!({"epoch": e, "of_previous_epoch": same}));
            }
        }
        // --- beacons marked as signed (signer sqlite, read independently of the repository)
        let mut signed_entities: Vec<(String, Option<SignedEntityType>)> = vec![];
        {
            let conn = sqlite::open(self.w.dir.join("stores").join("signer.db")).unwrap();
            for r in conn
                .prepare("select cast(signed_entity_type_id as integer), cast(beacon as text), cast(epoch as integer) from signed_beacon order by rowid")
                .unwrap()
                .into_iter()
            {
                let r = r.unwrap();
                let beacon = r.read::<&str, _>(1).to_string();
                let entry = match r.read::<i64, _>(0) {
                    0 => {
                        let e: u64 = beacon.trim_matches('"').parse().unwrap();
                        (format!("MSD:{e}"), Some(SignedEntityType::MithrilStakeDistribution(Epoch(e))))
                    }
                    4 => {
                        let v: Value = serde_json::from_str(&beacon).unwrap_or(Value::Null);
                        let (e, i) = (v["epoch"].as_u64().unwrap(), v["immutable_file_number"].as_u64().unwrap());
                        (format!("CDB:{e}/{i}"), Some(SignedEntityType::CardanoDatabase(CardanoDbBeacon::new(e, i))))
                    }
                    t => (format!("T{t}:{beacon}"), None),
                };
                signed_entities.push(entry);
            }
        }
        // --- the parameter generation the aggregator keeps per recording epoch
        let params: Vec<Value> = self.w.store.read().await.gens.iter().map(|(e, g)| json!({"epoch": e, "gen": g})).collect();
        // --- what the aggregator holds for the signer under test
        let (my_regs, rec_epochs, received, nreg) = {
            let s = self.w.store.read().await;
            let mine: Vec<(u64, String)> = s
                .regs
                .iter()
                .filter_map(|(e, m)| m.get(&self.w.me).map(|p| (*e, p.verification_key_for_concatenation.clone())))
                .collect();
            (mine, s.regs.keys().copied().collect::<Vec<_>>(), s.sigs.clone(), s.reg_log.len())
        };
        let mut regs = vec![];
        for (e, vk) in my_regs {
            // the wire carries the key as hex; normalise through the typed key to compare with the stored initializer
            let typed: mithril_common::crypto_helper::ProtocolSignerVerificationKeyForConcatenation = vk.clone().try_into().unwrap();
            let id = self.w.key_id(&typed.to_json_hex().unwrap());
            regs.push(json!({"epoch": e, "key": id, "others": 0}));
        }
        for r in regs.iter_mut() {
            let e = r["epoch"].as_u64().unwrap();
            let n = self.w.store.read().await.regs.get(&e).map(|m| m.len()).unwrap_or(0);
            r["others"] = json!(n.saturating_sub(1));
        }
        // --- the signatures the aggregator received, each judged against the signer sets it derives
        let mut sigs = vec![];
        for (n, rs) in received.iter().enumerate() {
            let m = &rs.message;
            let entity = match &m.signed_entity_type {
                SignedEntityTypeMessage::Known(t) => t.clone(),
                _ => panic!("unknown signed entity type received"),
            };
            let ee = *entity.get_epoch_when_signed_entity_type_is_signed();
            let ns = self.w.sigma_ids.len();
            let sigma = *self.w.sigma_ids.entry(format!("{}|{:?}", m.signature, m.won_indexes)).or_insert(ns + 1);
            let single = SingleSignature {
                party_id: m.party_id.clone(),
                signature: m.signature.clone().try_into().expect("signature decodes"),
                won_indexes: m.won_indexes.clone(),
                authentication_status: SingleSignatureAuthenticationStatus::Unauthenticated,
            };
            let mut verifies_under = vec![];
            let mut made_with_stored = vec![];
            for rec in &rec_epochs {
                let Some((builder, multi, version)) = self.w.derived_set(*rec).await else { continue };
                let ok = *self
                    .w
                    .verdict_cache
                    .entry((n, *rec, version))
                    .or_insert_with(|| multi.verify_single_signature(&m.signed_message, &single).is_ok());
                if ok {
                    verifies_under.push(*rec);
                }
                // was it made with the initializer the signer has stored for `rec`?
                if let Some((_, init)) = stored.iter().find(|(e, _)| e == rec) {
                    let kid = stored_kid[rec];
                    let me = self.w.me.clone();
                    let same = *self.w.resign_cache.entry((n, *rec, version, kid)).or_insert_with(|| {
                        match builder.restore_signer_from_initializer(me, init.clone()) {
                            Ok(signer) => match signer.sign(&m.signed_message) {
                                Ok(Some(again)) => {
                                    again.signature.to_json_hex().ok() == single.signature.to_json_hex().ok() && again.won_indexes == single.won_indexes
                                }
                                _ => false,
                            },
                            Err(_) => false,
                        }
                    });
                    if same {
                        made_with_stored.push(*rec);
                    }
                }
            }
            let expected = self.w.aggregator_message(&entity).await;
            sigs.push(json!({
                "n": n + 1, "entity": entity_name(&entity), "ee": ee, "party_is_signer": m.party_id == self.w.me,
                "sigma": sigma, "verifies_under": verifies_under, "made_with_stored": made_with_stored,
                "msg_ok": expected.as_deref() == Some(m.signed_message.as_str()),
                "chain_epoch": rs.chain_epoch, "answered_ok": rs.answered_ok,
            }));
        }
        // --- beacons marked as signed; for those the aggregator never received: had the signer anything to send?
        let mut signed = vec![];
        for (name, entity) in signed_entities {
            let received = sigs.iter().any(|s| s["entity"] == json!(name));
            let mut lost = false;
            if !received {
                if let Some(entity) = &entity {
                    lost = match self.lost_cache.get(&name) {
                        Some(l) => *l,
                        None => {
                            let l = self.lost_every_lottery(entity, &stored).await;
                            self.lost_cache.insert(name.clone(), l);
                            l
                        }
                    };
                }
            }
            let ee = entity.as_ref().map(|e| *e.get_epoch_when_signed_entity_type_is_signed()).unwrap_or(0);
            signed.push(json!({"entity": name, "ee": ee, "lost_every_lottery": lost}));
        }
        json!({"state": label, "state_epoch": state_epoch, "data_epoch": data_epoch, "epoch": *tp.epoch, "imm": tp.immutable_file_number,
               "inits": inits, "stakes": stakes, "signed": signed, "regs": regs, "sigs": sigs, "nreg_requests": nreg,
               "params": params})
    }
}

// -------------------------------------------------------------------------------------------
// seeded driver
// -------------------------------------------------------------------------------------------
fn random_schedule(r: &mut ChaCha20Rng, len: usize) -> Vec<Value> {
    let mut out = vec![];
    let faults = ["unavailable", "stale", "closed", "reg_fail", "reg_half", "pub_fail", "pub_half"];
    let mut since_epoch = 0;
    for _ in 0..len {
        since_epoch += 1;
        let a = match below(r, 24) {
            0..=10 => json!({"a":"Tick","fault":"none"}),
            11..=14 => json!({"a":"Tick","fault": faults[below(r, faults.len() as u64) as usize]}),
            15 => json!({"a":"Tick","fault":"none","turn": true, "flip": below(r, 2) == 0}),
            16 | 17 => json!({"a":"ImmUp"}),
            18 | 19 => {
                let who: Vec<u64> = (1..NSIGNERS as u64).filter(|_| below(r, 3) != 0).collect();
                json!({"a":"Others","who": who})
            }
            20 | 21 => json!({"a":"Restart"}),
            22 if since_epoch >= 3 => {
                // a stake-distribution read racing the epoch boundary, then the registration transition runs again
                out.push(json!({"a":"StakesAhead"}));
                out.push(json!({"a":"Restart"}));
                out.push(json!({"a":"Tick","fault":"none"}));
                json!({"a":"Tick","fault":"none"})
            }
            _ => {
                if since_epoch < 5 {
                    json!({"a":"Tick","fault":"none"})
                } else {
                    since_epoch = 0;
                    json!({"a":"EpochUp","flip": below(r, 2) == 0})
                }
            }
        };
        out.push(a);
    }
    out
}

/// what one schedule produced
struct RunOutput {
    events: Vec<Value>,
    flips: u64,
    panics: u64,
    actions: u64,
    signatures: usize,
    registrations: usize,
    restarts: u64,
    hits: BTreeMap<String, u64>,
}

/// one schedule on a fresh world (own work directory, own aggregator double, own runtime), followed by the
/// fault-free epilogue
fn run_schedule(dir: PathBuf, id: &Value, schedule: &[Value]) -> RunOutput {
    let rt = tokio::runtime::Builder::new_current_thread().enable_all().build().unwrap();
    let mut out = RunOutput { events: vec![], flips: 0, panics: 0, actions: 0, signatures: 0, registrations: 0, restarts: 0, hits: BTreeMap::new() };
    rt.block_on(async {
        let mut h = Harness::new(dir.clone()).await;
        let obs = h.project().await;
        out.events.push(json!({"ev":"Start","schedule":id,"obs":obs,"nsigners":NSIGNERS}));
        for a in schedule {
            let res = h.act(a).await;
            let obs = h.project().await;
            out.actions += 1;
            out.events.push(json!({"ev":"Obs","action":a,"result":res,"obs":obs}));
        }
        // fault-free epilogue: three more epochs in which everybody registers and the signer just runs; in the
        // third one it must have signed again ("resumes correctly")
        let mut last_obs = Value::Null;
        for _ in 0..3 {
            let all_others: Vec<usize> = (1..NSIGNERS).collect();
            let mut script = vec![json!({"a":"Others","who": all_others}), json!({"a":"EpochUp"})];
            script.extend((0..5).map(|_| json!({"a":"Tick","fault":"none"})));
            for a in &script {
                let res = h.act(a).await;
                let obs = h.project().await;
                out.actions += 1;
                out.events.push(json!({"ev":"Obs","action":a,"result":res,"obs":obs.clone(),"epilogue":true}));
                last_obs = obs;
            }
        }
        let final_epoch = last_obs["epoch"].as_u64().unwrap();
        let wanted = format!("MSD:{final_epoch}");
        let signed_again = last_obs["sigs"].as_array().unwrap().iter().any(|s| {
            s["entity"] == json!(wanted)
                && s["msg_ok"] == json!(true)
                && s["verifies_under"].as_array().unwrap().contains(&json!(final_epoch - RETRIEVAL_BACK))
        });
        out.events.push(json!({"ev":"Progress","schedule":id,"epoch":final_epoch,"signed_again":signed_again,
            "state": last_obs["state"], "state_epoch": last_obs["state_epoch"]}));
        let s = h.w.store.read().await;
        out.signatures = s.sigs.len();
        out.registrations = s.reg_log.iter().filter(|r| r.0 != 0).count();
        out.restarts = h.restarts;
        out.panics = h.panics;
        out.hits = s.hits.clone();
        out.flips = s.flips;
    });
    let _ = std::fs::remove_dir_all(&dir);
    out
}

fn main() {
    let args = Args::parse();
    // panics inside a signer cycle are recorded as events (silently); any other panic is a harness bug and is printed
    let default_hook = std::panic::take_hook();
    std::panic::set_hook(Box::new(move |info| {
        if !IN_CYCLE.with(|c| c.get()) {
            default_hook(info);
        }
    }));
    let seed = args.num("seed", 1);
    let out = args.req("out");
    let work = PathBuf::from(args.get("work").unwrap_or("/verif/work/signer".into()));
    let jobs = args.num("jobs", 1).max(1) as usize;
    let mut trace = Trace::create(&out);
    let schedules: Vec<(Value, Vec<Value>)> = match args.get("schedules") {
        Some(p) => read_ndjson(p).into_iter().map(|s| (s["id"].clone(), s["steps"].as_array().unwrap().clone())).collect(),
        None => {
            let mut r = rng(seed, 20);
            (0..args.num("runs", 4)).map(|i| (json!(i), random_schedule(&mut r, args.num("len", 60) as usize))).collect()
        }
    };
    // the fixture writes the operators' KES material to a shared temp directory on first use: do it once, up front
    let _ = MithrilFixtureBuilder::default().with_signers(NSIGNERS).build();
    // schedules are independent of each other (and mostly wait for loopback HTTP): run them on `jobs` threads, emit
    // their events in schedule order
    let next = std::sync::atomic::AtomicUsize::new(0);
    let results: std::sync::Mutex<BTreeMap<usize, RunOutput>> = std::sync::Mutex::new(BTreeMap::new());
    std::thread::scope(|scope| {
        for _ in 0..jobs {
            scope.spawn(|| {
                loop {
                    let si = next.fetch_add(1, std::sync::atomic::Ordering::SeqCst);
                    if si >= schedules.len() {
                        break;
                    }
                    let (id, schedule) = &schedules[si];
                    let r = run_schedule(work.join(format!("run{si}")), id, schedule);
                    results.lock().unwrap().insert(si, r);
                }
            });
        }
    });
    let results = results.into_inner().unwrap();
    assert_eq!(results.len(), schedules.len(), "a schedule did not complete");
    let mut actions = 0u64;
    let mut signatures = 0usize;
    let mut registrations = 0usize;
    let mut restarts = 0u64;
    let mut panics = 0u64;
    let mut flips = 0u64;
    let mut hits: BTreeMap<String, u64> = BTreeMap::new();
    for (_, r) in results {
        flips += r.flips;
        panics += r.panics;
        for e in r.events {
            trace.emit(e);
        }
        actions += r.actions;
        signatures += r.signatures;
        registrations += r.registrations;
        restarts += r.restarts;
        for (k, v) in r.hits {
            *hits.entry(k).or_default() += v;
        }
    }
    let n = trace.finish();
    println!(
        "{}",
        json!({"events": n, "actions": actions, "schedules": schedules.len(), "signatures_received": signatures,
               "registrations_recorded": registrations, "restarts": restarts, "panics_of_code_under_test": panics, "parameter_changes": flips, "faults_exercised": hits})
    );
}
