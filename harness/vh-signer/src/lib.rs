//! harness for the signer (C20)
