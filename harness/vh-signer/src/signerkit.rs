//! The wiring of one REAL signer process, shared by c20_signer.rs (signer against the recording aggregator double) and
//! harness/vh-system (signers against the real aggregator): a copy of the repository's
//! `mithril-signer/tests/test_extensions/state_machine_tester.rs::StateMachineTester::init`, minus everything that must
//! survive a restart of the process (chain / immutable observers, ticker, block scanner, digester, the aggregator's
//! address and the work directory with the sqlite files are handed in).
//!
//! Included with `#[path = ".../signerkit.rs"] mod signerkit;`.
#![allow(dead_code)]
use std::path::{Path, PathBuf};
use std::sync::Arc;
use std::time::Duration;

use tokio::sync::RwLock;

use mithril_aggregator_client::AggregatorHttpClient;
use mithril_cardano_node_chain::{
    chain_importer::CardanoChainDataImporter,
    test::double::{DumbBlockScanner, FakeChainObserver},
};
use mithril_cardano_node_internal_database::{signable_builder::CardanoDatabaseSignableBuilder, test::double::DumbImmutableDigester};
use mithril_common::{
    api_version::APIVersionProvider,
    crypto_helper::{KesSigner, KesSignerStandard},
    entities::{BlockNumber, Epoch, PartyId, SupportedEra},
    signable_builder::{
        CardanoBlocksTransactionsSignableBuilder, CardanoStakeDistributionSignableBuilder, CardanoTransactionsSignableBuilder,
        MithrilSignableBuilderService, MithrilStakeDistributionSignableBuilder, SignableBuilderServiceDependencies,
    },
    test::double::Dummy,
};
use mithril_era::{EraChecker, EraMarker, EraReader, adapters::EraReaderDummyAdapter};
use mithril_persistence::store::StakeStorer;
use mithril_protocol_config::http::HttpMithrilNetworkConfigurationProvider;
use mithril_signed_entity_lock::SignedEntityTypeLock;
use mithril_signed_entity_preloader::{CardanoTransactionsPreloader, CardanoTransactionsPreloaderActivation};
use mithril_signer::{
    Configuration, MetricsService, SignerRunner, SignerState, StateMachine,
    database::repository::{ProtocolInitializerRepository, SignedBeaconRepository, SignerCardanoChainDataRepository, StakePoolStore},
    dependency_injection::{DependenciesBuilder, SignerDependencyContainer},
    services::{
        MithrilEpochService, MithrilSingleSigner, SignerCertifierService, SignerChainDataImporter, SignerSignableSeedBuilder,
        SignerSignedEntityConfigProvider, SignerUpkeepService,
    },
    store::{MKTreeStoreSqlite, ProtocolInitializerStorer},
};
use mithril_ticker::{MithrilTickerService, TickerService};

pub fn logger() -> slog::Logger {
    slog::Logger::root(slog::Discard, slog::o!())
}

/// what outlives a signer process
pub struct SignerWiring {
    /// work directory: `stores/` holds the sqlite files
    pub dir: PathBuf,
    pub party_id: PartyId,
    /// the aggregator endpoint
    pub url: String,
    pub chain: Arc<FakeChainObserver>,
    pub ticker: Arc<MithrilTickerService>,
    pub block_scanner: Arc<DumbBlockScanner>,
    pub digester: Arc<DumbImmutableDigester>,
}

/// everything the signer process owns
pub struct SignerProc {
    pub state_machine: StateMachine,
    pub epoch_service: Arc<RwLock<MithrilEpochService>>,
    pub protocol_initializer_store: Arc<dyn ProtocolInitializerStorer>,
    pub stake_store: Arc<dyn StakeStorer>,
}

/// (a copy of the repository's `StateMachineTester::init`, minus everything that must survive a restart)
pub async fn start_signer(w: &SignerWiring) -> SignerProc {
    let config = Configuration {
        db_directory: w.dir.join("db"),
        data_stores_directory: w.dir.join("stores"),
        ..Configuration::new_sample(&w.party_id)
    };
    let logger = logger();
    let dependencies_builder = DependenciesBuilder::new(&config, logger.clone());
    let sqlite_connection = Arc::new(dependencies_builder.build_main_sqlite_connection("signer.db").await.unwrap());
    let sqlite_connection_cardano_transaction_pool =
        dependencies_builder.build_cardano_tx_sqlite_connection_pool("cardano_tx.db", 1).await.map(Arc::new).unwrap();
    let chain_observer = w.chain.clone();
    let ticker_service = w.ticker.clone();
    let digester = w.digester.clone();
    let protocol_initializer_store =
        Arc::new(ProtocolInitializerRepository::new(sqlite_connection.clone(), config.store_retention_limit.map(|l| l as u64)));
    let stake_store = Arc::new(StakePoolStore::new(sqlite_connection.clone(), config.store_retention_limit.map(|l| l as u64)));
    let era_reader_adapter =
        Arc::new(EraReaderDummyAdapter::from_markers(vec![EraMarker { name: SupportedEra::dummy().to_string(), epoch: Some(Epoch(0)) }]));
    let era_reader = Arc::new(EraReader::new(era_reader_adapter.clone()));
    let era_epoch_token = era_reader.read_era_epoch_token(ticker_service.get_current_epoch().await.unwrap()).await.unwrap();
    let era_checker =
        Arc::new(EraChecker::new(era_epoch_token.get_current_supported_era().unwrap(), era_epoch_token.get_current_epoch()));
    let api_version_provider = Arc::new(APIVersionProvider::new(era_checker.clone()));
    let mithril_stake_distribution_signable_builder = Arc::new(MithrilStakeDistributionSignableBuilder::default());
    let chain_data_store = Arc::new(SignerCardanoChainDataRepository::new(sqlite_connection_cardano_transaction_pool.clone()));
    let transactions_importer = Arc::new(SignerChainDataImporter::new(Arc::new(CardanoChainDataImporter::new(
        w.block_scanner.clone(),
        chain_data_store.clone(),
        logger.clone(),
    ))));
    let block_range_root_retriever = chain_data_store.clone();
    let cardano_transactions_builder = Arc::new(CardanoTransactionsSignableBuilder::<MKTreeStoreSqlite>::new(
        transactions_importer.clone(),
        block_range_root_retriever.clone(),
    ));
    let cardano_blocks_transactions_builder = Arc::new(CardanoBlocksTransactionsSignableBuilder::<MKTreeStoreSqlite>::new(
        transactions_importer.clone(),
        block_range_root_retriever,
    ));
    let cardano_stake_distribution_builder = Arc::new(CardanoStakeDistributionSignableBuilder::new(stake_store.clone()));
    let cardano_database_signable_builder = Arc::new(CardanoDatabaseSignableBuilder::new(digester.clone(), Path::new(""), logger.clone()));
    let epoch_service = Arc::new(RwLock::new(MithrilEpochService::new(
        era_checker.clone(),
        stake_store.clone(),
        protocol_initializer_store.clone(),
        logger.clone(),
    )));
    let epoch_service_handle = epoch_service.clone();
    let single_signer =
        Arc::new(MithrilSingleSigner::new(config.party_id.to_owned().unwrap_or_default(), epoch_service.clone(), logger.clone()));
    let signable_seed_builder_service = Arc::new(SignerSignableSeedBuilder::new(epoch_service.clone(), protocol_initializer_store.clone()));
    let signable_builders_dependencies = SignableBuilderServiceDependencies::new(
        mithril_stake_distribution_signable_builder,
        cardano_transactions_builder,
        cardano_blocks_transactions_builder,
        cardano_stake_distribution_builder,
        cardano_database_signable_builder,
    );
    let signable_builder_service =
        Arc::new(MithrilSignableBuilderService::new(signable_seed_builder_service, signable_builders_dependencies, logger.clone()));
    let metrics_service = Arc::new(MetricsService::new(logger.clone()).unwrap());
    let signed_entity_type_lock = Arc::new(SignedEntityTypeLock::default());
    let cardano_transactions_preloader = Arc::new(CardanoTransactionsPreloader::new(
        signed_entity_type_lock.clone(),
        transactions_importer.clone(),
        BlockNumber(0),
        chain_observer.clone(),
        logger.clone(),
        Arc::new(CardanoTransactionsPreloaderActivation::new(true)),
    ));
    let upkeep_service = Arc::new(SignerUpkeepService::new(
        sqlite_connection.clone(),
        sqlite_connection_cardano_transaction_pool,
        signed_entity_type_lock.clone(),
        vec![],
        logger.clone(),
    ));
    let signed_beacon_repository = Arc::new(SignedBeaconRepository::new(sqlite_connection.clone(), None));
    let aggregator_client = AggregatorHttpClient::builder(w.url.clone()).with_logger(logger.clone()).build().map(Arc::new).unwrap();
    let network_configuration_service = Arc::new(HttpMithrilNetworkConfigurationProvider::new(aggregator_client.clone(), logger.clone()));
    let certifier = Arc::new(SignerCertifierService::new(
        signed_beacon_repository.clone(),
        Arc::new(SignerSignedEntityConfigProvider::new(epoch_service.clone())),
        signed_entity_type_lock.clone(),
        single_signer.clone(),
        aggregator_client.clone(),
        logger.clone(),
    ));
    let kes_signer = Some(Arc::new(KesSignerStandard::new(
        config.kes_secret_key_path.clone().unwrap(),
        config.operational_certificate_path.clone().unwrap(),
    )) as Arc<dyn KesSigner>);
    let services = SignerDependencyContainer {
        signers_registration_retriever: aggregator_client.clone(),
        ticker_service: ticker_service.clone(),
        chain_observer: chain_observer.clone(),
        digester: digester.clone(),
        protocol_initializer_store: protocol_initializer_store.clone(),
        single_signer: single_signer.clone(),
        stake_store: stake_store.clone(),
        era_checker: era_checker.clone(),
        era_reader,
        api_version_provider,
        signable_builder_service,
        metrics_service: metrics_service.clone(),
        signed_entity_type_lock: Arc::new(SignedEntityTypeLock::default()),
        cardano_transactions_preloader,
        upkeep_service,
        epoch_service,
        certifier,
        signer_registration_publisher: aggregator_client.clone(),
        kes_signer,
        network_configuration_service: network_configuration_service.clone(),
    };
    let runner = Box::new(SignerRunner::new(config, services, logger.clone()));
    let state_machine = StateMachine::new(SignerState::Init, runner, Duration::from_secs(5), metrics_service.clone(), logger.clone());
    SignerProc { state_machine, epoch_service: epoch_service_handle, protocol_initializer_store, stake_store }
}

