//! C11 — stand-alone reproduction (no TLC, no trace) of the defects the check found on the real code.
//!
//! 1. stake distribution, digits moved between a pool id and its stake (known before):
//!    {"pool1xyz2": 34} and {"pool1xyz": 234} have the same signed root.
//! 2. stake distribution, characters moved between the leaves of two ADJACENT pools (found by the
//!    TLC-generated cases): {"1": 2, "12": 2} and {"12": 1, "2": 2} have the same signed root,
//!    because Merkle leaves are raw byte strings and a parent is H(left || right).
//! 3. the same weakness on a transaction proof: the last digit of the slot number of a certified
//!    transaction is moved into the sibling node of the Merkle proof; the response still verifies and
//!    the recomputed protocol message matches the certificate, so the client reports a transaction
//!    with a slot number nobody signed. Likewise a truncated transaction hash in the legacy format.
use std::collections::BTreeMap;

use mithril_client::common::{BlockNumber, Epoch, ProtocolMessage, ProtocolMessagePartKey, SlotNumber};
use mithril_client::{CardanoStakeDistribution, CardanoTransactionsProofs, CardanoTransactionsProofsV2, MessageBuilder, MithrilCertificate};
use mithril_common::crypto_helper::{MKMap, MKMapNode, MKMapProof, MKTree, MKTreeNode, MKTreeStoreInMemory, ProtocolMkProof};
use mithril_common::entities::{BlockNumberOffset, BlockRange, CardanoBlockTransactionMkTreeNode, CardanoTransaction, CardanoTransactionsSetProof, MkSetProof};
use mithril_common::messages::{CardanoTransactionMessagePart, CardanoTransactionsSetProofMessagePart, MkSetProofMessagePart};
use mithril_common::signable_builder::CardanoStakeDistributionSignableBuilder;
use mithril_common::test::double::Dummy;
use vh_core::{Value, json};

type Store = MKTreeStoreInMemory;
type Map = MKMap<BlockRange, MKMapNode<BlockRange, Store>, Store>;

fn cert_for(pm: ProtocolMessage) -> MithrilCertificate {
    let mut cert = MithrilCertificate::dummy();
    cert.signed_message = pm.compute_hash();
    cert.protocol_message = pm;
    cert
}

fn sd(entries: &[(&str, u64)]) -> BTreeMap<String, u64> {
    entries.iter().map(|(p, s)| (p.to_string(), *s)).collect()
}

fn stake_case(certified: &[(&str, u64)], served: &[(&str, u64)]) {
    let tree = CardanoStakeDistributionSignableBuilder::compute_merkle_tree_from_stake_distribution(sd(certified)).unwrap();
    let mut pm = ProtocolMessage::new();
    pm.set_message_part(ProtocolMessagePartKey::CardanoStakeDistributionEpoch, "7".to_string());
    pm.set_message_part(ProtocolMessagePartKey::CardanoStakeDistributionMerkleRoot, tree.compute_root().unwrap().to_hex());
    let cert = cert_for(pm);
    let msg = CardanoStakeDistribution { epoch: Epoch(7), stake_distribution: sd(served), ..Dummy::dummy() };
    let message = MessageBuilder::new().compute_cardano_stake_distribution_message(&cert, &msg).unwrap();
    println!("certified {certified:?}  served {served:?}  =>  match_message = {}", cert.match_message(&message));
}

fn hexh(s: &str) -> String {
    use sha2::{Digest, Sha256};
    hex::encode(Sha256::digest(s.as_bytes()))
}

fn main() {
    println!("-- 1. digits moved between a pool id and its stake");
    stake_case(&[("pool1xyz2", 34)], &[("pool1xyz", 234)]);
    println!("-- 2. characters moved between the leaves of adjacent pools");
    stake_case(&[("1", 2), ("12", 2)], &[("12", 1), ("2", 2)]);
    stake_case(&[("pool1aaa", 5), ("pool1bbb", 7)], &[("pool1aaa", 5), ("pool1bbb", 7)]);
    stake_case(&[("pool1aaa", 57), ("pool1bbb", 7)], &[("pool1aaa", 5), ("7pool1bbb", 7)]);

    println!("-- 3. transaction proof: a digit of the slot number moved into the proof's sibling node");
    // one block range, two blocks with two transactions each, realistic hashes
    let txs: Vec<CardanoTransaction> = (0..4u64)
        .map(|i| CardanoTransaction::new(hexh(&format!("tx{i}")), BlockNumber(3 + i / 2), SlotNumber(4571 + 20 * (i / 2)), hexh(&format!("block{}", i / 2))))
        .collect();
    let nodes: std::collections::BTreeSet<CardanoBlockTransactionMkTreeNode> = txs.iter().cloned().map(Into::into).collect();
    let range = BlockRange::from_block_number(BlockNumber(3));
    let map: Map = MKMap::new(&[(range.clone(), MKTree::<Store>::new_from_iter(nodes.clone()).unwrap().into())]).unwrap();
    let mut pm = ProtocolMessage::new();
    pm.set_message_part(ProtocolMessagePartKey::CardanoBlocksTransactionsMerkleRoot, map.compute_root().unwrap().to_hex());
    pm.set_message_part(ProtocolMessagePartKey::LatestBlockNumber, "4".to_string());
    pm.set_message_part(ProtocolMessagePartKey::CardanoBlocksTransactionsBlockNumberOffset, "15".to_string());
    let cert = cert_for(pm);
    // honest response for the first transaction in tree order (a left child: its sibling is on its right)
    let first = nodes.iter().next().cloned().unwrap();
    let CardanoBlockTransactionMkTreeNode::Transaction { transaction_hash, .. } = first.clone() else { unreachable!() };
    let tx = txs.iter().find(|t| t.transaction_hash == transaction_hash).unwrap().clone();
    let proof = map.compute_proof(&[first]).unwrap();
    let part: MkSetProofMessagePart<CardanoTransactionMessagePart> = MkSetProof::<CardanoTransaction>::new(vec![tx.clone()], proof).try_into().unwrap();
    let honest = CardanoTransactionsProofsV2::new("cert", Some(part.clone()), vec![], BlockNumber(4), BlockNumberOffset(15));
    let check = |label: &str, m: &CardanoTransactionsProofsV2| match m.verify() {
        Ok(v) => {
            let message = MessageBuilder::new().compute_cardano_transactions_proofs_v2_message(&cert, &v);
            println!("{label}: verify = Ok, match_message = {}, reported = {:?}", cert.match_message(&message),
                v.certified_transactions().iter().map(|t| (t.transaction_hash[..8].to_string(), *t.block_number, *t.slot_number)).collect::<Vec<_>>());
        }
        Err(e) => println!("{label}: verify = Err({e})"),
    };
    check("honest  ", &honest);
    // tamper: slot 4571 -> 457, the removed "1" prepended to the sibling node inside the hex-encoded proof
    let decoded: MKMapProof<BlockRange> = ProtocolMkProof::from_bytes_hex(&part.proof).unwrap().into_inner();
    let mut pj: Value = serde_json::to_value(&decoded).unwrap();
    let sub = &mut pj["sub_proofs"][0][1]["master_proof"];
    let slot = tx.slot_number.to_string();
    let (kept, moved) = slot.split_at(slot.len() - 1);
    let leaf: Vec<u8> = serde_json::from_value(sub["inner_leaves"][0][1]["hash"].clone()).unwrap();
    sub["inner_leaves"][0][1]["hash"] = json!(leaf[..leaf.len() - 1].to_vec());
    let mut sibling: Vec<u8> = serde_json::from_value(sub["inner_proof_items"][0]["hash"].clone()).unwrap();
    sibling.splice(0..0, moved.bytes());
    sub["inner_proof_items"][0]["hash"] = json!(sibling);
    let forged: MKMapProof<BlockRange> = serde_json::from_value(pj).unwrap();
    let mut item = part.items[0].clone();
    item.slot_number = SlotNumber(kept.parse().unwrap());
    let tampered = CardanoTransactionsProofsV2::new(
        "cert",
        Some(MkSetProofMessagePart { items: vec![item], proof: ProtocolMkProof::new(forged).to_bytes_hex().unwrap() }),
        vec![],
        BlockNumber(4),
        BlockNumberOffset(15),
    );
    check("tampered", &tampered);

    println!("-- 3b. legacy format: a truncated transaction hash");
    let ltree = MKTree::<Store>::new(&txs).unwrap();
    let lmap: Map = MKMap::new(&[(range, ltree.into())]).unwrap();
    let mut pm = ProtocolMessage::new();
    pm.set_message_part(ProtocolMessagePartKey::CardanoTransactionsMerkleRoot, lmap.compute_root().unwrap().to_hex());
    pm.set_message_part(ProtocolMessagePartKey::LatestBlockNumber, "14".to_string());
    let lcert = cert_for(pm);
    let h0 = txs[0].transaction_hash.clone();
    let lproof = lmap.compute_proof(&[h0.clone()]).unwrap();
    let mut pj: Value = serde_json::to_value(&lproof).unwrap();
    let sub = &mut pj["sub_proofs"][0][1]["master_proof"];
    sub["inner_leaves"][0][1]["hash"] = json!(h0.as_bytes()[..10].to_vec());
    let mut sibling: Vec<u8> = serde_json::from_value(sub["inner_proof_items"][0]["hash"].clone()).unwrap();
    sibling.splice(0..0, h0.as_bytes()[10..].iter().copied());
    sub["inner_proof_items"][0]["hash"] = json!(sibling);
    let forged: MKMapProof<BlockRange> = serde_json::from_value(pj).unwrap();
    let lpart: CardanoTransactionsSetProofMessagePart = CardanoTransactionsSetProof::new(vec![h0[..10].to_string()], forged).try_into().unwrap();
    let lmsg = CardanoTransactionsProofs::new("cert", vec![lpart], vec![], BlockNumber(14));
    match lmsg.verify() {
        Ok(v) => {
            let message = MessageBuilder::new().compute_cardano_transactions_proofs_message(&lcert, &v);
            println!("committed hash {h0}\ntampered: verify = Ok, match_message = {}, reported = {:?}", lcert.match_message(&message), v.certified_transactions());
        }
        Err(e) => println!("tampered: verify = Err({e})"),
    }

    println!("-- 4. '/' inside served hash strings (second suspect): no validation anywhere on the verification path");
    // A HYPOTHETICAL chain whose signers committed a transaction hash containing '/': the served item
    // with the '/' moved to the other field has the same leaf and is accepted. Real signers commit
    // hex strings only (ScannedBlock hex-encodes), and TLC shows committed-hex vs served-anything is
    // injective, so this is not reachable -- but nothing on the client side would stop it.
    let odd = CardanoTransaction::new("aa/bb", BlockNumber(3), SlotNumber(70), "cc");
    let node: CardanoBlockTransactionMkTreeNode = odd.clone().into();
    let omap: Map = MKMap::new(&[(BlockRange::from_block_number(BlockNumber(3)), MKTree::<Store>::new_from_iter([node.clone()]).unwrap().into())]).unwrap();
    let mut pm = ProtocolMessage::new();
    pm.set_message_part(ProtocolMessagePartKey::CardanoBlocksTransactionsMerkleRoot, omap.compute_root().unwrap().to_hex());
    pm.set_message_part(ProtocolMessagePartKey::LatestBlockNumber, "4".to_string());
    pm.set_message_part(ProtocolMessagePartKey::CardanoBlocksTransactionsBlockNumberOffset, "15".to_string());
    let ocert = cert_for(pm);
    let served = CardanoTransaction::new("aa", BlockNumber(3), SlotNumber(70), "bb/cc");
    let opart: MkSetProofMessagePart<CardanoTransactionMessagePart> =
        MkSetProof::<CardanoTransaction>::new(vec![served], omap.compute_proof(&[node]).unwrap()).try_into().unwrap();
    let omsg = CardanoTransactionsProofsV2::new("cert", Some(opart), vec![], BlockNumber(4), BlockNumberOffset(15));
    match omsg.verify() {
        Ok(v) => {
            let message = MessageBuilder::new().compute_cardano_transactions_proofs_v2_message(&ocert, &v);
            println!("committed (th=aa/bb, bh=cc), served (th=aa, bh=bb/cc): verify = Ok, match_message = {}", ocert.match_message(&message));
        }
        Err(e) => println!("verify = Err({e})"),
    }
    let _ = MKTreeNode::new(vec![]);
}
