//! C11 — certified transaction / block / stake sets: the client side of the harness.
//!
//! Reads the `world` / `proof` / `stake` records written by `vh-common/c11_proofs` (real, possibly
//! altered aggregator responses as wire JSON + the certificate of the certified chain) and runs what
//! a user of mithril-client runs:
//!   wire JSON -> `CardanoTransactionClient::get_proofs` / `CardanoTransactionV2Client::get_proof` /
//!   `CardanoBlockClient::get_proof` / `CardanoStakeDistributionClient::get` (over a scripted
//!   aggregator) -> `...Proofs::verify()` -> `MessageBuilder::compute_cardano_*_message` ->
//!   `MithrilCertificate::match_message`.
//! One trace event per response. The abstract projection is recomputed from the REAL values the
//! client ends up holding (the `Verified...` value, the parsed stake distribution), compared field
//! by field with the ground truth of the certified chain; TLC validates against
//! spec/proofs/ProofsTrace.tla (`accepted => reported exactly as signed`).
use std::collections::{BTreeMap, BTreeSet};
use std::sync::{Arc, Mutex};

use async_trait::async_trait;
use mithril_client::cardano_block_client::{CardanoBlockAggregatorRequest, CardanoBlockClient};
use mithril_client::cardano_stake_distribution_client::{CardanoStakeDistributionAggregatorRequest, CardanoStakeDistributionClient};
use mithril_client::cardano_transaction_client::{CardanoTransactionAggregatorRequest, CardanoTransactionClient};
use mithril_client::cardano_transaction_v2_client::{CardanoTransactionV2AggregatorRequest, CardanoTransactionV2Client};
use mithril_client::common::{EpochSpecifier, ProtocolMessage, ProtocolMessagePartKey};
use mithril_client::{
    CardanoBlocksProofs, CardanoBlocksTransactionsSnapshot, CardanoBlocksTransactionsSnapshotListItem, CardanoStakeDistribution,
    CardanoStakeDistributionListItem, CardanoTransactionSnapshot, CardanoTransactionSnapshotListItem, CardanoTransactionsProofs,
    CardanoTransactionsProofsV2, MessageBuilder, MithrilCertificate, MithrilResult,
};
use mithril_common::crypto_helper::MKTreeNode;
use mithril_common::entities::{BlockNumber, CardanoBlock, CardanoBlockTransactionMkTreeNode, CardanoTransaction, SlotNumber};
use vh_core::{Args, Guarded, Trace, Value, guarded, json, quiet_panics, read_ndjson};

/// The untrusted aggregator: answers every request with the scripted wire JSON.
#[derive(Default)]
struct Aggregator {
    body: Mutex<String>,
}

impl Aggregator {
    fn decode<T: serde::de::DeserializeOwned>(&self) -> MithrilResult<Option<T>> {
        // what the HTTP layer does with a 200 response body
        Ok(Some(serde_json::from_str::<T>(&self.body.lock().unwrap())?))
    }
}

#[async_trait]
impl CardanoTransactionAggregatorRequest for Aggregator {
    async fn get_proof(&self, _hashes: &[String]) -> MithrilResult<Option<CardanoTransactionsProofs>> {
        self.decode()
    }
    async fn list_latest_snapshots(&self) -> MithrilResult<Vec<CardanoTransactionSnapshotListItem>> {
        Ok(vec![])
    }
    async fn get_snapshot(&self, _hash: &str) -> MithrilResult<Option<CardanoTransactionSnapshot>> {
        Ok(None)
    }
}

#[async_trait]
impl CardanoTransactionV2AggregatorRequest for Aggregator {
    async fn get_proof(&self, _hashes: &[String]) -> MithrilResult<Option<CardanoTransactionsProofsV2>> {
        self.decode()
    }
    async fn list_latest_snapshots(&self) -> MithrilResult<Vec<CardanoBlocksTransactionsSnapshotListItem>> {
        Ok(vec![])
    }
    async fn get_snapshot(&self, _hash: &str) -> MithrilResult<Option<CardanoBlocksTransactionsSnapshot>> {
        Ok(None)
    }
}

#[async_trait]
impl CardanoBlockAggregatorRequest for Aggregator {
    async fn get_proof(&self, _hashes: &[String]) -> MithrilResult<Option<CardanoBlocksProofs>> {
        self.decode()
    }
    async fn list_latest_snapshots(&self) -> MithrilResult<Vec<CardanoBlocksTransactionsSnapshotListItem>> {
        Ok(vec![])
    }
    async fn get_snapshot(&self, _hash: &str) -> MithrilResult<Option<CardanoBlocksTransactionsSnapshot>> {
        Ok(None)
    }
}

#[async_trait]
impl CardanoStakeDistributionAggregatorRequest for Aggregator {
    async fn list_latest(&self) -> MithrilResult<Vec<CardanoStakeDistributionListItem>> {
        Ok(vec![])
    }
    async fn get_by_hash(&self, _hash: &str) -> MithrilResult<Option<CardanoStakeDistribution>> {
        self.decode()
    }
    async fn get_by_epoch(&self, _specifier: EpochSpecifier) -> MithrilResult<Option<CardanoStakeDistribution>> {
        self.decode()
    }
}

struct World {
    cert_legacy: Option<MithrilCertificate>,
    cert_v2: Option<MithrilCertificate>,
    cert_sd: Option<MithrilCertificate>,
    tx: BTreeSet<(String, String, u64, u64)>,
    blk: BTreeSet<(String, u64, u64)>,
    legacy: BTreeSet<String>,
    lbn_legacy: Option<u64>,
    lbn_v2: Option<u64>,
    off: u64,
    sd: BTreeMap<String, u64>,
    epoch: u64,
    /// byte strings of the committed leaves (real conversions), per tree kind
    leaves_v2: Vec<Vec<u8>>,
    leaves_legacy: Vec<Vec<u8>>,
}

/// the real leaf bytes of an item (mithril-common conversions)
fn tx_leaf(th: &str, bh: &str, bn: u64, slot: u64) -> Vec<u8> {
    let n: CardanoBlockTransactionMkTreeNode = CardanoTransaction::new(th, BlockNumber(bn), SlotNumber(slot), bh).into();
    let m: MKTreeNode = n.into();
    m.to_vec()
}
fn blk_leaf(bh: &str, bn: u64, slot: u64) -> Vec<u8> {
    let n: CardanoBlockTransactionMkTreeNode = CardanoBlock::new(bh, BlockNumber(bn), SlotNumber(slot)).into();
    let m: MKTreeNode = n.into();
    m.to_vec()
}
fn legacy_leaf(th: &str) -> Vec<u8> {
    let m: MKTreeNode = th.into();
    m.to_vec()
}
/// `l` and the committed leaf `c` differ only by bytes at one end (a leaf boundary moved)
fn boundary_moved(l: &[u8], c: &[u8]) -> bool {
    l != c && !l.is_empty() && (c.starts_with(l) || c.ends_with(l) || l.starts_with(c) || l.ends_with(c))
}

fn cert_of(v: &Value) -> Option<MithrilCertificate> {
    v.as_str().map(|s| serde_json::from_str(s).expect("harness: certificate record"))
}

fn world_of(v: &Value) -> World {
    let t = &v["truth"];
    let arr = |x: &Value| x.as_array().cloned().unwrap_or_default();
    let tx: BTreeSet<(String, String, u64, u64)> =
        arr(&t["tx"]).iter().map(|e| (e[0].as_str().unwrap().into(), e[1].as_str().unwrap().into(), e[2].as_u64().unwrap(), e[3].as_u64().unwrap())).collect();
    let blk: BTreeSet<(String, u64, u64)> = arr(&t["blk"]).iter().map(|e| (e[0].as_str().unwrap().into(), e[1].as_u64().unwrap(), e[2].as_u64().unwrap())).collect();
    let legacy: BTreeSet<String> = arr(&t["legacy"]).iter().map(|e| e.as_str().unwrap().to_string()).collect();
    World {
        leaves_v2: blk.iter().map(|(h, n, sl)| blk_leaf(h, *n, *sl)).chain(tx.iter().map(|(a, b, n, sl)| tx_leaf(a, b, *n, *sl))).collect(),
        leaves_legacy: legacy.iter().map(|h| legacy_leaf(h)).collect(),
        cert_legacy: cert_of(&v["cert_legacy"]),
        cert_v2: cert_of(&v["cert_v2"]),
        cert_sd: cert_of(&v["cert_sd"]),
        tx,
        blk,
        legacy,
        lbn_legacy: t["lbn_legacy"].as_u64(),
        lbn_v2: t["lbn_v2"].as_u64(),
        off: t["off"].as_u64().unwrap_or(0),
        sd: arr(&t["sd"]).iter().map(|e| (e[0].as_str().unwrap().to_string(), e[1].as_u64().unwrap())).collect(),
        epoch: t["epoch"].as_u64().unwrap_or(0),
    }
}

/// what the client ends up reporting for one response
struct Outcome {
    note: String,
    verified: bool,
    matched: bool,
    /// per reported item: (committed in the certified chain for the certificate's tree kind,
    /// its leaf is a committed leaf with a boundary moved)
    items: Vec<(bool, bool)>,
    lbn_ok: bool,
    off_ok: bool,
    root_ok: bool,
}

impl Outcome {
    fn rejected(note: String) -> Outcome {
        Outcome { note, verified: false, matched: false, items: vec![], lbn_ok: true, off_ok: true, root_ok: false }
    }
}

fn part(pm: &ProtocolMessage, k: ProtocolMessagePartKey) -> Option<String> {
    pm.get_message_part(&k).cloned()
}

fn check_proof(rt: &tokio::runtime::Runtime, agg: &Arc<Aggregator>, w: &World, fmt: &str, cert_kind: &str) -> Outcome {
    let cert = match cert_kind {
        "legacy" => w.cert_legacy.as_ref(),
        _ => w.cert_v2.as_ref(),
    };
    let Some(cert) = cert else { return Outcome::rejected("no-certificate".into()) };
    let builder = MessageBuilder::new();
    let kind_ok = (fmt == "legacy") == (cert_kind == "legacy");
    let signed_lbn = if cert_kind == "legacy" { w.lbn_legacy } else { w.lbn_v2 };
    let signed_root = part(&cert.protocol_message, if cert_kind == "legacy" { ProtocolMessagePartKey::CardanoTransactionsMerkleRoot } else { ProtocolMessagePartKey::CardanoBlocksTransactionsMerkleRoot });
    match fmt {
        "legacy" => {
            let client = CardanoTransactionClient::new(agg.clone());
            let proofs = match rt.block_on(client.get_proofs(&["q"])) {
                Ok(p) => p,
                Err(e) => return Outcome::rejected(format!("undecodable: {}", first_line(&e))),
            };
            let verified = match guarded(|| proofs.verify()) {
                Guarded::Done(Ok(v)) => v,
                Guarded::Done(Err(e)) => return Outcome::rejected(format!("verify: {}", first_line(&e))),
                Guarded::Panic(m) => return Outcome::rejected(format!("panic: {m}")),
            };
            let message = builder.compute_cardano_transactions_proofs_message(cert, &verified);
            // what the client reports: taken from the Verified value
            let mut reported = ProtocolMessage::new();
            verified.fill_protocol_message(&mut reported);
            let lbn = part(&reported, ProtocolMessagePartKey::LatestBlockNumber);
            Outcome {
                note: String::new(),
                verified: true,
                matched: cert.match_message(&message),
                items: verified
                    .certified_transactions()
                    .iter()
                    .map(|h| (kind_ok && w.legacy.contains(h), kind_ok && w.leaves_legacy.iter().any(|c| boundary_moved(&legacy_leaf(h), c))))
                    .collect(),
                lbn_ok: lbn == signed_lbn.map(|n| n.to_string()),
                off_ok: true,
                root_ok: part(&reported, ProtocolMessagePartKey::CardanoTransactionsMerkleRoot) == signed_root,
            }
        }
        "tx" => {
            let client = CardanoTransactionV2Client::new(agg.clone());
            let proofs = match rt.block_on(client.get_proof(&["q"])) {
                Ok(p) => p,
                Err(e) => return Outcome::rejected(format!("undecodable: {}", first_line(&e))),
            };
            let verified = match guarded(|| proofs.verify()) {
                Guarded::Done(Ok(v)) => v,
                Guarded::Done(Err(e)) => return Outcome::rejected(format!("verify: {}", first_line(&e))),
                Guarded::Panic(m) => return Outcome::rejected(format!("panic: {m}")),
            };
            let message = builder.compute_cardano_transactions_proofs_v2_message(cert, &verified);
            Outcome {
                note: String::new(),
                verified: true,
                matched: cert.match_message(&message),
                items: verified
                    .certified_transactions()
                    .iter()
                    .map(|t| {
                        let l = tx_leaf(&t.transaction_hash, &t.block_hash, *t.block_number, *t.slot_number);
                        (kind_ok && w.tx.contains(&(t.transaction_hash.clone(), t.block_hash.clone(), *t.block_number, *t.slot_number)),
                         kind_ok && w.leaves_v2.iter().any(|c| boundary_moved(&l, c)))
                    })
                    .collect(),
                lbn_ok: Some(*verified.latest_certified_block_number()) == signed_lbn,
                off_ok: !kind_ok || *verified.security_parameter() == w.off,
                root_ok: Some(verified.certified_merkle_root().to_string()) == signed_root,
            }
        }
        _ => {
            let client = CardanoBlockClient::new(agg.clone());
            let proofs = match rt.block_on(client.get_proof(&["q"])) {
                Ok(p) => p,
                Err(e) => return Outcome::rejected(format!("undecodable: {}", first_line(&e))),
            };
            let verified = match guarded(|| proofs.verify()) {
                Guarded::Done(Ok(v)) => v,
                Guarded::Done(Err(e)) => return Outcome::rejected(format!("verify: {}", first_line(&e))),
                Guarded::Panic(m) => return Outcome::rejected(format!("panic: {m}")),
            };
            let message = builder.compute_cardano_blocks_proofs_message(cert, &verified);
            Outcome {
                note: String::new(),
                verified: true,
                matched: cert.match_message(&message),
                items: verified
                    .certified_blocks()
                    .iter()
                    .map(|b| {
                        let l = blk_leaf(&b.block_hash, *b.block_number, *b.slot_number);
                        (kind_ok && w.blk.contains(&(b.block_hash.clone(), *b.block_number, *b.slot_number)), kind_ok && w.leaves_v2.iter().any(|c| boundary_moved(&l, c)))
                    })
                    .collect(),
                lbn_ok: Some(*verified.latest_certified_block_number()) == signed_lbn,
                off_ok: !kind_ok || *verified.security_parameter() == w.off,
                root_ok: Some(verified.certified_merkle_root().to_string()) == signed_root,
            }
        }
    }
}

fn first_line<E: std::fmt::Display>(e: &E) -> String {
    let s = e.to_string();
    s.lines().next().unwrap_or("").chars().take(90).collect()
}

fn main() {
    quiet_panics();
    let args = Args::parse();
    let mut trace = Trace::create(args.req("out"));
    let rt = tokio::runtime::Builder::new_current_thread().build().unwrap();
    let agg = Arc::new(Aggregator::default());
    let mut worlds: BTreeMap<u64, World> = BTreeMap::new();
    let mut summary: BTreeMap<String, u64> = BTreeMap::new();
    let mut bump = |k: String| *summary.entry(k).or_default() += 1;
    for rec in read_ndjson(args.req("in")) {
        match rec["kind"].as_str().unwrap() {
            "world" => {
                worlds.insert(rec["id"].as_u64().unwrap(), world_of(&rec));
            }
            "proof" => {
                let w = &worlds[&rec["world"].as_u64().unwrap()];
                let fmt = rec["fmt"].as_str().unwrap();
                let cert_kind = rec["cert_kind"].as_str().unwrap();
                *agg.body.lock().unwrap() = rec["msg"].as_str().unwrap().to_string();
                let o = check_proof(&rt, &agg, w, fmt, cert_kind);
                let accepted = o.verified && o.matched;
                let honest = rec["ops"].as_array().unwrap().is_empty();
                bump(format!("proof:{fmt}:{}", if accepted { "accepted" } else if o.verified { "verified_not_matched" } else { "rejected" }));
                if honest {
                    bump(format!("honest:{fmt}:{}", if accepted { "accepted" } else { "rejected" }));
                }
                if accepted && !honest {
                    bump("altered_accepted".to_string());
                }
                if o.note.starts_with("panic") {
                    bump("panics".to_string());
                }
                if o.note.starts_with("undecodable") {
                    bump("undecodable".to_string());
                }
                let pred_match = rec["predicted"].is_null() || rec["predicted"] == json!(accepted);
                if !pred_match {
                    bump("prediction_mismatch".to_string());
                }
                if !rec["predicted_verify"].is_null() && rec["predicted_verify"] != json!(o.verified) {
                    bump("verify_prediction_mismatch".to_string());
                }
                let items: Vec<Value> = o.items.iter().map(|(c, _)| json!({"committed": c})).collect();
                // what kind of uncommitted items are reported (recomputed from the real leaf bytes)
                let unc: Vec<&(bool, bool)> = o.items.iter().filter(|(c, _)| !c).collect();
                let uncommitted = if unc.is_empty() { "none" } else if unc.iter().all(|(_, b)| *b) { "moved_leaf_boundary" } else { "other" };
                if accepted && uncommitted != "none" {
                    bump(format!("accepted_with_uncommitted:{uncommitted}"));
                }
                trace.emit(json!({"ev": "ProofCheck", "case": rec["case"], "src": rec["src"], "fmt": fmt, "cert_kind": cert_kind, "ops": rec["ops"],
                    "items": items, "n_items": o.items.len(), "uncommitted": uncommitted, "lbn_ok": o.lbn_ok, "off_ok": o.off_ok, "root_ok": o.root_ok,
                    "verified": o.verified, "matched": o.matched, "accepted": accepted, "note": o.note,
                    "predicted": if rec["predicted"].is_null() { json!("n/a") } else { json!(rec["predicted"].to_string()) },
                    "pred_match": pred_match}));
            }
            "stake" => {
                let w = &worlds[&rec["world"].as_u64().unwrap()];
                let cert = w.cert_sd.as_ref().expect("harness: stake world without certificate");
                *agg.body.lock().unwrap() = rec["msg"].as_str().unwrap().to_string();
                let client = CardanoStakeDistributionClient::new(agg.clone());
                let (note, accepted, same, epoch_ok, n_pools, (same_leaf_strings, adjacent_moved)) = match rt.block_on(client.get("h")) {
                    Err(e) => (format!("undecodable: {}", first_line(&e)), false, false, false, 0, (false, false)),
                    Ok(None) => ("none".to_string(), false, false, false, 0, (false, false)),
                    Ok(Some(csd)) => {
                        let same = csd.stake_distribution == w.sd;
                        let epoch_ok = *csd.epoch == w.epoch;
                        // the leaf strings of both mappings, in map order (only to label the known finding)
                        let leaves = |d: &BTreeMap<String, u64>| d.iter().map(|(p, s)| format!("{p}{s}")).collect::<Vec<_>>();
                        let (ls, lc) = (leaves(&csd.stake_distribution), leaves(&w.sd));
                        // different leaf strings, but every pair of sibling leaves (0,1), (2,3), ... of the
                        // mountain range has the same concatenation, a last single leaf is unchanged
                        let pairs = |l: &Vec<String>| l.chunks(2).map(|c| c.concat()).collect::<Vec<_>>();
                        let adj = ls != lc && ls.len() == lc.len() && pairs(&ls) == pairs(&lc) && (ls.len() % 2 == 0 || ls.last() == lc.last());
                        let sls = (!same && ls == lc, adj);
                        match guarded(|| MessageBuilder::new().compute_cardano_stake_distribution_message(cert, &csd)) {
                            Guarded::Done(Ok(message)) => (String::new(), cert.match_message(&message), same, epoch_ok, csd.stake_distribution.len(), sls),
                            Guarded::Done(Err(e)) => (format!("compute: {}", first_line(&e)), false, same, epoch_ok, csd.stake_distribution.len(), sls),
                            Guarded::Panic(m) => (format!("panic: {m}"), false, same, epoch_ok, csd.stake_distribution.len(), sls),
                        }
                    }
                };
                let honest = rec["ops"].as_array().unwrap().is_empty();
                // the tampering kind, recomputed from the real values: a different mapping whose leaf
                // strings (pool id immediately followed by the stake) are exactly the certified ones
                let tamper = if same_leaf_strings {
                    "move_digit_between_pool_id_and_stake".to_string()
                } else if adjacent_moved {
                    "move_chars_between_adjacent_leaves".to_string()
                } else if same && epoch_ok {
                    "none".to_string()
                } else {
                    "other".to_string()
                };
                bump(format!("stake:{}", if accepted { "accepted" } else { "rejected" }));
                if honest {
                    bump(format!("honest:stake:{}", if accepted { "accepted" } else { "rejected" }));
                }
                if same_leaf_strings {
                    bump(format!("stake_same_leaf_strings:{}", if accepted { "accepted" } else { "rejected" }));
                }
                if adjacent_moved {
                    bump(format!("stake_adjacent_leaves_moved:{}", if accepted { "accepted" } else { "rejected" }));
                }
                let pred_match = rec["predicted"].is_null() || rec["predicted"] == json!(accepted);
                if !pred_match {
                    bump("prediction_mismatch".to_string());
                }
                trace.emit(json!({"ev": "StakeCheck", "case": rec["case"], "src": rec["src"], "ops": rec["ops"], "tamper": tamper, "same": same,
                    "epoch_ok": epoch_ok, "n_pools": n_pools, "accepted": accepted, "note": note,
                    "predicted": if rec["predicted"].is_null() { json!("n/a") } else { json!(rec["predicted"].to_string()) },
                    "pred_match": pred_match}));
            }
            k => panic!("unknown record kind {k}"),
        }
    }
    let n = trace.finish();
    summary.insert("events".into(), n);
    println!("{}", serde_json::to_string(&summary).unwrap());
}
