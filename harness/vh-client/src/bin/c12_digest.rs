//! C12 -- the database digest depends only on the immutable files up to the beacon.
//!
//! `--mode cases`  (spec -> impl): abstract nodes enumerated by TLC (spec/db/MC_DbDigestGen) are
//!   realised as real directories (files created in the requested order, other files, a second
//!   `immutable` directory, files beyond the beacon, perturbed files) and the real
//!   `CardanoImmutableDigester` (+ `JsonImmutableFileDigestCacheProvider`) is run through the real
//!   `CardanoDatabaseSignableBuilder::compute_protocol_message` / `compute_digests_for_range` (both
//!   read and write the same cache) along the case's history.
//! `--mode random` : seeded random nodes (bigger databases, partial trios, random layouts,
//!   histories and perturbations).
//! `--mode confirm`: prints the reproduction of the known finding (second `immutable` directory).
//!
//! Every computation is logged as a `Digest` event whose `covered` field (names and content ids of
//! the immutable files numbered up to the beacon) is recomputed from the real directory with code
//! of this harness.  TLC validates the trace against spec/db/DbDigestTrace.tla.
use std::collections::HashSet;
use std::path::{Path, PathBuf};
use std::sync::Arc;

use mithril_cardano_node_internal_database::digesters::cache::{
    ImmutableFileDigestCacheProvider, JsonImmutableFileDigestCacheProvider,
};
use mithril_cardano_node_internal_database::digesters::{CardanoImmutableDigester, ImmutableDigester};
use mithril_cardano_node_internal_database::signable_builder::CardanoDatabaseSignableBuilder;
use mithril_common::crypto_helper::{MKTree, MKTreeStoreInMemory};
use mithril_common::entities::{CardanoDbBeacon, Epoch, ProtocolMessagePartKey};
use mithril_common::signable_builder::SignableBuilder;
use vh_client::dbkit::*;
use vh_core::{Args, ChaCha20Rng, Guarded, Trace, Value, below, guarded, json, quiet_panics, read_ndjson, rng};

const DECOY_CID: u64 = 99;
const DECOY_CANDIDATES: &[&str] = &["aaa", "zzz", "backup", "0", "old", "snap", "x1", "x2", "x3", "x4", "db2", "m"];

/// how to obtain a second directory `<db>/<x>/immutable` whose parent comes before / after
/// `immutable` in readdir order on this file system: (parent name, created before `immutable`)
struct DecoyPlan {
    first: Option<(String, bool)>,
    after: Option<(String, bool)>,
}

fn probe_decoy(work: &Path) -> DecoyPlan {
    let mut plan = DecoyPlan { first: None, after: None };
    for name in DECOY_CANDIDATES {
        for before in [true, false] {
            let p = work.join("probe");
            fresh_dir(&p);
            if before {
                std::fs::create_dir(p.join(name)).unwrap();
                std::fs::create_dir(p.join("immutable")).unwrap();
            } else {
                std::fs::create_dir(p.join("immutable")).unwrap();
                std::fs::create_dir(p.join(name)).unwrap();
            }
            let order = readdir_order(&p);
            let pi = order.iter().position(|n| n == "immutable").unwrap();
            let pd = order.iter().position(|n| n == name).unwrap();
            if pd < pi && plan.first.is_none() {
                plan.first = Some((name.to_string(), before));
            }
            if pd > pi && plan.after.is_none() {
                plan.after = Some((name.to_string(), before));
            }
            let _ = std::fs::remove_dir_all(&p);
        }
    }
    plan
}

/// an abstract node, as TLC (or the random driver) describes it
#[derive(Clone)]
struct Node {
    kind: String,
    imm: Vec<(u64, String, u64)>, // (num, ext, cid): the regular files
    nonreg: Vec<(u64, String, String, i64)>, // (num, ext, "dir" | "dangling" | "link", cid behind the link)
    other: Vec<String>,
    bad: bool,
    decoy: String,
    entry: String,
    order: String,
    hist: Vec<Step>,
    pred: Vec<(bool, Vec<u64>)>,
}

/// one step of a history: a computation -- `compute_merkle_tree` at beacon `hi` (op "tree") or
/// `compute_digests_for_range(lo..=hi)` (op "range") by the node's long-lived cache-less or cached
/// digester object --, a change of the file `<num>.<ext>` on disk (op "perturb": content `cid`,
/// -1 = removed), or a restart of the digester objects (op "restart")
#[derive(Clone)]
struct Step {
    op: &'static str,
    lo: u64,
    hi: u64,
    cache: bool,
    name: String,
    cid: i64,
}

fn tree(b: u64, cache: bool) -> Step {
    Step { op: "tree", lo: 0, hi: b, cache, name: String::new(), cid: -1 }
}

fn range(lo: u64, hi: u64, cache: bool) -> Step {
    Step { op: "range", lo, hi, cache, name: String::new(), cid: -1 }
}

fn perturb(name: String, cid: i64) -> Step {
    Step { op: "perturb", lo: 0, hi: 0, cache: false, name, cid }
}

fn restart() -> Step {
    Step { op: "restart", lo: 0, hi: 0, cache: false, name: String::new(), cid: -1 }
}

fn node_of_case(c: &Value) -> Node {
    let s = |v: &Value| v.as_str().unwrap().to_string();
    Node {
        kind: s(&c["kind"]),
        imm: c["imm"].as_array().unwrap().iter().map(|f| (f["num"].as_u64().unwrap(), s(&f["ext"]), f["cid"].as_u64().unwrap())).collect(),
        nonreg: c["nonreg"]
            .as_array()
            .map(|a| a.iter().map(|f| (f["num"].as_u64().unwrap(), s(&f["ext"]), s(&f["k"]), f["cid"].as_i64().unwrap())).collect())
            .unwrap_or_default(),
        other: c["other"].as_array().unwrap().iter().map(s).collect(),
        bad: c["bad"].as_bool().unwrap(),
        decoy: s(&c["decoy"]),
        entry: s(&c["entry"]),
        order: s(&c["order"]),
        hist: c["hist"]
            .as_array()
            .unwrap()
            .iter()
            .map(|h| Step {
                op: match h["op"].as_str().unwrap() {
                    "range" => "range",
                    "perturb" => "perturb",
                    "restart" => "restart",
                    _ => "tree",
                },
                lo: h["lo"].as_u64().unwrap(),
                hi: h["hi"].as_u64().unwrap(),
                cache: h["cache"].as_bool().unwrap(),
                name: if h["op"] == "perturb" { format!("{:05}.{}", h["num"].as_u64().unwrap(), h["ext"].as_str().unwrap()) } else { String::new() },
                cid: h["cid"].as_i64().unwrap_or(-1),
            })
            .collect(),
        pred: c["pred"]
            .as_array()
            .unwrap()
            .iter()
            .map(|p| (p["ok"].as_bool().unwrap(), p["cids"].as_array().unwrap().iter().map(|x| x.as_u64().unwrap()).collect()))
            .collect(),
    }
}

/// the files to create for a node, relative to <db>
fn files_of(node: &Node, seed: u64, plan: &DecoyPlan) -> Option<(Vec<(PathBuf, Vec<u8>)>, Option<(String, bool)>)> {
    let mut files: Vec<(PathBuf, Vec<u8>)> = vec![];
    for (num, ext, cid) in &node.imm {
        files.push((PathBuf::from(format!("immutable/{num:05}.{ext}")), content(seed, *cid)));
    }
    for k in &node.other {
        match k.as_str() {
            "imm_txt" => files.push(("immutable/README.txt".into(), b"read me".to_vec())),
            "imm_noext" => files.push(("immutable/notes".into(), b"notes".to_vec())),
            "imm_bak" => files.push(("immutable/00000.chunk.bak".into(), content(seed, 61))),
            "imm_subdir" => files.push(("immutable/sub/00000.chunk".into(), content(seed, 62))),
            "root_markers" => {
                files.push(("clean".into(), vec![]));
                files.push(("protocolMagicId".into(), b"2".to_vec()));
            }
            "ledger" => files.push(("ledger/4242".into(), content(seed, 63))),
            "volatile" => files.push(("volatile/blocks-0.dat".into(), content(seed, 64))),
            x => panic!("unknown other-file kind {x}"),
        }
    }
    if node.bad {
        files.push(("immutable/abc.chunk".into(), content(seed, 65)));
    }
    let mut decoy = None;
    if node.decoy != "none" {
        let d = if node.decoy == "first" { plan.first.clone() } else { plan.after.clone() };
        let (name, before) = d?;
        for (num, ext, _) in &node.imm {
            files.push((PathBuf::from(format!("{name}/immutable/{num:05}.{ext}")), content(seed, DECOY_CID)));
        }
        decoy = Some((name, before));
    }
    Some((files, decoy))
}

fn build_dir(db: &Path, node: &Node, seed: u64, case_ix: u64, plan: &DecoyPlan) -> Option<Option<String>> {
    let (mut files, decoy) = files_of(node, seed, plan)?;
    fresh_dir(db);
    // the order in which the children of <db> come into existence
    match &decoy {
        Some((name, true)) => {
            std::fs::create_dir_all(db.join(name).join("immutable")).unwrap();
            std::fs::create_dir_all(db.join("immutable")).unwrap();
        }
        Some((name, false)) => {
            std::fs::create_dir_all(db.join("immutable")).unwrap();
            std::fs::create_dir_all(db.join(name).join("immutable")).unwrap();
        }
        None => {}
    }
    files.sort_by(|a, b| a.0.cmp(&b.0));
    match node.order.as_str() {
        "asc" => {}
        "desc" => files.reverse(),
        o if o.starts_with("shuffle") => {
            let k: u64 = o["shuffle".len()..].parse().unwrap();
            let mut r = rng(seed, 7_000_000 + case_ix * 16 + k);
            for i in (1..files.len()).rev() {
                let j = below(&mut r, i as u64 + 1) as usize;
                files.swap(i, j);
            }
        }
        o => panic!("unknown order {o}"),
    }
    std::fs::create_dir_all(db.join("immutable")).unwrap();
    for (p, bytes) in &files {
        write_file(&db.join(p), bytes);
    }
    // entries that are no regular files, under immutable file names
    for (num, ext, kind, cid) in &node.nonreg {
        let name = format!("{num:05}.{ext}");
        let p = db.join("immutable").join(&name);
        match kind.as_str() {
            "dir" => write_file(&p.join("inner.bin"), b"a directory, not a file"),
            "dangling" => std::os::unix::fs::symlink(db.join("elsewhere").join(format!("nothing-{name}")), &p).unwrap(),
            "link" => {
                let target = db.join("elsewhere").join(&name);
                write_file(&target, &content(seed, *cid as u64));
                std::os::unix::fs::symlink(&target, &p).unwrap();
            }
            k => panic!("unknown entry kind {k}"),
        }
    }
    Some(decoy.map(|d| d.0))
}

/// the property's view of the node: names and content ids of the files `<db>/immutable/<n>.<ext>`
/// with lo <= n <= beacon -- recomputed from the real directory
fn covered(db: &Path, lo: u64, beacon: u64, int: &mut Interner) -> Value {
    let dir = db.join("immutable");
    let mut v: Vec<(u64, String, u64, &str)> = vec![];
    for name in readdir_order(&dir) {
        let p = dir.join(&name);
        let Some((num, _)) = parse_immutable_name(&name) else { continue };
        if num < lo || num > beacon {
            continue;
        }
        let md = std::fs::symlink_metadata(&p).unwrap();
        if md.is_file() {
            v.push((num, name, int.id_of_file(&p), "reg"));
        } else if md.file_type().is_symlink() && std::fs::metadata(&p).map(|t| t.is_file()).unwrap_or(false) {
            // a symbolic link to a regular file: kept apart (kind "link", content read through it)
            v.push((num, name, int.id_of_file(&p), "link"));
        }
        // a directory, a dangling link: no file under that name
    }
    v.sort();
    json!(v.iter().map(|(_, name, cid, kind)| json!({"name": name, "cid": cid, "kind": kind})).collect::<Vec<_>>())
}

/// position of the second `immutable` directory's parent relative to `immutable` in the real
/// readdir order of <db>
fn observed_decoy(db: &Path, parent: &Option<String>) -> &'static str {
    match parent {
        None => "none",
        Some(name) => {
            let order = readdir_order(db);
            let pi = order.iter().position(|n| n == "immutable").unwrap();
            let pd = order.iter().position(|n| n == name).unwrap();
            if pd < pi { "first" } else { "after" }
        }
    }
}

struct Runner {
    rt: tokio::runtime::Runtime,
    seed: u64,
    int: Interner,
    trace: Trace,
    ok: u64,
    err: u64,
    mismatches: u64,
    panics: u64,
    reuse: Option<(String, PathBuf, Option<String>)>,
}

impl Runner {
    fn predicted_root(&self, cids: &[u64]) -> String {
        let digests: Vec<String> = cids.iter().map(|c| sha256_hex(&content(self.seed, *c))).collect();
        let t: MKTree<MKTreeStoreInMemory> = MKTree::new(&digests).unwrap();
        t.compute_root().unwrap().to_hex()
    }

    /// `compute_digests_for_range(lo..=hi)` by the given (long-lived) real digester object: the
    /// (file name, digest) entries in order
    fn compute_range(&self, digester: &Arc<CardanoImmutableDigester>, dirpath: &Path, lo: u64, hi: u64) -> Guarded<Result<Vec<(String, String)>, String>> {
        let digester = digester.clone();
        let dirpath = dirpath.to_path_buf();
        guarded(|| {
            self.rt.block_on(async move {
                match digester.compute_digests_for_range(&dirpath, &(lo..=hi)).await {
                    Ok(d) => Ok(d.entries.into_iter().map(|(f, h)| (f.filename, h)).collect()),
                    Err(e) => Err(format!("{e:#}")),
                }
            })
        })
    }

    /// one Merkle-tree computation by the given (long-lived) real digester object;
    /// `via`: "signable" | "digester"
    fn compute(&self, digester: &Arc<CardanoImmutableDigester>, dirpath: &Path, beacon: u64, via: &str) -> Guarded<Result<String, String>> {
        let digester = digester.clone();
        let b = CardanoDbBeacon { epoch: Epoch(7), immutable_file_number: beacon };
        let dirpath = dirpath.to_path_buf();
        let via = via.to_string();
        guarded(|| {
            self.rt.block_on(async move {
                if via == "signable" {
                    let sb = CardanoDatabaseSignableBuilder::new(digester, &dirpath, discard_logger());
                    match sb.compute_protocol_message(b).await {
                        Ok(m) => Ok(m.get_message_part(&ProtocolMessagePartKey::CardanoDatabaseMerkleRoot).cloned().unwrap_or_default()),
                        Err(e) => Err(format!("{e:#}")),
                    }
                } else {
                    match digester.compute_merkle_tree(&dirpath, &b).await {
                        Ok(t) => t.compute_root().map(|r| r.to_hex()).map_err(|e| format!("{e:#}")),
                        Err(e) => Err(format!("{e:#}")),
                    }
                }
            })
        })
    }

    fn run_node(&mut self, work: &Path, case_ix: u64, node: &Node, plan: &DecoyPlan) -> bool {
        // consecutive nodes with the same disk share the directory (computations never write below
        // <db>); every node starts with its own empty cache
        let layout = format!("{:?}|{:?}|{:?}|{}|{}|{}", node.imm, node.nonreg, node.other, node.bad, node.decoy, if node.order.starts_with("shuffle") { format!("{}{case_ix}", node.order) } else { node.order.clone() });
        let (base, decoy_parent) = match &self.reuse {
            Some((l, b, d)) if *l == layout => (b.clone(), d.clone()),
            _ => {
                if let Some((_, b, _)) = self.reuse.take() {
                    let _ = std::fs::remove_dir_all(&b);
                }
                let base = work.join(format!("n{case_ix}"));
                let Some(decoy_parent) = build_dir(&base.join("db"), node, self.seed, case_ix, plan) else {
                    return false; // this file system offers no way to realise the requested readdir order
                };
                self.reuse = Some((layout, base.clone(), decoy_parent.clone()));
                (base, decoy_parent)
            }
        };
        let db = base.join("db");
        let cache_file = base.join("digest-cache.json");
        let _ = std::fs::remove_file(&cache_file);
        let dirpath = if node.entry == "immdir" { db.join("immutable") } else { db.clone() };
        let decoy = observed_decoy(&db, &decoy_parent);
        // the node's two long-lived real digester objects: built without cache provider, and with
        // the JSON provider over the node's cache file; they live across the steps of the history
        let new_objects = |cache_file: &Path| -> (Arc<CardanoImmutableDigester>, Arc<CardanoImmutableDigester>) {
            let provider: Arc<dyn ImmutableFileDigestCacheProvider> = Arc::new(JsonImmutableFileDigestCacheProvider::new(cache_file));
            (Arc::new(CardanoImmutableDigester::new(None, discard_logger())), Arc::new(CardanoImmutableDigester::new(Some(provider), discard_logger())))
        };
        let (mut d_none, mut d_cache) = new_objects(&cache_file);
        // bookkeeping of the history (the harness's own actions, not the code's): names a cached
        // computation digested, names whose file changed on disk afterwards, and what happened to
        // the files since the current cache-less object first computed
        let mut cached_names: HashSet<String> = HashSet::new();
        let mut tainted: HashSet<String> = HashSet::new();
        let mut object_computed = false;
        let mut changed_since_object_computed = false;
        let mut changed_before_restart = false;
        let mut touched_disk = false;
        for (step, st) in node.hist.iter().enumerate() {
            if st.op == "perturb" {
                let p = db.join("immutable").join(&st.name);
                if st.cid < 0 {
                    let _ = std::fs::remove_file(&p);
                } else {
                    write_file(&p, &content(self.seed, st.cid as u64));
                }
                touched_disk = true;
                if cached_names.contains(&st.name) {
                    tainted.insert(st.name.clone());
                }
                if object_computed {
                    changed_since_object_computed = true;
                }
                continue;
            }
            if st.op == "restart" {
                (d_none, d_cache) = new_objects(&cache_file);
                changed_before_restart = changed_since_object_computed;
                object_computed = false;
                changed_since_object_computed = false;
                continue;
            }
            let (beacon, use_cache) = (&st.hi, &st.cache);
            let digester = if *use_cache { &d_cache } else { &d_none };
            let routes: &[&str] = if st.op == "range" { &["range"] } else if *use_cache { &["signable"] } else { &["signable", "digester"] };
            for via in routes {
                let cov = covered(&db, st.lo, *beacon, &mut self.int);
                let processed: Vec<String> = cov.as_array().unwrap().iter().filter(|e| e["kind"] == "reg").map(|e| e["name"].as_str().unwrap().to_string()).collect();
                // an explicit cache holding the digest of a file that changed since is allowed to be stale
                let stale = *use_cache && processed.iter().any(|n| tainted.contains(n));
                // a cache-less computation after the files changed: by the same object that computed
                // before the change, or by a new one
                let after_change = if *use_cache {
                    "cached"
                } else if changed_since_object_computed {
                    "same_object"
                } else if changed_before_restart {
                    "new_object"
                } else {
                    "none"
                };
                // the value computed: the Merkle root, or (range) a digest of the returned
                // (file name, digest) entries; `digests` keeps the entries themselves
                let mut digests: Vec<String> = vec![];
                let r = if st.op == "range" {
                    match self.compute_range(digester, &dirpath, st.lo, st.hi) {
                        Guarded::Done(Ok(entries)) => {
                            let joined: String = entries.iter().map(|(n, d)| format!("{n}={d};")).collect();
                            digests = entries.into_iter().map(|e| e.1).collect();
                            Guarded::Done(Ok(sha256_hex(joined.as_bytes())))
                        }
                        Guarded::Done(Err(e)) => Guarded::Done(Err(e)),
                        Guarded::Panic(m) => Guarded::Panic(m),
                    }
                } else {
                    self.compute(digester, &dirpath, *beacon, via)
                };
                let (res, root, err) = match r {
                    Guarded::Done(Ok(root)) => ("ok", root, String::new()),
                    Guarded::Done(Err(e)) => ("err", String::new(), e),
                    Guarded::Panic(m) => {
                        self.panics += 1;
                        ("panic", String::new(), m)
                    }
                };
                if *use_cache && res == "ok" {
                    cached_names.extend(processed.iter().cloned());
                }
                if !*use_cache {
                    object_computed = true;
                }
                let (pred_ok, pred_match) = match node.pred.get(step) {
                    // a stale cached result is predicted by the model of the code, but that it is
                    // stale in this exact way is not something to report as drift
                    Some((pok, cids)) => {
                        let m = if !*pok {
                            res != "ok"
                        } else if st.op == "range" {
                            res == "ok" && digests == cids.iter().map(|c| sha256_hex(&content(self.seed, *c))).collect::<Vec<_>>()
                        } else {
                            res == "ok" && root == self.predicted_root(cids)
                        };
                        (json!(pok), m)
                    }
                    None => (json!("none"), true),
                };
                if !pred_match {
                    self.mismatches += 1;
                }
                if res == "ok" {
                    self.ok += 1
                } else {
                    self.err += 1
                }
                let mut err_short: String = err.chars().take(160).collect();
                err_short = err_short.replace(base.to_string_lossy().as_ref(), "<node>");
                self.trace.emit(json!({
                    "ev": "Digest", "case": case_ix, "step": step + 1, "kind": node.kind, "via": via,
                    "op": st.op, "lo": st.lo, "beacon": beacon, "cache": use_cache, "covered": cov,
                    "stale": stale, "afterChange": after_change,
                    "res": res, "root": root, "err": err_short,
                    "decoy": decoy, "entry": node.entry, "other": node.other, "bad": node.bad, "order": node.order,
                    "nonreg": node.nonreg.iter().map(|e| e.2.clone()).collect::<Vec<_>>(),
                    "pred_ok": pred_ok, "pred_match": pred_match,
                }));
            }
        }
        if touched_disk {
            // the directory is no longer the case's initial disk
            if let Some((_, b, _)) = self.reuse.take() {
                let _ = std::fs::remove_dir_all(&b);
            }
        }
        true
    }
}

fn random_node(r: &mut ChaCha20Rng) -> Node {
    let last = below(r, 5);
    let mut imm = vec![];
    for num in 0..=last {
        for ext in ["chunk", "primary", "secondary"] {
            if below(r, 10) == 0 {
                continue; // partial trio
            }
            imm.push((num, ext.to_string(), below(r, 10)));
        }
    }
    if imm.is_empty() {
        imm.push((0, "chunk".into(), 1));
    }
    Node { kind: "random".into(), imm, nonreg: vec![], other: vec![], bad: false, decoy: "none".into(), entry: "db".into(), order: "asc".into(), hist: vec![], pred: vec![] }
}

fn random_hist(r: &mut ChaCha20Rng, last: u64, cache_only: bool) -> Vec<Step> {
    let n = 1 + below(r, 4);
    (0..n)
        .map(|_| {
            let cache = cache_only || below(r, 2) == 0;
            if below(r, 2) == 0 {
                tree(below(r, last + 2), cache)
            } else {
                let lo = below(r, last + 2);
                range(lo, lo + below(r, last + 2 - lo), cache)
            }
        })
        .collect()
}

fn main() {
    quiet_panics();
    let a = Args::parse();
    let seed = a.num("seed", 1);
    let mode = a.get("mode").unwrap_or("cases".into());
    let work = PathBuf::from(a.get("work").unwrap_or("/verif/work/C12/fs".into()));
    fresh_dir(&work);
    let plan = probe_decoy(&work);
    if mode == "confirm" {
        confirm(&work, seed, &plan);
        let _ = std::fs::remove_dir_all(&work);
        return;
    }
    let mut run = Runner {
        rt: runtime(),
        seed,
        int: Interner::default(),
        trace: Trace::create(a.req("out")),
        ok: 0,
        err: 0,
        mismatches: 0,
        panics: 0,
        reuse: None,
    };
    let mut nodes = 0u64;
    let mut unrealised = 0u64;
    if mode == "cases" {
        for (i, c) in read_ndjson(a.req("cases")).iter().enumerate() {
            let node = node_of_case(c);
            if run.run_node(&work, i as u64, &node, &plan) {
                nodes += 1
            } else {
                unrealised += 1
            }
        }
    } else {
        let groups = a.num("runs", 40);
        let mut ix = 0u64;
        for g in 0..groups {
            let mut r = rng(seed, 500 + g);
            let base = random_node(&mut r);
            let last = base.imm.iter().map(|f| f.0).max().unwrap();
            let others = ["imm_txt", "imm_noext", "imm_bak", "imm_subdir", "root_markers", "ledger", "volatile"];
            let mut variants: Vec<Node> = vec![];
            // the plain node, without cache, every beacon
            let mut n0 = base.clone();
            n0.hist = (0..=last + 1).map(|b| tree(b, false)).collect();
            for lo in 0..=last {
                for hi in lo..=last {
                    n0.hist.push(range(lo, hi, false));
                }
            }
            variants.push(n0);
            // layout variants
            for _ in 0..2 {
                let mut v = base.clone();
                v.other = others.iter().filter(|_| below(&mut r, 2) == 0).map(|s| s.to_string()).collect();
                v.order = ["asc", "desc", "shuffle1", "shuffle2", "shuffle3"][below(&mut r, 5) as usize].to_string();
                v.entry = if below(&mut r, 4) == 0 { "immdir".into() } else { "db".into() };
                v.decoy = ["none", "none", "after", "first"][below(&mut r, 4) as usize].to_string();
                v.hist = random_hist(&mut r, last, false);
                variants.push(v);
            }
            // a long cache history on one node
            let mut v = base.clone();
            v.hist = random_hist(&mut r, last, true);
            v.hist.extend(random_hist(&mut r, last, true));
            variants.push(v);
            // files beyond `last`
            let mut v = base.clone();
            v.imm.push((last + 1, "chunk".into(), 11));
            v.imm.push((last + 2, "primary".into(), 12));
            v.hist = (0..=last).map(|b| tree(b, false)).collect();
            variants.push(v);
            // files changing on disk between the computations of one long-lived object
            for k in 0..2 {
                let mut v = base.clone();
                v.kind = "random-live".into();
                let cached = k == 1;
                v.hist = vec![tree(last, cached), range(0, last, cached)];
                for _ in 0..1 + below(&mut r, 2) {
                    let f = &base.imm[below(&mut r, base.imm.len() as u64) as usize];
                    let cid = match below(&mut r, 3) {
                        0 => -1,
                        1 => 30 + below(&mut r, 5) as i64,
                        _ => if f.2 == 0 { 400 } else { ((1 + below(&mut r, 4)) * 100 + f.2) as i64 },
                    };
                    v.hist.push(perturb(format!("{:05}.{}", f.0, f.1), cid));
                }
                if below(&mut r, 3) == 0 {
                    v.hist.push(restart());
                }
                v.hist.push(tree(last, cached));
                v.hist.push(range(below(&mut r, last + 1), last, cached));
                v.hist.push(tree(last, false));
                variants.push(v);
            }
            // something that is no regular file under an immutable file name
            {
                let mut v = base.clone();
                v.kind = "random-nonreg".into();
                let k = below(&mut r, v.imm.len() as u64) as usize;
                let f = v.imm.remove(k);
                let (kind, cid) = match below(&mut r, 4) {
                    0 => ("dir", -1),
                    1 => ("dangling", -1),
                    2 => ("link", f.2 as i64),
                    _ => ("link", 35),
                };
                v.nonreg.push((f.0, f.1, kind.to_string(), cid));
                v.hist = (0..=last).map(|b| tree(b, false)).collect();
                v.hist.push(range(0, last, false));
                if !v.imm.is_empty() {
                    variants.push(v);
                }
            }
            // perturbations
            for _ in 0..3 {
                let mut v = base.clone();
                let k = below(&mut r, v.imm.len() as u64) as usize;
                match below(&mut r, 3) {
                    0 if v.imm.len() > 1 => {
                        v.imm.remove(k);
                    }
                    1 => v.imm[k].2 = 20 + below(&mut r, 10),
                    _ => v.imm[k].2 = if v.imm[k].2 == 0 { 400 } else { (1 + below(&mut r, 4)) * 100 + v.imm[k].2 },
                }
                v.kind = "random-perturb".into();
                v.hist = (0..=last).map(|b| tree(b, false)).collect();
                v.hist.push(range(below(&mut r, last + 1), last, false));
                variants.push(v);
            }
            for v in variants {
                if run.run_node(&work, ix, &v, &plan) {
                    nodes += 1
                } else {
                    unrealised += 1
                }
                ix += 1;
            }
        }
    }
    let _ = std::fs::remove_dir_all(&work);
    let events = run.trace.finish();
    println!(
        "{}",
        json!({"events": events, "nodes": nodes, "unrealised": unrealised, "ok": run.ok, "err": run.err, "panics": run.panics,
               "prediction_mismatches": run.mismatches, "contents": run.int.len(),
               "decoy_first_via": plan.first.as_ref().map(|d| d.0.clone()), "decoy_after_via": plan.after.as_ref().map(|d| d.0.clone())})
    );
}

/// Reproduction of the known finding outside the trace machinery: an unchanged `<db>/immutable`
/// and an extra `<db>/<x>/immutable` holding other files.
fn confirm(work: &Path, seed: u64, plan: &DecoyPlan) {
    let rt = runtime();
    let root_of = |db: &Path| -> String {
        let digester = CardanoImmutableDigester::new(None, discard_logger());
        let b = CardanoDbBeacon { epoch: Epoch(1), immutable_file_number: 1 };
        rt.block_on(async { digester.compute_merkle_tree(db, &b).await.map(|t| t.compute_root().unwrap().to_hex()).unwrap_or_else(|e| format!("error: {e}")) })
    };
    let make = |db: &Path, extra: Option<&str>| {
        fresh_dir(db);
        for n in 0..=1u64 {
            for (i, ext) in ["chunk", "primary", "secondary"].iter().enumerate() {
                write_file(&db.join(format!("immutable/{n:05}.{ext}")), &content(seed, 1 + n * 3 + i as u64));
            }
        }
        if let Some(x) = extra {
            write_file(&db.join(format!("{x}/immutable/00000.chunk")), b"unrelated");
            write_file(&db.join(format!("{x}/immutable/00001.chunk")), b"unrelated too");
        }
    };
    let db = work.join("confirm");
    make(&db, None);
    let reference = root_of(&db);
    println!("unchanged database, beacon 1                      root {reference}");
    let mut names: Vec<String> = ["zzz", "ledger", "aaa", "backup", "0"].iter().map(|s| s.to_string()).collect();
    for p in [&plan.first, &plan.after].into_iter().flatten() {
        if !names.contains(&p.0) {
            names.push(p.0.clone());
        }
    }
    for x in names {
        make(&db, Some(&x));
        let order = readdir_order(&db);
        let r = root_of(&db);
        println!(
            "  + {x:>8}/immutable/{{00000,00001}}.chunk  readdir {:?}  root {}  {}",
            order,
            r,
            if r == reference { "same" } else { "DIFFERENT" }
        );
    }
}
