//! C12 -- the database digest depends only on the immutable files up to the beacon.
//!
//! `--mode cases`  (spec -> impl): abstract nodes enumerated by TLC (spec/db/MC_DbDigestGen) are
//!   realised as real directories (files created in the requested order, other files, a second
//!   `immutable` directory, files beyond the beacon, perturbed files) and the real
//!   `CardanoImmutableDigester` (+ `JsonImmutableFileDigestCacheProvider`) is run through the real
//!   `CardanoDatabaseSignableBuilder::compute_protocol_message` / `compute_digests_for_range` (both
//!   read and write the same cache) along the case's history.
//! `--mode random` : seeded random nodes (bigger databases, partial trios, random layouts,
//!   histories and perturbations).
//! `--mode confirm`: prints the reproduction of the known finding (second `immutable` directory).
//!
//! Every computation is logged as a `Digest` event whose `covered` field (names and content ids of
//! the immutable files numbered up to the beacon) is recomputed from the real directory with code
//! of this harness.  TLC validates the trace against spec/db/DbDigestTrace.tla.
use std::path::{Path, PathBuf};
use std::sync::Arc;

use mithril_cardano_node_internal_database::digesters::cache::{
    ImmutableFileDigestCacheProvider, JsonImmutableFileDigestCacheProvider,
};
use mithril_cardano_node_internal_database::digesters::{CardanoImmutableDigester, ImmutableDigester};
use mithril_cardano_node_internal_database::signable_builder::CardanoDatabaseSignableBuilder;
use mithril_common::crypto_helper::{MKTree, MKTreeStoreInMemory};
use mithril_common::entities::{CardanoDbBeacon, Epoch, ProtocolMessagePartKey};
use mithril_common::signable_builder::SignableBuilder;
use vh_client::dbkit::*;
use vh_core::{Args, ChaCha20Rng, Guarded, Trace, Value, below, guarded, json, quiet_panics, read_ndjson, rng};

const DECOY_CID: u64 = 99;
const DECOY_CANDIDATES: &[&str] = &["aaa", "zzz", "backup", "0", "old", "snap", "x1", "x2", "x3", "x4", "db2", "m"];

/// how to obtain a second directory `<db>/<x>/immutable` whose parent comes before / after
/// `immutable` in readdir order on this file system: (parent name, created before `immutable`)
struct DecoyPlan {
    first: Option<(String, bool)>,
    after: Option<(String, bool)>,
}

fn probe_decoy(work: &Path) -> DecoyPlan {
    let mut plan = DecoyPlan { first: None, after: None };
    for name in DECOY_CANDIDATES {
        for before in [true, false] {
            let p = work.join("probe");
            fresh_dir(&p);
            if before {
                std::fs::create_dir(p.join(name)).unwrap();
                std::fs::create_dir(p.join("immutable")).unwrap();
            } else {
                std::fs::create_dir(p.join("immutable")).unwrap();
                std::fs::create_dir(p.join(name)).unwrap();
            }
            let order = readdir_order(&p);
            let pi = order.iter().position(|n| n == "immutable").unwrap();
            let pd = order.iter().position(|n| n == name).unwrap();
            if pd < pi && plan.first.is_none() {
                plan.first = Some((name.to_string(), before));
            }
            if pd > pi && plan.after.is_none() {
                plan.after = Some((name.to_string(), before));
            }
            let _ = std::fs::remove_dir_all(&p);
        }
    }
    plan
}

/// an abstract node, as TLC (or the random driver) describes it
#[derive(Clone)]
struct Node {
    kind: String,
    imm: Vec<(u64, String, u64)>, // (num, ext, cid)
    other: Vec<String>,
    bad: bool,
    decoy: String,
    entry: String,
    order: String,
    hist: Vec<Step>,
    pred: Vec<(bool, Vec<u64>)>,
}

/// one computation of a history: `compute_merkle_tree` at beacon `hi` (op "tree") or
/// `compute_digests_for_range(lo..=hi)` (op "range"), with or without the node's digest cache
#[derive(Clone)]
struct Step {
    op: &'static str,
    lo: u64,
    hi: u64,
    cache: bool,
}

fn tree(b: u64, cache: bool) -> Step {
    Step { op: "tree", lo: 0, hi: b, cache }
}

fn range(lo: u64, hi: u64, cache: bool) -> Step {
    Step { op: "range", lo, hi, cache }
}

fn node_of_case(c: &Value) -> Node {
    let s = |v: &Value| v.as_str().unwrap().to_string();
    Node {
        kind: s(&c["kind"]),
        imm: c["imm"].as_array().unwrap().iter().map(|f| (f["num"].as_u64().unwrap(), s(&f["ext"]), f["cid"].as_u64().unwrap())).collect(),
        other: c["other"].as_array().unwrap().iter().map(s).collect(),
        bad: c["bad"].as_bool().unwrap(),
        decoy: s(&c["decoy"]),
        entry: s(&c["entry"]),
        order: s(&c["order"]),
        hist: c["hist"]
            .as_array()
            .unwrap()
            .iter()
            .map(|h| Step {
                op: if h["op"] == "range" { "range" } else { "tree" },
                lo: h["lo"].as_u64().unwrap(),
                hi: h["hi"].as_u64().unwrap(),
                cache: h["cache"].as_bool().unwrap(),
            })
            .collect(),
        pred: c["pred"]
            .as_array()
            .unwrap()
            .iter()
            .map(|p| (p["ok"].as_bool().unwrap(), p["cids"].as_array().unwrap().iter().map(|x| x.as_u64().unwrap()).collect()))
            .collect(),
    }
}

/// the files to create for a node, relative to <db>
fn files_of(node: &Node, seed: u64, plan: &DecoyPlan) -> Option<(Vec<(PathBuf, Vec<u8>)>, Option<(String, bool)>)> {
    let mut files: Vec<(PathBuf, Vec<u8>)> = vec![];
    for (num, ext, cid) in &node.imm {
        files.push((PathBuf::from(format!("immutable/{num:05}.{ext}")), content(seed, *cid)));
    }
    for k in &node.other {
        match k.as_str() {
            "imm_txt" => files.push(("immutable/README.txt".into(), b"read me".to_vec())),
            "imm_noext" => files.push(("immutable/notes".into(), b"notes".to_vec())),
            "imm_bak" => files.push(("immutable/00000.chunk.bak".into(), content(seed, 61))),
            "imm_subdir" => files.push(("immutable/sub/00000.chunk".into(), content(seed, 62))),
            "root_markers" => {
                files.push(("clean".into(), vec![]));
                files.push(("protocolMagicId".into(), b"2".to_vec()));
            }
            "ledger" => files.push(("ledger/4242".into(), content(seed, 63))),
            "volatile" => files.push(("volatile/blocks-0.dat".into(), content(seed, 64))),
            x => panic!("unknown other-file kind {x}"),
        }
    }
    if node.bad {
        files.push(("immutable/abc.chunk".into(), content(seed, 65)));
    }
    let mut decoy = None;
    if node.decoy != "none" {
        let d = if node.decoy == "first" { plan.first.clone() } else { plan.after.clone() };
        let (name, before) = d?;
        for (num, ext, _) in &node.imm {
            files.push((PathBuf::from(format!("{name}/immutable/{num:05}.{ext}")), content(seed, DECOY_CID)));
        }
        decoy = Some((name, before));
    }
    Some((files, decoy))
}

fn build_dir(db: &Path, node: &Node, seed: u64, case_ix: u64, plan: &DecoyPlan) -> Option<Option<String>> {
    let (mut files, decoy) = files_of(node, seed, plan)?;
    fresh_dir(db);
    // the order in which the children of <db> come into existence
    match &decoy {
        Some((name, true)) => {
            std::fs::create_dir_all(db.join(name).join("immutable")).unwrap();
            std::fs::create_dir_all(db.join("immutable")).unwrap();
        }
        Some((name, false)) => {
            std::fs::create_dir_all(db.join("immutable")).unwrap();
            std::fs::create_dir_all(db.join(name).join("immutable")).unwrap();
        }
        None => {}
    }
    files.sort_by(|a, b| a.0.cmp(&b.0));
    match node.order.as_str() {
        "asc" => {}
        "desc" => files.reverse(),
        o if o.starts_with("shuffle") => {
            let k: u64 = o["shuffle".len()..].parse().unwrap();
            let mut r = rng(seed, 7_000_000 + case_ix * 16 + k);
            for i in (1..files.len()).rev() {
                let j = below(&mut r, i as u64 + 1) as usize;
                files.swap(i, j);
            }
        }
        o => panic!("unknown order {o}"),
    }
    std::fs::create_dir_all(db.join("immutable")).unwrap();
    for (p, bytes) in &files {
        write_file(&db.join(p), bytes);
    }
    Some(decoy.map(|d| d.0))
}

/// the property's view of the node: names and content ids of the files `<db>/immutable/<n>.<ext>`
/// with lo <= n <= beacon -- recomputed from the real directory
fn covered(db: &Path, lo: u64, beacon: u64, int: &mut Interner) -> Value {
    let dir = db.join("immutable");
    let mut v: Vec<(u64, String, u64)> = vec![];
    for name in readdir_order(&dir) {
        let p = dir.join(&name);
        if !std::fs::symlink_metadata(&p).unwrap().is_file() {
            continue;
        }
        if let Some((num, _)) = parse_immutable_name(&name) {
            if lo <= num && num <= beacon {
                v.push((num, name, int.id_of_file(&p)));
            }
        }
    }
    v.sort();
    json!(v.iter().map(|(_, name, cid)| json!({"name": name, "cid": cid})).collect::<Vec<_>>())
}

/// position of the second `immutable` directory's parent relative to `immutable` in the real
/// readdir order of <db>
fn observed_decoy(db: &Path, parent: &Option<String>) -> &'static str {
    match parent {
        None => "none",
        Some(name) => {
            let order = readdir_order(db);
            let pi = order.iter().position(|n| n == "immutable").unwrap();
            let pd = order.iter().position(|n| n == name).unwrap();
            if pd < pi { "first" } else { "after" }
        }
    }
}

struct Runner {
    rt: tokio::runtime::Runtime,
    seed: u64,
    int: Interner,
    trace: Trace,
    ok: u64,
    err: u64,
    mismatches: u64,
    panics: u64,
    reuse: Option<(String, PathBuf, Option<String>)>,
}

impl Runner {
    fn predicted_root(&self, cids: &[u64]) -> String {
        let digests: Vec<String> = cids.iter().map(|c| sha256_hex(&content(self.seed, *c))).collect();
        let t: MKTree<MKTreeStoreInMemory> = MKTree::new(&digests).unwrap();
        t.compute_root().unwrap().to_hex()
    }

    /// `compute_digests_for_range(lo..=hi)` on the real code: the (file name, digest) entries in order
    fn compute_range(&self, dirpath: &Path, lo: u64, hi: u64, cache_file: Option<&Path>) -> Guarded<Result<Vec<(String, String)>, String>> {
        let provider: Option<Arc<dyn ImmutableFileDigestCacheProvider>> =
            cache_file.map(|p| Arc::new(JsonImmutableFileDigestCacheProvider::new(p)) as Arc<dyn ImmutableFileDigestCacheProvider>);
        let digester = CardanoImmutableDigester::new(provider, discard_logger());
        let dirpath = dirpath.to_path_buf();
        guarded(|| {
            self.rt.block_on(async move {
                match digester.compute_digests_for_range(&dirpath, &(lo..=hi)).await {
                    Ok(d) => Ok(d.entries.into_iter().map(|(f, h)| (f.filename, h)).collect()),
                    Err(e) => Err(format!("{e:#}")),
                }
            })
        })
    }

    /// one digest computation on the real code; `via`: "signable" | "digester"
    fn compute(&self, dirpath: &Path, beacon: u64, cache_file: Option<&Path>, via: &str) -> Guarded<Result<String, String>> {
        let provider: Option<Arc<dyn ImmutableFileDigestCacheProvider>> =
            cache_file.map(|p| Arc::new(JsonImmutableFileDigestCacheProvider::new(p)) as Arc<dyn ImmutableFileDigestCacheProvider>);
        let digester = Arc::new(CardanoImmutableDigester::new(provider, discard_logger()));
        let b = CardanoDbBeacon { epoch: Epoch(7), immutable_file_number: beacon };
        let dirpath = dirpath.to_path_buf();
        let via = via.to_string();
        guarded(|| {
            self.rt.block_on(async move {
                if via == "signable" {
                    let sb = CardanoDatabaseSignableBuilder::new(digester, &dirpath, discard_logger());
                    match sb.compute_protocol_message(b).await {
                        Ok(m) => Ok(m.get_message_part(&ProtocolMessagePartKey::CardanoDatabaseMerkleRoot).cloned().unwrap_or_default()),
                        Err(e) => Err(format!("{e:#}")),
                    }
                } else {
                    match digester.compute_merkle_tree(&dirpath, &b).await {
                        Ok(t) => t.compute_root().map(|r| r.to_hex()).map_err(|e| format!("{e:#}")),
                        Err(e) => Err(format!("{e:#}")),
                    }
                }
            })
        })
    }

    fn run_node(&mut self, work: &Path, case_ix: u64, node: &Node, plan: &DecoyPlan) -> bool {
        // consecutive nodes with the same disk share the directory (computations never write below
        // <db>); every node starts with its own empty cache
        let layout = format!("{:?}|{:?}|{}|{}|{}", node.imm, node.other, node.bad, node.decoy, if node.order.starts_with("shuffle") { format!("{}{case_ix}", node.order) } else { node.order.clone() });
        let (base, decoy_parent) = match &self.reuse {
            Some((l, b, d)) if *l == layout => (b.clone(), d.clone()),
            _ => {
                if let Some((_, b, _)) = self.reuse.take() {
                    let _ = std::fs::remove_dir_all(&b);
                }
                let base = work.join(format!("n{case_ix}"));
                let Some(decoy_parent) = build_dir(&base.join("db"), node, self.seed, case_ix, plan) else {
                    return false; // this file system offers no way to realise the requested readdir order
                };
                self.reuse = Some((layout, base.clone(), decoy_parent.clone()));
                (base, decoy_parent)
            }
        };
        let db = base.join("db");
        let cache_file = base.join("digest-cache.json");
        let _ = std::fs::remove_file(&cache_file);
        let dirpath = if node.entry == "immdir" { db.join("immutable") } else { db.clone() };
        let decoy = observed_decoy(&db, &decoy_parent);
        for (step, st) in node.hist.iter().enumerate() {
            let (beacon, use_cache) = (&st.hi, &st.cache);
            let routes: &[&str] = if st.op == "range" { &["range"] } else if *use_cache { &["signable"] } else { &["signable", "digester"] };
            for via in routes {
                let cov = covered(&db, st.lo, *beacon, &mut self.int);
                let cache_arg = use_cache.then_some(cache_file.as_path());
                // the value computed: the Merkle root, or (range) a digest of the returned
                // (file name, digest) entries; `digests` keeps the entries themselves
                let mut digests: Vec<String> = vec![];
                let r = if st.op == "range" {
                    match self.compute_range(&dirpath, st.lo, st.hi, cache_arg) {
                        Guarded::Done(Ok(entries)) => {
                            let joined: String = entries.iter().map(|(n, d)| format!("{n}={d};")).collect();
                            digests = entries.into_iter().map(|e| e.1).collect();
                            Guarded::Done(Ok(sha256_hex(joined.as_bytes())))
                        }
                        Guarded::Done(Err(e)) => Guarded::Done(Err(e)),
                        Guarded::Panic(m) => Guarded::Panic(m),
                    }
                } else {
                    self.compute(&dirpath, *beacon, cache_arg, via)
                };
                let (res, root, err) = match r {
                    Guarded::Done(Ok(root)) => ("ok", root, String::new()),
                    Guarded::Done(Err(e)) => ("err", String::new(), e),
                    Guarded::Panic(m) => {
                        self.panics += 1;
                        ("panic", String::new(), m)
                    }
                };
                let (pred_ok, pred_match) = match node.pred.get(step) {
                    Some((pok, cids)) => {
                        let m = if !*pok {
                            res != "ok"
                        } else if st.op == "range" {
                            res == "ok" && digests == cids.iter().map(|c| sha256_hex(&content(self.seed, *c))).collect::<Vec<_>>()
                        } else {
                            res == "ok" && root == self.predicted_root(cids)
                        };
                        (json!(pok), m)
                    }
                    None => (json!("none"), true),
                };
                if !pred_match {
                    self.mismatches += 1;
                }
                if res == "ok" {
                    self.ok += 1
                } else {
                    self.err += 1
                }
                let mut err_short: String = err.chars().take(160).collect();
                err_short = err_short.replace(base.to_string_lossy().as_ref(), "<node>");
                self.trace.emit(json!({
                    "ev": "Digest", "case": case_ix, "step": step + 1, "kind": node.kind, "via": via,
                    "op": st.op, "lo": st.lo, "beacon": beacon, "cache": use_cache, "covered": cov,
                    "res": res, "root": root, "err": err_short,
                    "decoy": decoy, "entry": node.entry, "other": node.other, "bad": node.bad, "order": node.order,
                    "pred_ok": pred_ok, "pred_match": pred_match,
                }));
            }
        }
        true
    }
}

fn random_node(r: &mut ChaCha20Rng) -> Node {
    let last = below(r, 5);
    let mut imm = vec![];
    for num in 0..=last {
        for ext in ["chunk", "primary", "secondary"] {
            if below(r, 10) == 0 {
                continue; // partial trio
            }
            imm.push((num, ext.to_string(), below(r, 10)));
        }
    }
    if imm.is_empty() {
        imm.push((0, "chunk".into(), 1));
    }
    Node { kind: "random".into(), imm, other: vec![], bad: false, decoy: "none".into(), entry: "db".into(), order: "asc".into(), hist: vec![], pred: vec![] }
}

fn random_hist(r: &mut ChaCha20Rng, last: u64, cache_only: bool) -> Vec<Step> {
    let n = 1 + below(r, 4);
    (0..n)
        .map(|_| {
            let cache = cache_only || below(r, 2) == 0;
            if below(r, 2) == 0 {
                tree(below(r, last + 2), cache)
            } else {
                let lo = below(r, last + 2);
                range(lo, lo + below(r, last + 2 - lo), cache)
            }
        })
        .collect()
}

fn main() {
    quiet_panics();
    let a = Args::parse();
    let seed = a.num("seed", 1);
    let mode = a.get("mode").unwrap_or("cases".into());
    let work = PathBuf::from(a.get("work").unwrap_or("/verif/work/C12/fs".into()));
    fresh_dir(&work);
    let plan = probe_decoy(&work);
    if mode == "confirm" {
        confirm(&work, seed, &plan);
        let _ = std::fs::remove_dir_all(&work);
        return;
    }
    let mut run = Runner {
        rt: runtime(),
        seed,
        int: Interner::default(),
        trace: Trace::create(a.req("out")),
        ok: 0,
        err: 0,
        mismatches: 0,
        panics: 0,
        reuse: None,
    };
    let mut nodes = 0u64;
    let mut unrealised = 0u64;
    if mode == "cases" {
        for (i, c) in read_ndjson(a.req("cases")).iter().enumerate() {
            let node = node_of_case(c);
            if run.run_node(&work, i as u64, &node, &plan) {
                nodes += 1
            } else {
                unrealised += 1
            }
        }
    } else {
        let groups = a.num("runs", 40);
        let mut ix = 0u64;
        for g in 0..groups {
            let mut r = rng(seed, 500 + g);
            let base = random_node(&mut r);
            let last = base.imm.iter().map(|f| f.0).max().unwrap();
            let others = ["imm_txt", "imm_noext", "imm_bak", "imm_subdir", "root_markers", "ledger", "volatile"];
            let mut variants: Vec<Node> = vec![];
            // the plain node, without cache, every beacon
            let mut n0 = base.clone();
            n0.hist = (0..=last + 1).map(|b| tree(b, false)).collect();
            for lo in 0..=last {
                for hi in lo..=last {
                    n0.hist.push(range(lo, hi, false));
                }
            }
            variants.push(n0);
            // layout variants
            for _ in 0..2 {
                let mut v = base.clone();
                v.other = others.iter().filter(|_| below(&mut r, 2) == 0).map(|s| s.to_string()).collect();
                v.order = ["asc", "desc", "shuffle1", "shuffle2", "shuffle3"][below(&mut r, 5) as usize].to_string();
                v.entry = if below(&mut r, 4) == 0 { "immdir".into() } else { "db".into() };
                v.decoy = ["none", "none", "after", "first"][below(&mut r, 4) as usize].to_string();
                v.hist = random_hist(&mut r, last, false);
                variants.push(v);
            }
            // a long cache history on one node
            let mut v = base.clone();
            v.hist = random_hist(&mut r, last, true);
            v.hist.extend(random_hist(&mut r, last, true));
            variants.push(v);
            // files beyond `last`
            let mut v = base.clone();
            v.imm.push((last + 1, "chunk".into(), 11));
            v.imm.push((last + 2, "primary".into(), 12));
            v.hist = (0..=last).map(|b| tree(b, false)).collect();
            variants.push(v);
            // perturbations
            for _ in 0..3 {
                let mut v = base.clone();
                let k = below(&mut r, v.imm.len() as u64) as usize;
                match below(&mut r, 3) {
                    0 if v.imm.len() > 1 => {
                        v.imm.remove(k);
                    }
                    1 => v.imm[k].2 = 20 + below(&mut r, 10),
                    _ => v.imm[k].2 = if v.imm[k].2 == 0 { 400 } else { (1 + below(&mut r, 4)) * 100 + v.imm[k].2 },
                }
                v.kind = "random-perturb".into();
                v.hist = (0..=last).map(|b| tree(b, false)).collect();
                v.hist.push(range(below(&mut r, last + 1), last, false));
                variants.push(v);
            }
            for v in variants {
                if run.run_node(&work, ix, &v, &plan) {
                    nodes += 1
                } else {
                    unrealised += 1
                }
                ix += 1;
            }
        }
    }
    let _ = std::fs::remove_dir_all(&work);
    let events = run.trace.finish();
    println!(
        "{}",
        json!({"events": events, "nodes": nodes, "unrealised": unrealised, "ok": run.ok, "err": run.err, "panics": run.panics,
               "prediction_mismatches": run.mismatches, "contents": run.int.len(),
               "decoy_first_via": plan.first.as_ref().map(|d| d.0.clone()), "decoy_after_via": plan.after.as_ref().map(|d| d.0.clone())})
    );
}

/// Reproduction of the known finding outside the trace machinery: an unchanged `<db>/immutable`
/// and an extra `<db>/<x>/immutable` holding other files.
fn confirm(work: &Path, seed: u64, plan: &DecoyPlan) {
    let rt = runtime();
    let root_of = |db: &Path| -> String {
        let digester = CardanoImmutableDigester::new(None, discard_logger());
        let b = CardanoDbBeacon { epoch: Epoch(1), immutable_file_number: 1 };
        rt.block_on(async { digester.compute_merkle_tree(db, &b).await.map(|t| t.compute_root().unwrap().to_hex()).unwrap_or_else(|e| format!("error: {e}")) })
    };
    let make = |db: &Path, extra: Option<&str>| {
        fresh_dir(db);
        for n in 0..=1u64 {
            for (i, ext) in ["chunk", "primary", "secondary"].iter().enumerate() {
                write_file(&db.join(format!("immutable/{n:05}.{ext}")), &content(seed, 1 + n * 3 + i as u64));
            }
        }
        if let Some(x) = extra {
            write_file(&db.join(format!("{x}/immutable/00000.chunk")), b"unrelated");
            write_file(&db.join(format!("{x}/immutable/00001.chunk")), b"unrelated too");
        }
    };
    let db = work.join("confirm");
    make(&db, None);
    let reference = root_of(&db);
    println!("unchanged database, beacon 1                      root {reference}");
    let mut names: Vec<String> = ["zzz", "ledger", "aaa", "backup", "0"].iter().map(|s| s.to_string()).collect();
    for p in [&plan.first, &plan.after].into_iter().flatten() {
        if !names.contains(&p.0) {
            names.push(p.0.clone());
        }
    }
    for x in names {
        make(&db, Some(&x));
        let order = readdir_order(&db);
        let r = root_of(&db);
        println!(
            "  + {x:>8}/immutable/{{00000,00001}}.chunk  readdir {:?}  root {}  {}",
            order,
            r,
            if r == reference { "same" } else { "DIFFERENT" }
        );
    }
}
