//! C10 -- a restored Cardano database is accepted only if every file is the certified one.
//!
//! `--mode cases`  (spec -> impl): abstract (served digest list, restored directory, range,
//!   allow-missing) tuples enumerated by TLC (spec/db/MC_DbVerify, GenPrint) are realised: a real
//!   honest database is digested by the real signable builder (the certificate signs that root),
//!   the digest list is served as a real JSON file over `file://`, the restored directory is built
//!   with the tampering applied, and the real client flow
//!   `download_and_verify_digests` -> `verify_cardano_database` ->
//!   `MessageBuilder::compute_cardano_database_message` -> `match_message` is run.
//! `--mode random` : seeded random multi-tamperings (bigger databases, non-canonical file names).
//! `--mode confirm`: prints the reproduction of the known findings.
//!
//! Every run is logged as a `VerifyDb` event whose projections (`cert`, `dir`, `servedRoot`) are
//! recomputed from the real files by code of this harness.  TLC validates the trace against
//! spec/db/DbVerifyTrace.tla.
use std::collections::{BTreeMap, HashMap};
use std::path::{Path, PathBuf};
use std::sync::Arc;

use mithril_cardano_node_internal_database::digesters::CardanoImmutableDigester;
use mithril_cardano_node_internal_database::signable_builder::CardanoDatabaseSignableBuilder;
use mithril_client::cardano_database_client::{CardanoDatabaseVerificationError, ImmutableFileRange};
use mithril_client::{CardanoDatabaseSnapshot, MessageBuilder, MithrilCertificate};
use mithril_common::crypto_helper::{MKTree, MKTreeStoreInMemory};
use mithril_common::entities::{CardanoDbBeacon, Epoch, ProtocolMessagePartKey};
use mithril_common::signable_builder::SignableBuilder;
use mithril_common::test::double::Dummy;
use vh_client::dbkit::*;
use vh_core::{Args, ChaCha20Rng, Guarded, Trace, Value, below, guarded, json, quiet_panics, read_ndjson, rng};

const EXTS: [&str; 3] = ["chunk", "primary", "secondary"];

fn fname(num: i64, ext: &str) -> String {
    if num < 0 { format!("junk.{ext}") } else { format!("{num:05}.{ext}") }
}

/// the certified side of a world: honest contents, their digests, the certificate
struct World {
    n: u64,
    cert: BTreeMap<String, Vec<u8>>, // name -> honest content
    certificate: MithrilCertificate,
    signed_root: String,
}

/// what to put into the restored directory / the served list, abstractly
#[derive(Clone)]
struct Case {
    n: u64,
    pat: String,
    served: Vec<(String, Vec<u8>)>,          // (file name, content whose digest is served)
    imm: Vec<(String, Vec<u8>)>,             // regular files of <db>/immutable
    nonreg: Vec<(String, String, Vec<u8>)>,  // (name, "dir" | "link" | "dangling", content behind the link)
    decoy: String,                           // none | first | after
    extra: Vec<(String, Vec<u8>)>,           // other files, relative to <db>
    range: (String, u64, u64),
    allow_missing: bool,
    pred: Value,                             // model predictions (or null)
    label: String,
}

struct Runner {
    rt: tokio::runtime::Runtime,
    client: mithril_client::Client,
    seed: u64,
    work: PathBuf,
    worlds: HashMap<(u64, String), Arc<World>>,
    int: Interner,
    trace: Trace,
    decoy_first: Option<String>,
    decoy_after: Option<String>,
    counts: BTreeMap<String, u64>,
}

fn pat_cid(pat: &str, num: u64, ext_ix: u64) -> u64 {
    let ix = 3 * num + ext_ix + 1;
    match pat {
        "distinct" => ix,
        "equal2" => if ix == 3 { 1 } else { ix },
        p => panic!("unknown pattern {p}"),
    }
}

impl Runner {
    fn bump(&mut self, k: &str) {
        *self.counts.entry(k.to_string()).or_insert(0) += 1;
    }

    fn world(&mut self, n: u64, pat: &str) -> Arc<World> {
        if let Some(w) = self.worlds.get(&(n, pat.to_string())) {
            return w.clone();
        }
        // the honest database, digested by the real signer-side code
        let db = self.work.join(format!("honest_{n}_{pat}"));
        fresh_dir(&db);
        let mut cert = BTreeMap::new();
        for num in 0..=n {
            for (e, ext) in EXTS.iter().enumerate() {
                let bytes = content(self.seed, pat_cid(pat, num, e as u64));
                write_file(&db.join("immutable").join(fname(num as i64, ext)), &bytes);
                cert.insert(fname(num as i64, ext), bytes);
            }
        }
        // the node is already writing the next trio
        write_file(&db.join("immutable").join(fname(n as i64 + 1, "chunk")), b"in progress");
        let digester = Arc::new(CardanoImmutableDigester::new(None, discard_logger()));
        let sb = CardanoDatabaseSignableBuilder::new(digester, &db, discard_logger());
        let pm = self
            .rt
            .block_on(sb.compute_protocol_message(CardanoDbBeacon { epoch: Epoch(12), immutable_file_number: n }))
            .expect("honest protocol message");
        let signed_root = pm.get_message_part(&ProtocolMessagePartKey::CardanoDatabaseMerkleRoot).unwrap().clone();
        let certificate = MithrilCertificate { signed_message: pm.compute_hash(), protocol_message: pm, ..MithrilCertificate::dummy() };
        let _ = std::fs::remove_dir_all(&db);
        let w = Arc::new(World { n, cert, certificate, signed_root });
        self.worlds.insert((n, pat.to_string()), w.clone());
        w
    }

    /// Roots the served list reproduces: entries as a map (a later entry of a name wins), numbers
    /// <= beacon, in (number, name) order -- over all such entries, and over those naming immutable
    /// files (`<number:05>.<chunk|primary|secondary>`) only.  Computed here from the served file itself.
    fn served_roots(served_file: &Path, n: u64) -> (String, String, Value) {
        let v: Value = serde_json::from_slice(&std::fs::read(served_file).unwrap()).unwrap();
        let mut m: BTreeMap<String, String> = BTreeMap::new();
        for e in v.as_array().unwrap() {
            m.insert(e["immutable_file_name"].as_str().unwrap().to_string(), e["digest"].as_str().unwrap().to_string());
        }
        let mut kept: Vec<(u64, String, String)> = vec![];
        for (name, d) in m {
            let stem = name.rsplit_once('.').map(|x| x.0).unwrap_or(&name);
            if let Ok(num) = stem.parse::<u64>() {
                if num <= n {
                    kept.push((num, name, d));
                }
            }
        }
        kept.sort();
        let names = json!(kept.iter().map(|k| k.1.clone()).collect::<Vec<_>>());
        let root = |ds: Vec<String>| -> String {
            if ds.is_empty() {
                return String::new();
            }
            let t: MKTree<MKTreeStoreInMemory> = MKTree::new(&ds).unwrap();
            t.compute_root().unwrap().to_hex()
        };
        let canonical: Vec<String> = kept
            .iter()
            .filter(|(num, name, _)| parse_immutable_name(name).map(|(_, ext)| *name == format!("{num:05}.{ext}")).unwrap_or(false))
            .map(|k| k.2.clone())
            .collect();
        (root(kept.iter().map(|k| k.2.clone()).collect()), root(canonical), names)
    }

    fn run_case(&mut self, ix: u64, case: &Case) {
        let w = self.world(case.n, &case.pat);
        let base = self.work.join(format!("c{ix}"));
        fresh_dir(&base);
        // served digest list
        let served_file = base.join("digests.json");
        let list: Vec<Value> = case
            .served
            .iter()
            .map(|(name, bytes)| json!({"immutable_file_name": name, "digest": sha256_hex(bytes)}))
            .collect();
        std::fs::write(&served_file, serde_json::to_vec(&list).unwrap()).unwrap();
        // restored directory
        let db = base.join("db");
        let decoy_parent = match case.decoy.as_str() {
            "first" => self.decoy_first.clone(),
            "after" => self.decoy_after.clone(),
            _ => None,
        };
        if case.decoy != "none" && decoy_parent.is_none() {
            self.bump("unrealised");
            let _ = std::fs::remove_dir_all(&base);
            return;
        }
        std::fs::create_dir_all(db.join("immutable")).unwrap();
        for (name, bytes) in &case.imm {
            write_file(&db.join("immutable").join(name), bytes);
        }
        for (rel, bytes) in &case.extra {
            write_file(&db.join(rel), bytes);
        }
        // entries that are no regular files, under immutable file names
        for (name, kind, bytes) in &case.nonreg {
            let p = db.join("immutable").join(name);
            match kind.as_str() {
                "dir" => write_file(&p.join("inner.bin"), b"a directory, not a file"),
                "link" => {
                    // to another immutable of the same directory when one carries that content,
                    // else to a copy kept elsewhere
                    match case.imm.iter().find(|(n, b)| b == bytes && n != name) {
                        Some((sibling, _)) => std::os::unix::fs::symlink(sibling, &p).unwrap(),
                        None => {
                            let target = db.join("elsewhere").join(name);
                            write_file(&target, bytes);
                            std::os::unix::fs::symlink(&target, &p).unwrap();
                        }
                    }
                }
                "dangling" => std::os::unix::fs::symlink(db.join("elsewhere").join(format!("nothing-{name}")), &p).unwrap(),
                k => panic!("unknown entry kind {k}"),
            }
        }
        if let Some(x) = &decoy_parent {
            for (name, bytes) in &w.cert {
                write_file(&db.join(x).join("immutable").join(name), bytes);
            }
        }
        let decoy = match &decoy_parent {
            None => "none",
            Some(x) => {
                let order = readdir_order(&db);
                if order.iter().position(|n| n == x).unwrap() < order.iter().position(|n| n == "immutable").unwrap() { "first" } else { "after" }
            }
        };
        // messages
        let mut snapshot = CardanoDatabaseSnapshot::dummy();
        snapshot.beacon = CardanoDbBeacon { epoch: Epoch(12), immutable_file_number: w.n };
        // the snapshot message comes from the (untrusted) aggregator / mirror: it claims whatever root
        // the served list has
        let claimed = Self::served_roots(&served_file, w.n).0;
        snapshot.merkle_root = if claimed.is_empty() { w.signed_root.clone() } else { claimed };
        snapshot.digests = serde_json::from_value(json!({
            "size_uncompressed": 1024,
            "locations": [{"type": "cloud_storage", "uri": file_uri(&served_file)}]
        }))
        .unwrap();
        let range = match case.range.0.as_str() {
            "full" => ImmutableFileRange::Full,
            "from" => ImmutableFileRange::From(case.range.1),
            "upto" => ImmutableFileRange::UpTo(case.range.2),
            "range" => ImmutableFileRange::Range(case.range.1, case.range.2),
            k => panic!("range kind {k}"),
        };
        // requested range in the property's terms (own arithmetic)
        let (range_valid, lo, hi) = match case.range.0.as_str() {
            "full" => (true, 0, w.n),
            "from" => (case.range.1 <= w.n, case.range.1, w.n),
            "upto" => (case.range.2 <= w.n, 0, case.range.2),
            _ => (case.range.1 <= w.n && case.range.2 <= w.n && case.range.1 <= case.range.2, case.range.1, case.range.2),
        };
        // --- the real client flow ---
        let cdb = self.client.cardano_database_v2();
        let certificate = w.certificate.clone();
        let allow_missing = case.allow_missing;
        let dbp = db.clone();
        let rt = &self.rt;
        let out = guarded(|| {
            rt.block_on(async {
                let vd = match cdb.download_and_verify_digests(&certificate, &snapshot).await {
                    Ok(vd) => vd,
                    Err(e) => return json!({"stage": "digests", "digestsAccepted": false, "accepted": false, "err": format!("{e:#}")}),
                };
                let proof = match cdb.verify_cardano_database(&certificate, &snapshot, &range, allow_missing, &dbp, &vd).await {
                    Ok(p) => p,
                    Err(CardanoDatabaseVerificationError::ImmutableFilesVerification(l)) => {
                        return json!({"stage": "verify", "digestsAccepted": true, "accepted": false, "err": "ImmutableFilesVerification",
                                      "missing": l.missing, "tampered": l.tampered, "nonVerifiable": l.non_verifiable});
                    }
                    Err(e) => return json!({"stage": "verify", "digestsAccepted": true, "accepted": false, "err": format!("{e}")}),
                };
                match MessageBuilder::new().compute_cardano_database_message(&certificate, &proof).await {
                    Ok(m) if certificate.match_message(&m) => json!({"stage": "none", "digestsAccepted": true, "accepted": true, "err": ""}),
                    Ok(_) => json!({"stage": "message", "digestsAccepted": true, "accepted": false, "err": "message mismatch"}),
                    Err(e) => json!({"stage": "message", "digestsAccepted": true, "accepted": false, "err": format!("{e:#}")}),
                }
            })
        });
        let mut res = match out {
            Guarded::Done(v) => v,
            Guarded::Panic(m) => {
                self.bump("panics");
                json!({"stage": "panic", "digestsAccepted": false, "accepted": false, "err": m})
            }
        };
        // --- projections, recomputed from the real files ---
        let mut cert_p = vec![];
        let mut cert_ids: Vec<u64> = vec![];
        let mut cert_by_name: HashMap<String, u64> = HashMap::new();
        for (name, bytes) in &w.cert {
            let (num, _) = parse_immutable_name(name).unwrap();
            let did = self.int.id_of_bytes(bytes);
            cert_ids.push(did);
            cert_by_name.insert(name.clone(), did);
            cert_p.push(json!({"name": name, "num": num, "did": did}));
        }
        // the files of the directory as a reader gets them: regular files ("reg") and regular files
        // reached through a symbolic link ("link"); what is no file (directory, dangling link, link
        // to a directory) is listed apart
        let mut dir_p: Vec<(u64, String, u64, &str)> = vec![];
        let mut nonfiles: Vec<(u64, String, &str)> = vec![];
        for name in readdir_order(&db.join("immutable")) {
            let p = db.join("immutable").join(&name);
            let Some((num, _)) = parse_immutable_name(&name) else { continue };
            let md = std::fs::symlink_metadata(&p).unwrap();
            if md.is_file() {
                dir_p.push((num, name, self.int.id_of_file(&p), "reg"));
            } else if md.file_type().is_symlink() {
                match std::fs::metadata(&p) {
                    Ok(t) if t.is_file() => dir_p.push((num, name, self.int.id_of_file(&p), "link")),
                    Ok(_) => nonfiles.push((num, name, "link_to_dir")),
                    Err(_) => nonfiles.push((num, name, "dangling")),
                }
            } else if md.is_dir() {
                nonfiles.push((num, name, "dir"));
            } else {
                nonfiles.push((num, name, "special"));
            }
        }
        dir_p.sort();
        nonfiles.sort();
        // summary used to tell tampering kinds apart (known findings):
        // missing > foreign > misplaced > nonreg_link > nonreg_dir > nonreg_dangling > ok
        let mut rank = 0;
        let labels = ["ok", "nonreg_dangling", "nonreg_dir", "nonreg_link", "misplaced", "foreign", "missing"];
        let mut bump_to = |r: usize| rank = rank.max(r);
        if range_valid {
            for (num, name, did, kind) in &dir_p {
                if *num < lo || *num > hi || cert_by_name.get(name) == Some(did) {
                    continue;
                }
                if *kind == "link" {
                    bump_to(3);
                } else if cert_ids.contains(did) {
                    bump_to(4);
                } else {
                    bump_to(5);
                }
            }
            if !case.allow_missing {
                for num in lo..=hi {
                    for ext in EXTS {
                        let name = fname(num as i64, ext);
                        if dir_p.iter().any(|d| d.1 == name) {
                            continue;
                        }
                        match nonfiles.iter().find(|d| d.1 == name) {
                            Some((_, _, "dangling")) => bump_to(1),
                            Some(_) => bump_to(2),
                            None => bump_to(6),
                        }
                    }
                }
            }
        }
        let worst = labels[rank];
        let entry_kinds: Vec<&str> = {
            let mut k: Vec<&str> = dir_p.iter().filter(|d| d.3 != "reg").map(|d| d.3).chain(nonfiles.iter().map(|d| d.2)).collect();
            k.sort();
            k.dedup();
            k
        };
        let (served_root, served_root_canonical, served_names) = Self::served_roots(&served_file, w.n);
        let obj = res.as_object_mut().unwrap();
        for k in ["missing", "tampered", "nonVerifiable"] {
            obj.entry(k).or_insert(json!([]));
        }
        let err: String = obj["err"].as_str().unwrap().chars().take(200).collect::<String>().replace(base.to_string_lossy().as_ref(), "<case>");
        obj.insert("err".into(), json!(err));
        let accepted = obj["accepted"].as_bool().unwrap();
        let digests_accepted = obj["digestsAccepted"].as_bool().unwrap();
        self.bump(if accepted { "accepted" } else { "rejected" });
        if digests_accepted {
            self.bump("digests_accepted");
        }
        let mut pred_match = true;
        if !case.pred.is_null() {
            pred_match = case.pred["impl"].as_bool().unwrap() == accepted
                && (case.pred["digestsImpl"].as_bool().unwrap() == digests_accepted || !range_valid);
            if !pred_match {
                self.bump("prediction_mismatches");
            }
        }
        obj.insert("ev".into(), json!("VerifyDb"));
        obj.insert("case".into(), json!(ix));
        obj.insert("label".into(), json!(case.label));
        obj.insert("N".into(), json!(w.n));
        obj.insert("rangeKind".into(), json!(case.range.0));
        obj.insert("rangeValid".into(), json!(range_valid));
        obj.insert("lo".into(), json!(lo));
        obj.insert("hi".into(), json!(hi));
        obj.insert("allowMissing".into(), json!(case.allow_missing));
        obj.insert("cert".into(), json!(cert_p));
        obj.insert("dir".into(), json!(dir_p.iter().map(|(num, name, did, kind)| json!({"name": name, "num": num, "did": did, "kind": kind})).collect::<Vec<_>>()));
        obj.insert("nonfiles".into(), json!(nonfiles.iter().map(|(num, name, kind)| json!({"name": name, "num": num, "kind": kind})).collect::<Vec<_>>()));
        obj.insert("entryKinds".into(), json!(entry_kinds));
        obj.insert("signedRoot".into(), json!(w.signed_root));
        obj.insert("servedRoot".into(), json!(served_root));
        obj.insert("servedRootCanonical".into(), json!(served_root_canonical));
        obj.insert("servedNames".into(), served_names);
        obj.insert("worst".into(), json!(worst));
        obj.insert("decoy".into(), json!(decoy));
        obj.insert("pred".into(), if case.pred.is_null() { json!("none") } else { case.pred.clone() });
        obj.insert("pred_match".into(), json!(pred_match));
        self.trace.emit(res);
        let _ = std::fs::remove_dir_all(&base);
    }

    fn case_of_json(&mut self, c: &Value) -> Case {
        let n = c["N"].as_u64().unwrap();
        let pat = c["pat"].as_str().unwrap().to_string();
        let seed = self.seed;
        let ent = |v: &Value| -> Vec<(String, Vec<u8>)> {
            v.as_array()
                .unwrap()
                .iter()
                .map(|e| (fname(e["num"].as_i64().unwrap(), e["ext"].as_str().unwrap()), content(seed, e["cid"].as_u64().unwrap())))
                .collect()
        };
        Case {
            n,
            pat,
            served: ent(&c["served"]),
            imm: ent(&c["dir"]["imm"]),
            nonreg: c["dir"]["nonreg"]
                .as_array()
                .map(|a| {
                    a.iter()
                        .map(|e| {
                            let k = e["k"].as_str().unwrap().to_string();
                            let bytes = if k == "link" { content(seed, e["cid"].as_u64().unwrap()) } else { vec![] };
                            (fname(e["num"].as_i64().unwrap(), e["ext"].as_str().unwrap()), k, bytes)
                        })
                        .collect()
                })
                .unwrap_or_default(),
            decoy: c["dir"]["decoy"].as_str().unwrap().to_string(),
            extra: vec![],
            range: (c["r"]["kind"].as_str().unwrap().to_string(), c["r"]["a"].as_u64().unwrap(), c["r"]["b"].as_u64().unwrap()),
            allow_missing: c["allowMissing"].as_bool().unwrap(),
            pred: json!({"impl": c["impl"], "digestsImpl": c["digestsImpl"], "rule": c["rule"]}),
            label: c["label"].as_str().unwrap_or("gen").to_string(),
        }
    }

    fn random_case(&mut self, r: &mut ChaCha20Rng) -> Case {
        let n = 1 + below(r, 4);
        let w = self.world(n, "distinct");
        let names: Vec<String> = w.cert.keys().cloned().collect();
        let mut imm: BTreeMap<String, Vec<u8>> = w.cert.clone();
        let mut served: Vec<(String, Vec<u8>)> = w.cert.iter().map(|(k, v)| (k.clone(), v.clone())).collect();
        let mut extra = vec![];
        let mut nonreg: Vec<(String, String, Vec<u8>)> = vec![];
        let mut label = vec![];
        let pick = |r: &mut ChaCha20Rng| names[below(r, names.len() as u64) as usize].clone();
        for _ in 0..below(r, 4) {
            let f = pick(r);
            let g = pick(r);
            match below(r, 15) {
                0 => {
                    let mut b = w.cert[&f].clone();
                    if !b.is_empty() {
                        let k = below(r, b.len() as u64) as usize;
                        b[k] ^= 1 << below(r, 8);
                    }
                    imm.insert(f, b);
                    label.push("flip");
                }
                1 => {
                    let mut b = w.cert[&f].clone();
                    b.truncate(below(r, b.len() as u64 + 1) as usize);
                    imm.insert(f, b);
                    label.push("truncate");
                }
                2 => {
                    imm.remove(&f);
                    label.push("delete");
                }
                3 => {
                    if let (Some(a), Some(b)) = (imm.get(&f).cloned(), imm.get(&g).cloned()) {
                        imm.insert(f, b);
                        imm.insert(g, a);
                        label.push("swap");
                    }
                }
                4 => {
                    imm.insert(g, w.cert[&f].clone());
                    label.push("copy");
                }
                5 => {
                    imm.insert(f, content(self.seed, 70 + below(r, 5)));
                    label.push("foreign");
                }
                6 => {
                    // non-canonical name carrying a certified content
                    let (num, ext) = parse_immutable_name(&f).unwrap();
                    imm.insert(format!("{num}.{ext}"), w.cert[&g].clone());
                    label.push("dup_unpadded");
                }
                7 => {
                    let (num, ext) = parse_immutable_name(&f).unwrap();
                    imm.insert(format!("{num:07}.{ext}"), content(self.seed, 75));
                    label.push("foreign_overpadded");
                }
                8 => {
                    extra.push(("immutable/junk.txt".to_string(), b"junk".to_vec()));
                    extra.push(("ledger/4242".to_string(), b"forged ledger".to_vec()));
                    label.push("extra_other");
                }
                9 => {
                    for ext in EXTS {
                        imm.insert(fname(n as i64 + 1, ext), content(self.seed, 76));
                    }
                    label.push("extra_next_trio");
                }
                10 => {
                    imm.insert(f, vec![]);
                    label.push("empty");
                }
                11 => {
                    if imm.remove(&f).is_some() {
                        nonreg.push((f, "dir".to_string(), vec![]));
                        label.push("dir_for_file");
                    }
                }
                12 => {
                    if imm.remove(&f).is_some() {
                        nonreg.push((f, "dangling".to_string(), vec![]));
                        label.push("dangling_link");
                    }
                }
                _ => {
                    if imm.remove(&f).is_some() {
                        let (bytes, l) = match below(r, 3) {
                            0 => (w.cert[&f].clone(), "link_same"),
                            1 => (w.cert[&g].clone(), "link_other"),
                            _ => (content(self.seed, 74), "link_foreign"),
                        };
                        nonreg.push((f, "link".to_string(), bytes));
                        label.push(l);
                    }
                }
            }
        }
        // a name holds one entry only
        let taken: Vec<String> = nonreg.iter().map(|e| e.0.clone()).collect();
        nonreg.dedup_by(|a, b| a.0 == b.0);
        let mut seen_names = std::collections::HashSet::new();
        nonreg.retain(|e| seen_names.insert(e.0.clone()));
        for n in &taken {
            imm.remove(n);
        }
        for _ in 0..below(r, 3) {
            let i = below(r, served.len() as u64) as usize;
            let j = below(r, served.len() as u64) as usize;
            match below(r, 8) {
                7 => {
                    // path-prefixed names: `/<name>` of the first trio carry its digests and sort before every canonical
                    // name, the canonical names carry the digests of the files three places further: the digests keep the
                    // certified order (so a verifier ordering the raw names rebuilds the signed root) but no longer belong
                    // to the names they are listed under
                    let mut s2: Vec<(String, Vec<u8>)> = w.cert.iter().map(|(k, v)| (k.clone(), v.clone())).collect();
                    s2.sort_by(|a, b| a.0.cmp(&b.0));
                    if s2.len() >= 6 {
                        let prefix = ["/", "./", "a/"][below(r, 3) as usize];
                        let mut out: Vec<(String, Vec<u8>)> = (0..3).map(|k| (format!("{prefix}{}", s2[k].0), s2[k].1.clone())).collect();
                        for k in 0..(s2.len() - 3) {
                            out.push((s2[k].0.clone(), s2[k + 3].1.clone()));
                        }
                        served = out;
                        label.push("l_prefixed_shift");
                    }
                    break;
                }
                0 => {
                    served.remove(i);
                    label.push("l_drop");
                }
                1 => {
                    let (num, _) = parse_immutable_name(&served[i].0).unwrap_or((0, String::new()));
                    served[i].0 = format!("{num:05}.{}", ["aaa", "zzz", "chunk2", "primary"][below(r, 4) as usize]);
                    label.push("l_rename");
                }
                2 => {
                    let (a, b) = (served[i].1.clone(), served[j].1.clone());
                    served[i].1 = b;
                    served[j].1 = a;
                    label.push("l_swap");
                }
                3 => {
                    served[i].1 = content(self.seed, 77);
                    label.push("l_replace");
                }
                4 => {
                    served.push((fname(n as i64 + 1 + below(r, 2) as i64, "chunk"), content(self.seed, 78)));
                    label.push("l_add_beyond");
                }
                5 => {
                    served.reverse();
                    label.push("l_reverse");
                }
                _ => {
                    let e = served[i].clone();
                    served.insert(0, (e.0, content(self.seed, 79)));
                    label.push("l_dup_first_loses");
                }
            }
        }
        let range = match below(r, 4) {
            0 => ("full".to_string(), 0, 0),
            1 => ("from".to_string(), below(r, n + 2), 0),
            2 => ("upto".to_string(), 0, below(r, n + 2)),
            _ => ("range".to_string(), below(r, n + 1), below(r, n + 2)),
        };
        Case {
            n,
            pat: "distinct".into(),
            served,
            imm: imm.into_iter().collect(),
            nonreg,
            decoy: "none".into(),
            extra,
            range,
            allow_missing: below(r, 3) == 0,
            pred: Value::Null,
            label: if label.is_empty() { "honest".into() } else { label.join("+") },
        }
    }
}

fn probe_decoy(work: &Path) -> (Option<String>, Option<String>) {
    let (mut first, mut after) = (None, None);
    for name in ["zzz", "aaa", "backup", "0", "old", "snap", "x1", "x2", "x3", "x4", "db2", "m"] {
        let p = work.join("probe");
        fresh_dir(&p);
        std::fs::create_dir(p.join("immutable")).unwrap();
        std::fs::create_dir(p.join(name)).unwrap();
        let order = readdir_order(&p);
        let before = order.iter().position(|n| n == name).unwrap() < order.iter().position(|n| n == "immutable").unwrap();
        if before && first.is_none() {
            first = Some(name.to_string());
        }
        if !before && after.is_none() {
            after = Some(name.to_string());
        }
        let _ = std::fs::remove_dir_all(&p);
    }
    (first, after)
}

fn main() {
    quiet_panics();
    let a = Args::parse();
    let seed = a.num("seed", 1);
    let mode = a.get("mode").unwrap_or("cases".into());
    let work = PathBuf::from(a.get("work").unwrap_or("/verif/work/C10/fs".into()));
    fresh_dir(&work);
    let (decoy_first, decoy_after) = probe_decoy(&work);
    let out = if mode == "confirm" { work.join("confirm.ndjson").to_string_lossy().into_owned() } else { a.req("out") };
    let mut run = Runner {
        rt: runtime(),
        client: build_client(&work.join("tmp"), None),
        seed,
        work: work.clone(),
        worlds: HashMap::new(),
        int: Interner::default(),
        trace: Trace::create(&out),
        decoy_first,
        decoy_after,
        counts: BTreeMap::new(),
    };
    match mode.as_str() {
        "cases" => {
            for (i, c) in read_ndjson(a.req("cases")).iter().enumerate() {
                let case = run.case_of_json(c);
                run.run_case(i as u64, &case);
            }
        }
        "random" => {
            for i in 0..a.num("runs", 300) {
                let mut r = rng(seed, 900 + i);
                let case = run.random_case(&mut r);
                run.run_case(i, &case);
            }
        }
        "confirm" => {
            let w = run.world(3, "distinct");
            let honest: Vec<(String, Vec<u8>)> = w.cert.iter().map(|(k, v)| (k.clone(), v.clone())).collect();
            let mk = |label: &str, f: &dyn Fn(&mut BTreeMap<String, Vec<u8>>), decoy: &str| {
                let mut imm = w.cert.clone();
                f(&mut imm);
                Case { n: 3, pat: "distinct".into(), served: honest.clone(), imm: imm.into_iter().collect(), nonreg: vec![], decoy: decoy.into(), extra: vec![],
                       range: ("full".into(), 0, 0), allow_missing: false, pred: Value::Null, label: label.into() }
            };
            let cases = vec![
                mk("honest directory", &|_| {}, "none"),
                mk("00001.chunk rewritten with foreign bytes", &|m| { m.insert("00001.chunk".into(), b"tampered content".to_vec()); }, "none"),
                mk("contents of 00001.chunk and 00002.chunk swapped", &|m| {
                    let (x, y) = (m["00001.chunk"].clone(), m["00002.chunk"].clone());
                    m.insert("00001.chunk".into(), y);
                    m.insert("00002.chunk".into(), x);
                }, "none"),
                mk("00003.primary copied over 00001.primary", &|m| { let x = m["00003.primary"].clone(); m.insert("00001.primary".into(), x); }, "none"),
                mk("foreign 00001.chunk + honest copy of the database in <db>/<x>/immutable, <x> first in readdir order",
                   &|m| { m.insert("00001.chunk".into(), b"tampered content".to_vec()); }, "first"),
                mk("same, <x> after `immutable` in readdir order", &|m| { m.insert("00001.chunk".into(), b"tampered content".to_vec()); }, "after"),
            ];
            let mut cases = cases;
            for (label, kind, bytes) in [
                ("00003.chunk is a directory", "dir", vec![]),
                ("00003.chunk is a symbolic link to a foreign file", "link", b"foreign bytes behind a link".to_vec()),
                ("00003.chunk is a symbolic link to 00002.chunk", "link", w.cert["00002.chunk"].clone()),
                ("00003.chunk is a symbolic link to a copy of the genuine 00003.chunk", "link", w.cert["00003.chunk"].clone()),
                ("00003.chunk is a dangling symbolic link", "dangling", vec![]),
            ] {
                for allow_missing in [false, true] {
                    let mut c = mk(label, &|m| { m.remove("00003.chunk"); }, "none");
                    c.nonreg = vec![("00003.chunk".into(), kind.into(), bytes.clone())];
                    c.allow_missing = allow_missing;
                    c.label = format!("{label}{}", if allow_missing { " (allow_missing)" } else { "" });
                    cases.push(c);
                }
            }
            for (i, c) in cases.iter().enumerate() {
                run.run_case(i as u64, c);
            }
            let n = run.trace.finish();
            for e in read_ndjson(&out) {
                println!("{:<100} accepted={} stage={} worst={} tampered={} err={}", e["label"].as_str().unwrap(), e["accepted"], e["stage"].as_str().unwrap(),
                         e["worst"].as_str().unwrap(), e["tampered"], e["err"].as_str().unwrap());
            }
            let _ = n;
            let _ = std::fs::remove_dir_all(&work);
            return;
        }
        m => panic!("unknown mode {m}"),
    }
    let _ = std::fs::remove_dir_all(&work);
    let events = run.trace.finish();
    let mut s = json!({"events": events, "contents": run.int.len(), "decoy_first_via": run.decoy_first, "decoy_after_via": run.decoy_after});
    for (k, v) in &run.counts {
        s[k] = json!(v);
    }
    println!("{s}");
}
