//! C03 — certificate chain verification through mithril-client (`CertificateClient::verify_chain`
//! with the `unstable` verifier cache).
//!
//! A case is an abstract universe of certificates (same shape as for `c03_chain`) and a *session*:
//! optional pre-warming of the verifier cache by real verifications served honestly, then one or
//! more attempts, each with its own scripted answers of an untrusted aggregator. All attempts of
//! a session share one real `MithrilCertificateVerifier` and one real
//! `MemoryCertificateVerifierCache` (wrapped only to observe stores and hits). One extra attempt
//! set is run without any cache.
//! Every attempt is logged as a `VerifyChain` event (path "client" / "client-nocache") with the
//! projection of every real certificate of the session recomputed from its real value; TLC
//! validates against spec/cert/CertChainTrace.tla (`accepted => ValidChain`).
use std::collections::{BTreeMap, VecDeque};
use std::sync::{Arc, Mutex};

use async_trait::async_trait;
use mithril_client::certificate_client::{
    CertificateAggregatorRequest, CertificateClient, CertificateVerifierCache, MemoryCertificateVerifierCache,
    MithrilCertificateVerifier,
};
use mithril_client::feedback::{FeedbackReceiver, FeedbackSender, MithrilEvent};
use mithril_client::{MithrilCertificate, MithrilCertificateListItem, MithrilResult};
use mithril_common::entities::Certificate;
use vh_common::certkit::{AbsCert, Kit};
use vh_common::certrand;
use vh_common::chrono::TimeDelta;
use vh_common::slog;
use vh_core::{Args, Guarded, Trace, Value, guarded, json, read_ndjson};

/// The untrusted aggregator. Scripted answers first (0 = not found, i = i-th certificate of the
/// universe, whatever hash was asked for); when the script is exhausted: honest by hash if
/// `honest_after`, else not found.
struct Aggregator {
    certs: Vec<Certificate>,
    serve: Mutex<VecDeque<usize>>,
    honest_after: Mutex<bool>,
    log: Mutex<Vec<(String, usize)>>,
}

impl Aggregator {
    fn script(&self, serve: &[usize], honest_after: bool) {
        *self.serve.lock().unwrap() = serve.iter().copied().collect();
        *self.honest_after.lock().unwrap() = honest_after;
        self.log.lock().unwrap().clear();
    }
}

#[async_trait]
impl CertificateAggregatorRequest for Aggregator {
    async fn list_latest(&self) -> MithrilResult<Vec<MithrilCertificateListItem>> {
        Ok(vec![])
    }

    async fn get_by_hash(&self, hash: &str) -> MithrilResult<Option<MithrilCertificate>> {
        let next = self.serve.lock().unwrap().pop_front();
        let idx = match next {
            Some(i) => i,
            None if *self.honest_after.lock().unwrap() => {
                // honest: the certificate that really owns this hash
                self.certs
                    .iter()
                    .position(|c| c.hash == hash && c.try_compute_hash().map(|h| h == c.hash).unwrap_or(false))
                    .map(|p| p + 1)
                    .unwrap_or(0)
            }
            None => 0,
        };
        self.log.lock().unwrap().push((hash.to_string(), idx));
        if idx == 0 {
            Ok(None)
        } else {
            let m: MithrilCertificate = self.certs[idx - 1].clone().try_into()?;
            Ok(Some(m))
        }
    }
}

/// Observes the real cache: which entries were stored (in which attempt), which were hit.
struct ObservedCache {
    inner: MemoryCertificateVerifierCache,
    agg: Arc<Aggregator>,
    stores: Mutex<Vec<(String, String)>>,
    /// (hash, number of fetches answered so far)
    hits: Mutex<Vec<(String, usize)>>,
}

#[async_trait]
impl CertificateVerifierCache for ObservedCache {
    async fn store_validated_certificate(&self, hash: &str, previous_hash: &str) -> MithrilResult<()> {
        self.stores.lock().unwrap().push((hash.to_string(), previous_hash.to_string()));
        self.inner.store_validated_certificate(hash, previous_hash).await
    }
    async fn get_previous_hash(&self, hash: &str) -> MithrilResult<Option<String>> {
        let r = self.inner.get_previous_hash(hash).await?;
        if r.is_some() {
            let fetched = self.agg.log.lock().unwrap().len();
            self.hits.lock().unwrap().push((hash.to_string(), fetched));
        }
        Ok(r)
    }
    async fn reset(&self) -> MithrilResult<()> {
        self.inner.reset().await
    }
}

#[derive(Default)]
struct Events {
    validated: Mutex<Vec<String>>,
}

#[async_trait]
impl FeedbackReceiver for Events {
    async fn handle_event(&self, event: MithrilEvent) {
        if let MithrilEvent::CertificateValidated { certificate_hash, .. } = event {
            self.validated.lock().unwrap().push(certificate_hash);
        }
    }
}

#[derive(Default)]
struct Stats {
    attempts: u64,
    accepted: u64,
    panics: u64,
    mismatch: u64,
    cache_hits: u64,
    sessions: u64,
}

/// what is known about a cache entry
#[derive(Clone)]
struct EntryInfo {
    /// the store was followed by the verifier's own "certificate validated" event
    validated_event: bool,
    /// the attempt that stored it ended with a rejection, or was itself accepted only through a
    /// listed deviation (the taint propagates)
    attempt_unsound: bool,
}

#[allow(clippy::too_many_arguments)]
fn run_session(kit: &Kit, rt: &tokio::runtime::Runtime, case: &Value, n: usize, with_cache: bool, trace: &mut Trace, stats: &mut Stats) {
    let abs: Vec<AbsCert> = case["certs"].as_array().unwrap().iter().map(AbsCert::from_json).collect();
    let certs = kit.realise_all(&abs);
    let mut proj: Vec<Value> = certs.iter().map(|c| kit.project(c)).collect();
    let agg = Arc::new(Aggregator {
        certs: certs.clone(),
        serve: Mutex::new(VecDeque::new()),
        honest_after: Mutex::new(false),
        log: Mutex::new(vec![]),
    });
    let cache = Arc::new(ObservedCache {
        inner: MemoryCertificateVerifierCache::new(TimeDelta::hours(6)),
        agg: agg.clone(),
        stores: Mutex::new(vec![]),
        hits: Mutex::new(vec![]),
    });
    let events = Arc::new(Events::default());
    let logger = slog::Logger::root(slog::Discard, slog::o!());
    let gvk: String = kit.genesis_verifier.to_ed25519_verification_key().to_json_hex().unwrap();
    let verifier = MithrilCertificateVerifier::new(
        agg.clone(),
        &gvk,
        FeedbackSender::new(&[events.clone() as Arc<dyn FeedbackReceiver>]),
        if with_cache { Some(cache.clone() as Arc<dyn CertificateVerifierCache>) } else { None },
        logger.clone(),
    )
    .expect("verifier construction");
    let client = CertificateClient::new(agg.clone(), Arc::new(verifier), logger);
    stats.sessions += 1;

    let mut entries: BTreeMap<String, EntryInfo> = BTreeMap::new();
    let mut plan: Vec<(usize, Vec<usize>, bool, Value, &str)> = vec![];
    for w in case["warm"].as_array().map(|a| a.as_slice()).unwrap_or(&[]) {
        plan.push((w.as_u64().unwrap() as usize, vec![], true, json!("none"), "warm"));
    }
    for a in case["attempts"].as_array().unwrap() {
        let serve = a["serve"].as_array().unwrap().iter().map(|v| v.as_u64().unwrap() as usize).collect();
        // the model's prediction is about the cached verifier
        let predicted = if with_cache { a.get("impl").cloned().unwrap_or(json!("none")) } else { json!("none") };
        // beyond the scripted answers the aggregator is honest (see c03_chain)
        let honest = a["honest_after"].as_bool().unwrap_or(true);
        plan.push((a["start"].as_u64().unwrap() as usize, serve, honest, predicted, "attempt"));
    }
    for (k, (start, serve, honest, predicted, role)) in plan.into_iter().enumerate() {
        // the first answer (to the request for the start hash) is the start certificate itself
        let mut full = vec![start];
        full.extend(serve);
        agg.script(&full, honest);
        cache.stores.lock().unwrap().clear();
        cache.hits.lock().unwrap().clear();
        events.validated.lock().unwrap().clear();
        let asked = certs[start - 1].hash.clone();
        let res = guarded(|| rt.block_on(client.verify_chain(&asked)));
        let (accepted, panicked, err, returned) = match res {
            Guarded::Done(Ok(m)) => (true, false, String::new(), Some(m)),
            Guarded::Done(Err(e)) => (false, false, format!("{e:#}").chars().take(140).collect(), None),
            Guarded::Panic(m) => (false, true, m.chars().take(140).collect(), None),
        };
        let ok = accepted;
        let walk = agg.log.lock().unwrap().clone();
        let stores = cache.stores.lock().unwrap().clone();
        let hits_at = cache.hits.lock().unwrap().clone();
        let hits: Vec<String> = hits_at.iter().map(|(h, _)| h.clone()).collect();
        // the cache rule: no cache until a certificate of another epoch than the start certificate
        // has been reached -- was there a hit while every certificate served so far was of the
        // start certificate's epoch
        let before_boundary = hits_at.iter().any(|(_, fetched)| {
            let start_epoch = walk.first().filter(|(_, i)| *i != 0).map(|(_, i)| certs[*i - 1].epoch);
            walk.iter().take(*fetched).all(|(_, i)| *i == 0 || Some(certs[*i - 1].epoch) == start_epoch)
        });
        let validated = events.validated.lock().unwrap().clone();
        stats.cache_hits += hits.len() as u64;
        // ---- the accepted certificate is the one the client returned ----------------------
        let mut start_idx = start;
        if let Some(m) = returned {
            match Certificate::try_from(m) {
                Ok(c) => {
                    let p = kit.project(&c);
                    match proj.iter().position(|q| *q == p) {
                        Some(i) => start_idx = i + 1,
                        None => {
                            proj.push(p);
                            start_idx = proj.len();
                        }
                    }
                }
                Err(_) => panic!("client returned a certificate message that does not convert back"),
            }
        }
        // ---- deviation classes of the real history (for known-finding matching only) -------
        // (a) a certificate passed its own verification (the verifier said "validated") against a
        //     served predecessor (the answer to the fetch of its previous hash) of a later epoch
        let mut following = false;
        {
            let mut cur: Option<usize> = None;
            for (asked, idx) in &walk {
                if *idx == 0 {
                    break;
                }
                if let Some(c) = cur {
                    let cc = &certs[c - 1];
                    if *asked == cc.previous_hash && validated.contains(&cc.hash) && *certs[*idx - 1].epoch > *cc.epoch {
                        following = true;
                    }
                }
                cur = Some(*idx);
            }
        }
        // (b) cache hit for a hash while the certificate in hand for it (served in this attempt)
        //     does not hash to it
        let forged_hit = hits.iter().any(|h| {
            walk.iter().any(|(_, idx)| *idx != 0 && certs[*idx - 1].hash == *h && proj[*idx - 1]["hashOk"] == json!(false))
        });
        // (c) cache hit on an entry stored by an attempt that was rejected afterwards although
        //     the verifier reported that certificate as validated
        let tainted_hit = hits.iter().any(|h| entries.get(h).map(|e| e.validated_event && e.attempt_unsound).unwrap_or(false));
        // (d) after a cache hit, the fetch for the cached previous hash was answered with a
        //     certificate carrying ANOTHER hash than the one asked for
        let jump = walk.iter().enumerate().any(|(i, (asked, idx))| {
            i > 0 && *idx != 0 && certs[*idx - 1].hash != *asked && hits_at.iter().any(|(_, fetched)| *fetched <= i)
        });
        for (h, _) in &stores {
            entries.insert(h.clone(), EntryInfo { validated_event: validated.contains(h), attempt_unsound: !ok || following || forged_hit || tainted_hit || jump });
        }
        stats.attempts += 1;
        if ok {
            stats.accepted += 1;
        }
        if panicked {
            stats.panics += 1;
        }
        if predicted != json!("none") && predicted != json!(accepted) {
            stats.mismatch += 1;
        }
        trace.emit(json!({
            "ev": "VerifyChain", "path": if with_cache { "client" } else { "client-nocache" },
            "case": n, "attempt": k + 1, "role": role,
            "cls": case.get("cls").cloned().unwrap_or(json!("")),
            "certs": proj.clone(), "start": start_idx,
            "walk": walk.iter().map(|(h, i)| json!([Kit::short(h), i])).collect::<Vec<_>>(),
            "cache_hits": hits.iter().map(|h| Kit::short(h)).collect::<Vec<_>>(),
            "cache_stores": stores.iter().map(|(h, _)| Kit::short(h)).collect::<Vec<_>>(),
            "accepted": accepted, "panicked": panicked, "err": err, "predicted": predicted,
            "dev_following": ok && following,
            "dev_cache_forged": ok && forged_hit,
            "dev_cache_tainted": ok && tainted_hit,
            "dev_cache_jump": ok && jump,
            "cache_before_boundary": before_boundary,
        }));
    }
}

fn main() {
    std::panic::set_hook(Box::new(|i| eprintln!("panic: {i}")));
    let args = Args::parse();
    let mode = args.req("mode");
    let seed = args.num("seed", 1);
    let mut trace = Trace::create(args.req("out"));
    let kit = Kit::standard();
    let rt = tokio::runtime::Builder::new_current_thread().build().unwrap();
    let mut stats = Stats::default();
    let cases: Vec<Value> = match mode.as_str() {
        "cases" => read_ndjson(args.req("cases")),
        "random" => certrand::random_cases(seed, args.num("n", 200) as usize, true),
        m => panic!("unknown mode {m}"),
    };
    let nocache_every = args.num("nocache-every", 4) as usize;
    for (n, case) in cases.iter().enumerate() {
        run_session(&kit, &rt, case, n + 1, true, &mut trace, &mut stats);
        if nocache_every > 0 && n % nocache_every == 0 {
            run_session(&kit, &rt, case, n + 1, false, &mut trace, &mut stats);
        }
    }
    let total = trace.finish();
    println!(
        "{}",
        json!({"mode": mode, "events": total, "sessions": stats.sessions, "attempts": stats.attempts,
               "accepted": stats.accepted, "panics": stats.panics, "cache_hits": stats.cache_hits,
               "prediction_mismatches": stats.mismatch, "certificates_built": *kit.built.borrow()})
    );
}
