//! C19 -- only verified immutables and manifest-vouched ancillary files get restored.
//!
//! `--mode cases`  (spec -> impl): abstract download scenarios enumerated by TLC
//!   (spec/db/MC_DbRestore, GenPrint) are realised: real `tar.gz` / `tar.zst` archives for every
//!   immutable of the range (honest trio + the hostile entries of the case), a real ancillary
//!   archive with a manifest really signed by an Ed25519 key the harness owns (and the case's
//!   alteration applied), a pre-populated target directory, all served over `file://` to the real
//!   `CardanoDatabaseClient::download_unpack` (real `HttpFileDownloader`, real `tar` unpacking).
//! `--mode random` : seeded random combinations of the same ingredients.
//! `--mode confirm`: prints the reproduction of the known findings.
//!
//! After each run the sandbox is listed recursively; every file found is logged as a `Kept` event
//! whose projection (class of the path, origin of the bytes, vouched by the genuine manifest, held
//! before) is recomputed from the real path and the real bytes.  TLC validates the trace against
//! spec/db/DbRestoreTrace.tla.
use std::collections::{BTreeMap, BTreeSet};
use std::io::Write;
use std::path::{Path, PathBuf};

use mithril_cardano_node_internal_database::entities::AncillaryFilesManifest;
use mithril_client::cardano_database_client::{DownloadUnpackOptions, ImmutableFileRange};
use mithril_client::CardanoDatabaseSnapshot;
use mithril_common::crypto_helper::ManifestSigner;
use mithril_common::entities::{CardanoDbBeacon, Epoch};
use mithril_common::test::double::Dummy;
use vh_client::dbkit::*;
use vh_core::{Args, ChaCha20Rng, Guarded, Trace, Value, below, guarded, json, quiet_panics, read_ndjson, rng};

const EXTS: [&str; 3] = ["chunk", "primary", "secondary"];
const TAG: &str = "MITHRIL-VERIF-C19";

#[derive(Clone, Debug, PartialEq, Eq, PartialOrd, Ord)]
struct AP {
    cls: String,
    num: i64,
    ext: String,
}

fn ap(cls: &str, num: i64, ext: &str) -> AP {
    AP { cls: cls.into(), num, ext: ext.into() }
}

fn ap_of(v: &Value) -> AP {
    ap(v["cls"].as_str().unwrap(), v["num"].as_i64().unwrap(), v["ext"].as_str().unwrap())
}

fn aps(v: &Value) -> Vec<AP> {
    v.as_array().unwrap().iter().map(ap_of).collect()
}

/// real relative path of an abstract path (`merged` is resolved by the ancillary builder)
fn real_path(p: &AP) -> String {
    match p.cls.as_str() {
        "imm" => format!("immutable/{:05}.{}", p.num, p.ext),
        "immjunk" => "immutable/junk.txt".into(),
        "immsub" => "immutable/sub/00000.chunk".into(),
        "immuser" => "immutable/user.txt".into(),
        "ledger" => format!("ledger/{}", p.num),
        "volatile" => "volatile/blocks-0.dat".into(),
        "clean" => "clean".into(),
        "magic" => "protocolMagicId".into(),
        "rootfile" => "evil.sh".into(),
        "nested" => "x/y/z.bin".into(),
        "decoy" => "zzz/immutable/00000.chunk".into(),
        "manifest" => "ancillary_manifest.json".into(),
        "userfile" => "notes.txt".into(),
        "dotdot" => "../escape.txt".into(),
        "abs" => "/abs-escape/evil.txt".into(),
        "symlink" => "lnk".into(),
        "occupied" => "ledger/1/occupied".into(), // a directory where the vouched ledger file has to go
        c => panic!("no real path for class {c}"),
    }
}

/// class of a real path found in the target directory
fn classify(rel: &str) -> (String, i64) {
    if let Some(name) = rel.strip_prefix("immutable/") {
        if !name.contains('/') {
            if let Some((num, _)) = parse_immutable_name(name) {
                return ("imm".into(), num.min(1_000_000) as i64);
            }
        }
        return ("imm_dir_other".into(), -1);
    }
    if let Some(name) = rel.strip_prefix("ledger/") {
        return ("ledger".into(), name.parse::<i64>().unwrap_or(-1));
    }
    if rel.starts_with("volatile/") {
        return ("volatile".into(), -1);
    }
    match rel {
        "clean" => ("clean".into(), -1),
        "protocolMagicId" => ("magic".into(), -1),
        _ => ("other".into(), -1),
    }
}

/// the client's temporary ancillary directory is named after a random download id
fn scrub_id(s: &str) -> String {
    let mut out = String::new();
    let mut rest = s;
    while let Some(i) = rest.find("ancillary-") {
        let after = &rest[i + 10..];
        let is_uuid = after.len() >= 36 && after.as_bytes()[..36].iter().all(|b| b.is_ascii_hexdigit() || *b == b'-');
        out.push_str(&rest[..i + 10]);
        if is_uuid {
            out.push_str("<id>");
            rest = &after[36..];
        } else {
            rest = after;
        }
    }
    out.push_str(rest);
    out
}

fn tagged(src: &str, rel: &str) -> Vec<u8> {
    format!("{TAG} src={src} path={rel}\n").into_bytes()
}

/// origin of the bytes of a kept file, parsed from the bytes themselves
fn origin_of(bytes: &[u8]) -> (String, i64) {
    let s = String::from_utf8_lossy(bytes);
    if let Some(rest) = s.strip_prefix(&format!("{TAG} src=")) {
        let src = rest.split(' ').next().unwrap_or("");
        if let Some(i) = src.strip_prefix("imm") {
            return ("imm_archive".into(), i.parse().unwrap_or(-1));
        }
        return (src.to_string(), -1);
    }
    ("unknown".into(), -1)
}

#[derive(Clone)]
struct ArchSpec {
    i: u64,
    status: String,
    extra: Vec<AP>,
}

#[derive(Clone)]
struct Case {
    n: u64,
    lo: u64,
    hi: u64,
    anc: bool,
    allow_override: bool,
    net: String,
    conflict: bool,
    pre: Vec<AP>,
    arch: Vec<ArchSpec>,
    anc_status: String,
    anc_manifest: String,
    anc_extra: Vec<AP>,
    /// what the served ancillary archive holds at the manifest-listed path `ledger/1`: "file" (the
    /// regular file), "dir" (a directory with unlisted children), "link_in_same" / "link_in_other"
    /// (a symbolic link to a file inside the archive with the vouched / another content),
    /// "link_out_same" (a symbolic link to a file outside the unpack directory with the vouched content)
    anc_at: String,
    zstd: bool,
    pred_result: String,
    pred_final: Option<BTreeMap<String, String>>, // real path -> origin
    label: String,
}

fn compress(tar_bytes: Vec<u8>, zstd: bool) -> Vec<u8> {
    if zstd {
        zstd::encode_all(&tar_bytes[..], 3).unwrap()
    } else {
        let mut e = flate2::write::GzEncoder::new(Vec::new(), flate2::Compression::fast());
        e.write_all(&tar_bytes).unwrap();
        e.finish().unwrap()
    }
}

/// a tar archive from (path, bytes) entries; paths are written verbatim (also `..` and absolute
/// ones, which tar::Builder would refuse); a `symlink` entry is (path, target) with kind 'L'
enum TarEntry {
    File(String, Vec<u8>),
    Symlink(String, String),
}

fn build_tar(entries: &[TarEntry]) -> Vec<u8> {
    let mut b = tar::Builder::new(Vec::new());
    for e in entries {
        match e {
            TarEntry::File(path, data) => {
                let mut h = tar::Header::new_gnu();
                h.set_size(data.len() as u64);
                h.set_mode(0o644);
                h.set_mtime(1_700_000_000);
                h.set_entry_type(tar::EntryType::Regular);
                if path.len() < 100 {
                    // verbatim name
                    let name = &mut h.as_old_mut().name;
                    name.fill(0);
                    name[..path.len()].copy_from_slice(path.as_bytes());
                    h.set_cksum();
                    b.append(&h, &data[..]).unwrap();
                } else {
                    b.append_data(&mut h, path, &data[..]).unwrap();
                }
            }
            TarEntry::Symlink(path, target) => {
                let mut h = tar::Header::new_gnu();
                h.set_size(0);
                h.set_mode(0o777);
                h.set_mtime(1_700_000_000);
                h.set_entry_type(tar::EntryType::Symlink);
                b.append_link(&mut h, path, target).unwrap();
            }
        }
    }
    b.into_inner().unwrap()
}

struct Runner {
    rt: tokio::runtime::Runtime,
    client: mithril_client::Client,
    signer: ManifestSigner,
    other_signer: ManifestSigner,
    work: PathBuf,
    trace: Trace,
    counts: BTreeMap<String, u64>,
}

struct AncBuilt {
    bytes: Option<Vec<u8>>,
    genuine: BTreeMap<String, String>, // path -> sha256 of the content the signed manifest vouches for
    genuine_signature: String,
}

impl Runner {
    fn bump(&mut self, k: &str) {
        *self.counts.entry(k.to_string()).or_insert(0) += 1;
    }

    /// the genuine ancillary content for beacon n and the archive the mirror serves for this case
    fn build_ancillary(&self, c: &Case, sandbox: &Path) -> AncBuilt {
        let n1 = c.n as i64 + 1;
        let mut genuine_files: BTreeMap<String, Vec<u8>> = BTreeMap::new();
        for ext in EXTS {
            let rel = real_path(&ap("imm", n1, ext));
            genuine_files.insert(rel.clone(), tagged("anc", &rel));
        }
        for p in [ap("ledger", 1, ""), ap("volatile", 0, "")] {
            let rel = real_path(&p);
            genuine_files.insert(rel.clone(), tagged("anc", &rel));
        }
        let genuine: BTreeMap<String, String> = genuine_files.iter().map(|(k, v)| (k.clone(), sha256_hex(v))).collect();
        // the manifest the key owner signs (real aggregator-side types)
        let data: BTreeMap<PathBuf, String> = genuine.iter().map(|(k, v)| (PathBuf::from(k), v.clone())).collect();
        let mut manifest = AncillaryFilesManifest::new_without_signature(data);
        manifest.set_signature(self.signer.sign(&manifest.compute_hash()));
        let mut mj = serde_json::to_value(&manifest).unwrap();
        let genuine_signature = mj["signature"].as_str().unwrap().to_string();
        if c.anc_status != "ok" {
            return AncBuilt { bytes: None, genuine, genuine_signature };
        }
        // the mirror's alteration
        let mut files = genuine_files.clone();
        let mut manifest_bytes: Option<Vec<u8>> = None;
        match c.anc_manifest.as_str() {
            "ok" => {}
            "contentChanged" => {
                files.insert("ledger/1".into(), tagged("ancx", "ledger/1"));
            }
            "entryAdded" => {
                let body = tagged("ancx", "ledger/2");
                mj["data"]["ledger/2"] = json!(sha256_hex(&body));
                files.insert("ledger/2".into(), body);
            }
            "entryRemoved" => {
                mj["data"].as_object_mut().unwrap().remove("ledger/1");
            }
            "sigAltered" => {
                let mut s = genuine_signature.clone().into_bytes();
                let k = s.len() / 2;
                s[k] = if s[k] == b'0' { b'1' } else { b'0' };
                mj["signature"] = json!(String::from_utf8(s).unwrap());
            }
            "sigMissing" => {
                mj.as_object_mut().unwrap().remove("signature");
            }
            "sigOtherKey" => {
                let sig = self.other_signer.sign(&manifest.compute_hash());
                let mut m2 = manifest.clone();
                m2.set_signature(sig);
                mj = serde_json::to_value(&m2).unwrap();
            }
            "manifestMissing" => manifest_bytes = Some(vec![]),
            "manifestGarbage" => manifest_bytes = Some(b"{ not json".to_vec()),
            "listedFileMissing" => {
                files.remove("ledger/1");
            }
            "merged" => {
                // keys and values are hashed without separators: the two adjacent entries
                // ("ledger/1" -> h1), ("volatile/blocks-0.dat" -> h2) hash like the single entry
                // ("ledger/1" + h1 + "volatile/blocks-0.dat" -> h2)
                let h1 = genuine["ledger/1"].clone();
                let h2 = genuine["volatile/blocks-0.dat"].clone();
                let merged = format!("ledger/1{h1}volatile/blocks-0.dat");
                let d = mj["data"].as_object_mut().unwrap();
                d.remove("ledger/1");
                d.remove("volatile/blocks-0.dat");
                d.insert(merged.clone(), json!(h2));
                let body = files.remove("volatile/blocks-0.dat").unwrap();
                files.remove("ledger/1");
                files.insert(merged, body);
            }
            v => panic!("unknown manifest variant {v}"),
        }
        let mut entries = vec![];
        match manifest_bytes {
            Some(b) if b.is_empty() => {}
            Some(b) => entries.push(TarEntry::File("ancillary_manifest.json".into(), b)),
            None => entries.push(TarEntry::File("ancillary_manifest.json".into(), serde_json::to_vec(&mj).unwrap())),
        }
        // the kind of entry found at the listed path ledger/1
        let mut late: Vec<TarEntry> = vec![];
        if c.anc_at != "file" {
            let genuine_ledger = files.remove("ledger/1");
            match c.anc_at.as_str() {
                "dir" => {
                    for child in ["ledger/1/evil-state", "ledger/1/tables/evil-tvar"] {
                        late.push(TarEntry::File(child.into(), tagged("ancx", child)));
                    }
                }
                "link_in_same" => {
                    if let Some(b) = genuine_ledger {
                        late.push(TarEntry::File("extra/anclink-ledger-copy".into(), b));
                    }
                    late.push(TarEntry::Symlink("ledger/1".into(), "../extra/anclink-ledger-copy".into()));
                }
                "link_in_other" => late.push(TarEntry::Symlink("ledger/1".into(), "../volatile/blocks-0.dat".into())),
                "link_out_same" => {
                    // a file that exists outside the unpack directory (e.g. left there before)
                    let outside = sandbox.join("outside-anc").join("anclink-ledger-copy");
                    if let Some(b) = genuine_ledger {
                        write_file(&outside, &b);
                    }
                    late.push(TarEntry::Symlink("ledger/1".into(), outside.to_string_lossy().into_owned()));
                }
                k => panic!("unknown entry kind {k}"),
            }
        }
        for (rel, body) in files {
            entries.push(TarEntry::File(rel, body));
        }
        entries.extend(late);
        push_extras(&mut entries, &c.anc_extra, "ancx", sandbox);
        AncBuilt { bytes: Some(compress(build_tar(&entries), c.zstd)), genuine, genuine_signature }
    }

    /// The served ancillary archive relative to the genuine one, re-read from the served bytes with
    /// code of this harness:
    /// "genuine"  the manifest's data and signature equal what the key owner signed, and every listed
    ///            file is in the archive with the vouched hash
    /// "resplit"  another manifest (other entries) carrying the genuine signature whose keys and values,
    ///            concatenated in order, give the same string as the genuine manifest's
    /// "absent" / "invalid"  anything else
    fn anc_class(served: &Option<Vec<u8>>, zstd: bool, a: &AncBuilt) -> &'static str {
        let Some(bytes) = served else { return "absent" };
        let tar_bytes: Vec<u8> = if zstd {
            match zstd::decode_all(&bytes[..]) {
                Ok(b) => b,
                Err(_) => return "invalid",
            }
        } else {
            let mut d = flate2::read::GzDecoder::new(&bytes[..]);
            let mut out = vec![];
            if std::io::Read::read_to_end(&mut d, &mut out).is_err() {
                return "invalid";
            }
            out
        };
        let mut files: BTreeMap<String, Vec<u8>> = BTreeMap::new();
        let mut links: BTreeMap<String, String> = BTreeMap::new();
        let mut ar = tar::Archive::new(&tar_bytes[..]);
        for e in ar.entries().unwrap() {
            let mut e = e.unwrap();
            let p = e.path().unwrap().to_string_lossy().into_owned();
            if e.header().entry_type().is_symlink() {
                links.insert(p, e.link_name().unwrap().unwrap().to_string_lossy().into_owned());
                continue;
            }
            let mut b = vec![];
            std::io::Read::read_to_end(&mut e, &mut b).unwrap();
            files.insert(p, b);
        }
        // a listed path that is a symbolic link is read through the link, as a reader of the unpacked
        // archive would (what is judged is the content reached under the listed path; the link entry
        // itself is judged as a kept entry)
        for (p, t) in &links {
            let bytes = if t.starts_with('/') {
                std::fs::read(t).ok()
            } else {
                let mut parts: Vec<&str> = p.split('/').collect();
                parts.pop();
                for comp in t.split('/') {
                    match comp {
                        ".." => {
                            parts.pop();
                        }
                        "." | "" => {}
                        c => parts.push(c),
                    }
                }
                files.get(&parts.join("/")).cloned()
            };
            if let Some(b) = bytes {
                files.entry(p.clone()).or_insert(b);
            }
        }
        // a listed path under which the archive has further entries is a directory
        let dirs: Vec<String> = files.keys().filter_map(|k| a.genuine.keys().find(|g| k.starts_with(&format!("{g}/"))).cloned()).collect();
        for d in dirs {
            files.remove(&d);
        }
        let Some(mb) = files.get("ancillary_manifest.json") else { return "invalid" };
        let Ok(m) = serde_json::from_slice::<Value>(mb) else { return "invalid" };
        let Some(data) = m["data"].as_object() else { return "invalid" };
        if m["signature"].as_str() != Some(a.genuine_signature.as_str()) {
            return "invalid";
        }
        let same = data.len() == a.genuine.len() && a.genuine.iter().all(|(k, h)| data.get(k).and_then(|v| v.as_str()) == Some(h.as_str()));
        if same {
            return if a.genuine.iter().all(|(k, h)| files.get(k).map(|b| sha256_hex(b)) == Some(h.clone())) { "genuine" } else { "invalid" };
        }
        let served_sorted: BTreeMap<String, String> = data.iter().map(|(k, v)| (k.clone(), v.as_str().unwrap_or("").to_string())).collect();
        let cat = |m: &BTreeMap<String, String>| m.iter().map(|(k, v)| format!("{k}{v}")).collect::<String>();
        if cat(&served_sorted) == cat(&a.genuine) { "resplit" } else { "invalid" }
    }

    fn run_case(&mut self, ix: u64, c: &Case) {
        let base = self.work.join(format!("c{ix}"));
        fresh_dir(&base);
        let sandbox = base.join("sandbox");
        let target = sandbox.join("target");
        let served = base.join("served");
        std::fs::create_dir_all(&target).unwrap();
        std::fs::create_dir_all(served.join("imm")).unwrap();
        // what the target held before
        let mut pre_files: BTreeMap<String, Vec<u8>> = BTreeMap::new();
        for p in &c.pre {
            let rel = real_path(p);
            pre_files.insert(rel.clone(), tagged("pre", &rel));
        }
        for (rel, body) in &pre_files {
            write_file(&target.join(rel), body);
        }
        // the archives the mirror serves
        let suffix = if c.zstd { "tar.zst" } else { "tar.gz" };
        for a in &c.arch {
            let path = served.join("imm").join(format!("{:05}.{suffix}", a.i));
            match a.status.as_str() {
                "missing" => {}
                "corrupt" => std::fs::write(&path, b"this is not an archive at all").unwrap(),
                _ => {
                    let src = format!("imm{}", a.i);
                    let mut entries = vec![];
                    for ext in EXTS {
                        let rel = real_path(&ap("imm", a.i as i64, ext));
                        entries.push(TarEntry::File(rel.clone(), tagged(&src, &rel)));
                    }
                    push_extras(&mut entries, &a.extra, &src, &sandbox);
                    std::fs::write(&path, compress(build_tar(&entries), c.zstd)).unwrap();
                }
            }
        }
        let anc = self.build_ancillary(c, &sandbox);
        let anc_path = served.join(format!("ancillary.{suffix}"));
        if let Some(b) = &anc.bytes {
            std::fs::write(&anc_path, b).unwrap();
        }
        let anc_manifest_class = Self::anc_class(&anc.bytes, c.zstd, &anc);
        let anc_genuine = anc_manifest_class == "genuine";
        // names the post-download clean-up of <target>/immutable is meant to tolerate
        let whitelist_upper = if c.anc { c.n + 1 } else { c.n } as i64;
        let pre_imm_names: BTreeSet<String> =
            c.pre.iter().map(real_path).filter_map(|r| r.strip_prefix("immutable/").map(|x| x.split('/').next().unwrap().to_string())).collect();
        // messages
        let algo = if c.zstd { "zstandard" } else { "gzip" };
        let mut snapshot = CardanoDatabaseSnapshot::dummy();
        snapshot.beacon = CardanoDbBeacon { epoch: Epoch(12), immutable_file_number: c.n };
        snapshot.network = if c.net == "known" { "preview".into() } else { "private".into() };
        snapshot.immutables = serde_json::from_value(json!({
            "average_size_uncompressed": 512,
            "locations": [{"type": "cloud_storage", "compression_algorithm": algo,
                           "uri": {"Template": format!("{}/{{immutable_file_number}}.{suffix}", file_uri(&served.join("imm")))}}]
        }))
        .unwrap();
        snapshot.ancillary = serde_json::from_value(json!({
            "size_uncompressed": 2048,
            "locations": [{"type": "cloud_storage", "compression_algorithm": algo, "uri": file_uri(&anc_path)}]
        }))
        .unwrap();
        let range = if c.lo == 0 && c.hi == c.n {
            ImmutableFileRange::Full
        } else if c.hi == c.n {
            ImmutableFileRange::From(c.lo)
        } else if c.lo == 0 {
            ImmutableFileRange::UpTo(c.hi)
        } else {
            ImmutableFileRange::Range(c.lo, c.hi)
        };
        let options = DownloadUnpackOptions { allow_override: c.allow_override, include_ancillary: c.anc, max_parallel_downloads: 1 };
        // what exists in the sandbox outside the target before the call (placed by this harness)
        let outside_before: BTreeMap<String, Vec<u8>> = list_recursive(&sandbox)
            .into_iter()
            .filter(|r| !r.starts_with("target/") && !r.ends_with('/'))
            .filter_map(|r| std::fs::read(sandbox.join(&r)).ok().map(|b| (r, b)))
            .collect();
        // --- the real client ---
        let cdb = self.client.cardano_database_v2();
        let rt = &self.rt;
        let t = target.clone();
        let out = guarded(|| rt.block_on(async { cdb.download_unpack(&snapshot, &range, &t, options).await.map_err(|e| format!("{e:#}")) }));
        let (res, err) = match out {
            Guarded::Done(Ok(())) => ("ok", String::new()),
            Guarded::Done(Err(e)) => ("err", e),
            Guarded::Panic(m) => {
                self.bump("panics");
                ("panic", m)
            }
        };
        self.bump(res);
        // --- what is there now ---
        let listing = list_recursive(&sandbox);
        let mut kept: Vec<Value> = vec![];
        let mut dirs: Vec<String> = vec![];
        let mut real_final: BTreeMap<String, String> = BTreeMap::new();
        let expected_magic = if c.net == "known" { "2" } else { "<none>" };
        for rel_sb in &listing {
            if rel_sb.ends_with('/') {
                dirs.push(rel_sb.clone());
                continue;
            }
            let full = sandbox.join(rel_sb);
            let md = std::fs::symlink_metadata(&full).unwrap();
            let inside = rel_sb.strip_prefix("target/");
            let (bytes, is_link) = if md.file_type().is_symlink() { (vec![], true) } else { (std::fs::read(&full).unwrap(), false) };
            let (mut cls, num) = match inside {
                Some(rel) => classify(rel),
                None => ("escaped".to_string(), -1),
            };
            let rel = inside.unwrap_or(rel_sb).to_string();
            let (mut origin, from) = origin_of(&bytes);
            if is_link {
                // a symbolic link is no file; who placed it is told by where it points (the immutable
                // archives' link points to <sandbox>/outside, the ancillary one's to an anclink-* file)
                cls = "symlink".into();
                let to = std::fs::read_link(&full).map(|t| t.to_string_lossy().into_owned()).unwrap_or_default();
                origin = if to.contains("anclink") || to.contains("blocks-0.dat") { "anc_link".into() } else { "imm_archive".into() };
            }
            // the client's own bootstrap markers are recognised by their content
            if origin == "unknown" && ((cls == "clean" && bytes.is_empty()) || (cls == "magic" && bytes == expected_magic.as_bytes())) {
                origin = "client".into();
            }
            if inside.is_none() && outside_before.get(rel_sb) == Some(&bytes) {
                continue; // untouched file of the harness outside the target
            }
            let held_before = inside.is_some() && pre_files.get(&rel).map(|b| *b == bytes).unwrap_or(false);
            let vouched = inside.is_some() && anc.genuine.get(&rel).map(|h| *h == sha256_hex(&bytes)).unwrap_or(false);
            let kind = if held_before {
                "pre".to_string()
            } else if cls == "imm" {
                if (c.lo as i64) <= num && num <= c.hi as i64 { "imm_in_range".into() } else { "imm_out_of_range".into() }
            } else if (cls == "clean" || cls == "magic") && origin != "client" {
                "marker_forged".into()
            } else {
                cls.clone()
            };
            let key = if rel.starts_with("ledger/1") && rel.ends_with("volatile/blocks-0.dat") { "<merged>".to_string() } else { rel.clone() };
            real_final.insert(key, origin.clone());
            let kgroup = match cls.as_str() {
                "ledger" | "volatile" | "imm" | "imm_dir_other" | "escaped" => cls.as_str(),
                // a file bearing the name of one of the client's own bootstrap markers is not "any other path": the client
                // rewrites both markers after the archives were unpacked, so none placed by an archive survives
                // (after a SUCCESSFUL download; `protocolMagicId` only for a known network -- in the other cases the client
                // writes no marker and what an archive placed there stays, like any other path)
                "clean" if res == "ok" => "client_marker_name",
                "magic" if res == "ok" && c.net == "known" => "client_marker_name",
                _ => "other_outside_immutable",
            };
            let whitelisted = match rel.strip_prefix("immutable/") {
                Some(name) => {
                    let first = name.split('/').next().unwrap().to_string();
                    (cls == "imm" && num <= whitelist_upper && first == format!("{:05}.{}", num, first.rsplit('.').next().unwrap_or(""))) || pre_imm_names.contains(&first)
                }
                None => false,
            };
            kept.push(json!({
                "ev": "Kept", "case": ix, "path": scrub_id(&rel).chars().take(60).collect::<String>(), "cls": cls, "num": num, "kind": kind,
                "origin": origin, "from": from, "heldBefore": held_before, "vouched": vouched,
                "kgroup": kgroup, "whitelisted": whitelisted, "ancManifest": anc_manifest_class,
                "lo": c.lo, "hi": c.hi, "includeAnc": c.anc, "ancGenuine": anc_genuine, "res": res,
            }));
        }
        let pred_match = match &c.pred_final {
            None => true,
            Some(pf) => c.pred_result == (if res == "ok" { "ok" } else if real_final.keys().eq(pre_files.keys()) && c.pred_result == "refused" { "refused" } else { "err" }) && *pf == real_final,
        };
        if !pred_match {
            self.bump("prediction_mismatches");
        }
        let err_short: String = scrub_id(&err.replace(base.to_string_lossy().as_ref(), "<case>")).chars().take(300).collect();
        let mut diff = json!([]);
        if let (false, Some(pf)) = (pred_match, &c.pred_final) {
            let all: BTreeSet<&String> = pf.keys().chain(real_final.keys()).collect();
            diff = json!(all.iter().filter(|k| pf.get(**k) != real_final.get(**k)).map(|k| json!([k, pf.get(*k).cloned().unwrap_or("-".into()), real_final.get(*k).cloned().unwrap_or("-".into())])).collect::<Vec<_>>());
        }
        self.trace.emit(json!({
            "ev": "Restore", "case": ix, "label": c.label, "N": c.n, "lo": c.lo, "hi": c.hi, "includeAnc": c.anc, "override": c.allow_override,
            "net": c.net, "conflict": c.conflict, "manifest": c.anc_manifest, "ancAt": c.anc_at, "ancStatus": c.anc_status, "ancGenuine": anc_genuine, "ancManifest": anc_manifest_class,
            "compression": algo, "res": res, "err": err_short, "files": kept.len(), "dirs": dirs,
            "pred_result": c.pred_result, "pred_match": pred_match, "pred_diff": diff,
        }));
        for k in kept {
            self.trace.emit(k);
        }
        let _ = std::fs::remove_dir_all(&base);
    }
}

fn push_extras(entries: &mut Vec<TarEntry>, extra: &[AP], src: &str, sandbox: &Path) {
    let mut link = false;
    for p in extra {
        if p.cls == "symlink" {
            link = true;
            continue;
        }
        let rel = real_path(p);
        let shown = rel.trim_start_matches('/').to_string();
        entries.push(TarEntry::File(rel, tagged(src, &shown)));
    }
    if link {
        // last: a symlink leaving the sandboxed target, then a file through it
        std::fs::create_dir_all(sandbox.join("outside")).unwrap();
        entries.push(TarEntry::Symlink("lnk".into(), sandbox.join("outside").to_string_lossy().into_owned()));
        entries.push(TarEntry::File("lnk/evil.txt".into(), tagged(src, "lnk/evil.txt")));
    }
}

fn case_of_json(v: &Value, ix: u64) -> Case {
    let origin = |s: &Value| -> String {
        match s["src"].as_str().unwrap() {
            "imm" => "imm_archive".to_string(),
            "anclink" => "anc_link".to_string(),
            x => x.to_string(),
        }
    };
    let pred_final = v["predFinal"].as_array().map(|a| {
        a.iter()
            .map(|e| {
                let p = ap_of(&e["p"]);
                let rel = if p.cls == "merged" { "<merged>".to_string() } else { real_path(&p).trim_start_matches('/').to_string() };
                (rel, origin(e))
            })
            .collect::<BTreeMap<_, _>>()
    });
    Case {
        n: v["N"].as_u64().unwrap(),
        lo: v["lo"].as_u64().unwrap(),
        hi: v["hi"].as_u64().unwrap(),
        anc: v["anc"].as_bool().unwrap(),
        allow_override: v["override"].as_bool().unwrap(),
        net: v["net"].as_str().unwrap().into(),
        conflict: v["conflict"].as_bool().unwrap(),
        pre: aps(&v["pre"]),
        arch: v["arch"].as_array().unwrap().iter().map(|a| ArchSpec { i: a["i"].as_u64().unwrap(), status: a["status"].as_str().unwrap().into(), extra: aps(&a["extra"]) }).collect(),
        anc_status: v["ancArch"]["status"].as_str().unwrap().into(),
        anc_manifest: v["ancArch"]["manifest"].as_str().unwrap().into(),
        anc_extra: aps(&v["ancArch"]["extra"]),
        anc_at: v["ancArch"]["at"].as_str().unwrap_or("file").into(),
        zstd: ix % 2 == 1,
        pred_result: v["predResult"].as_str().unwrap().into(),
        pred_final,
        label: v["label"].as_str().unwrap_or("gen").into(),
    }
}

fn hostile_pool(n: u64) -> Vec<AP> {
    let mut v = vec![
        ap("immjunk", 0, ""), ap("immsub", 0, ""), ap("ledger", 7, ""), ap("ledger", 1, ""), ap("volatile", 0, ""), ap("clean", 0, ""),
        ap("magic", 0, ""), ap("rootfile", 0, ""), ap("nested", 0, ""), ap("decoy", 0, ""), ap("manifest", 0, ""), ap("dotdot", 0, ""),
        ap("abs", 0, ""), ap("immuser", 0, ""), ap("userfile", 0, ""),
    ];
    for k in 0..=n + 2 {
        v.push(ap("imm", k as i64, EXTS[(k % 3) as usize]));
    }
    v
}

fn random_case(r: &mut ChaCha20Rng, ix: u64) -> Case {
    let n = 1 + below(r, 3);
    let lo = below(r, n + 1);
    let hi = lo + below(r, n - lo + 1);
    let anc = hi == n && below(r, 2) == 0;
    let pool = hostile_pool(n);
    let some = |r: &mut ChaCha20Rng, k: u64| -> Vec<AP> {
        let mut s = BTreeSet::new();
        for _ in 0..below(r, k + 1) {
            s.insert(pool[below(r, pool.len() as u64) as usize].clone());
        }
        s.into_iter().collect()
    };
    let mut arch = vec![];
    for i in lo..=hi {
        let status = match below(r, 12) {
            0 => "missing",
            1 => "corrupt",
            _ => "ok",
        };
        arch.push(ArchSpec { i, status: status.into(), extra: if below(r, 2) == 0 { some(r, 4) } else { vec![] } });
    }
    let variants = ["ok", "ok", "ok", "contentChanged", "entryAdded", "entryRemoved", "sigAltered", "sigMissing", "sigOtherKey", "manifestMissing",
                    "manifestGarbage", "listedFileMissing", "merged"];
    let pre_pool = [ap("userfile", 0, ""), ap("immuser", 0, ""), ap("imm", 0, "chunk"), ap("imm", hi as i64, "primary"), ap("ledger", 3, ""), ap("clean", 0, ""), ap("volatile", 0, "")];
    let mut pre: Vec<AP> = if below(r, 3) == 0 { pre_pool.iter().filter(|_| below(r, 2) == 0).cloned().collect() } else { vec![] };
    let conflict = anc && below(r, 10) == 0;
    if conflict {
        pre.push(ap("occupied", 1, ""));
    }
    Case {
        n, lo, hi, anc,
        allow_override: below(r, 4) != 0,
        net: if below(r, 2) == 0 { "known".into() } else { "unknown".into() },
        conflict,
        pre,
        arch,
        anc_status: if below(r, 10) == 0 { "missing".into() } else { "ok".into() },
        anc_manifest: variants[below(r, variants.len() as u64) as usize].into(),
        anc_extra: if below(r, 3) == 0 { some(r, 3).into_iter().filter(|p| p.cls != "manifest").collect() } else { vec![] },
        anc_at: ["file", "file", "file", "file", "dir", "link_in_same", "link_in_other", "link_out_same"][below(r, 8) as usize].into(),
        zstd: ix % 2 == 1,
        pred_result: "none".into(),
        pred_final: None,
        label: "random".into(),
    }
}

fn main() {
    quiet_panics();
    let a = Args::parse();
    let seed = a.num("seed", 1);
    let mode = a.get("mode").unwrap_or("cases".into());
    let work = PathBuf::from(a.get("work").unwrap_or("/verif/work/C19/fs".into()));
    fresh_dir(&work);
    let signer = ManifestSigner::create_test_signer(rng(seed, 42));
    let other_signer = ManifestSigner::create_test_signer(rng(seed, 43));
    let vk = signer.verification_key().to_json_hex().unwrap();
    let out = if mode == "confirm" { work.join("confirm.ndjson").to_string_lossy().into_owned() } else { a.req("out") };
    let mut run = Runner {
        rt: runtime(),
        client: build_client(&work.join("tmp"), Some(vk)),
        signer,
        other_signer,
        work: work.clone(),
        trace: Trace::create(&out),
        counts: BTreeMap::new(),
    };
    match mode.as_str() {
        "cases" => {
            for (i, v) in read_ndjson(a.req("cases")).iter().enumerate() {
                let c = case_of_json(v, i as u64);
                run.run_case(i as u64, &c);
            }
        }
        "random" => {
            for i in 0..a.num("runs", 200) {
                let mut r = rng(seed, 1900 + i);
                let c = random_case(&mut r, i);
                run.run_case(i, &c);
            }
        }
        "confirm" => {
            let honest = |i: u64| ArchSpec { i, status: "ok".into(), extra: vec![] };
            let basecase = Case {
                n: 3, lo: 2, hi: 3, anc: false, allow_override: false, net: "known".into(), conflict: false, pre: vec![],
                arch: vec![honest(2), honest(3)], anc_status: "ok".into(), anc_manifest: "ok".into(), anc_extra: vec![], anc_at: "file".into(), zstd: false,
                pred_result: "none".into(), pred_final: None, label: String::new(),
            };
            let mut c1 = basecase.clone();
            c1.label = "range 2..=3, no ancillary; archive of immutable 3 also carries ledger/7, volatile/blocks-0.dat, immutable/00000.chunk, immutable/junk.txt, evil.sh, ../escape.txt, clean".into();
            c1.arch[1].extra = vec![ap("ledger", 7, ""), ap("volatile", 0, ""), ap("imm", 0, "chunk"), ap("immjunk", 0, ""), ap("rootfile", 0, ""), ap("dotdot", 0, ""), ap("clean", 0, "")];
            let mut c2 = basecase.clone();
            c2.label = "range 2..=3 with genuine ancillary archive (honest run)".into();
            c2.anc = true;
            let mut c3 = c2.clone();
            c3.label = "ancillary manifest with two entries merged into one (same manifest hash, genuine signature)".into();
            c3.anc_manifest = "merged".into();
            let mut c4 = c2.clone();
            c4.label = "ancillary ledger file content changed".into();
            c4.anc_manifest = "contentChanged".into();
            let mut c5 = basecase.clone();
            c5.label = "archive of immutable 3 ends with a symlink leaving the target and a file through it".into();
            c5.arch[1].extra = vec![ap("symlink", 0, "")];
            let mut more = vec![];
            for k in ["dir", "link_in_same", "link_in_other", "link_out_same"] {
                let mut c = c2.clone();
                c.anc_at = k.into();
                c.label = format!("genuine signed manifest, but the archive holds at the listed path ledger/1: {k}");
                more.push(c);
            }
            let mut all = vec![c1, c2, c3, c4, c5];
            all.extend(more);
            for (i, c) in all.iter().enumerate() {
                run.run_case(i as u64, c);
            }
            run.trace.finish();
            for e in read_ndjson(&out) {
                if e["ev"] == "Restore" {
                    println!("\n== {}\n   download_unpack -> {} {}", e["label"].as_str().unwrap(), e["res"].as_str().unwrap(), e["err"].as_str().unwrap());
                } else {
                    println!("   {:<70} kind={:<18} origin={:<12} vouched={} ancGenuine={}", e["path"].as_str().unwrap(), e["kind"].as_str().unwrap(),
                             e["origin"].as_str().unwrap(), e["vouched"], e["ancGenuine"]);
                }
            }
            let _ = std::fs::remove_dir_all(&work);
            return;
        }
        m => panic!("unknown mode {m}"),
    }
    let _ = std::fs::remove_dir_all(&work);
    let events = run.trace.finish();
    let mut s = json!({"events": events});
    for (k, v) in &run.counts {
        s[k] = json!(v);
    }
    println!("{s}");
}
