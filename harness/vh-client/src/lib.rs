//! harness bins for the client / Cardano database family (C03 client path, C10, C12, C19)
pub mod dbkit;
