//! Shared helpers of the Cardano database bins (c12_digest, c10_verify, c19_download):
//! deterministic file contents for abstract content ids, content interning (abstract projection
//! of real bytes), scratch directories, recursive listings.
use std::collections::HashMap;
use std::path::{Path, PathBuf};

use sha2::{Digest, Sha256};
use vh_core::{RngCore, rng};

pub fn sha256_hex(bytes: &[u8]) -> String {
    hex::encode(Sha256::digest(bytes))
}

/// sizes of the plain contents (content id c has size SIZES[c % 10]); chosen around the buffer
/// sizes of the hashing code (64 KiB) and including tiny files
const SIZES: [usize; 10] = [3, 1, 17, 64, 4096, 65535, 65536, 65537, 150000, 33];

/// Real bytes of an abstract content id:
/// 0 = empty file; 1..=99 plain contents (seeded pseudo-random bytes);
/// 100+c / 200+c / 300+c / 400+c = content c with its last byte flipped / first byte flipped /
/// last byte removed / one byte appended.
pub fn content(seed: u64, cid: u64) -> Vec<u8> {
    match cid {
        0 => vec![],
        c if c >= 100 => {
            let mut v = content(seed, c % 100);
            match c / 100 {
                1 => {
                    if let Some(b) = v.last_mut() {
                        *b ^= 0x01;
                    }
                }
                2 => {
                    if let Some(b) = v.first_mut() {
                        *b ^= 0x80;
                    }
                }
                3 => {
                    v.pop();
                }
                4 => v.push(0x5a),
                k => panic!("unknown perturbation class {k}"),
            }
            v
        }
        c => {
            let mut v = vec![0u8; SIZES[(c % 10) as usize]];
            rng(seed, 10_000 + c).fill_bytes(&mut v);
            v
        }
    }
}

/// Interns real contents (by SHA-256 computed here, independently of the code under test) as small
/// integers: the abstract content id logged in events is recomputed from the real bytes.
#[derive(Default)]
pub struct Interner {
    ids: HashMap<String, u64>,
}

impl Interner {
    pub fn id_of_hash(&mut self, h: &str) -> u64 {
        let n = self.ids.len() as u64;
        *self.ids.entry(h.to_string()).or_insert(n)
    }
    pub fn id_of_bytes(&mut self, b: &[u8]) -> u64 {
        self.id_of_hash(&sha256_hex(b))
    }
    pub fn id_of_file(&mut self, p: &Path) -> u64 {
        let b = std::fs::read(p).unwrap_or_else(|e| panic!("cannot read {p:?}: {e}"));
        self.id_of_bytes(&b)
    }
    pub fn len(&self) -> usize {
        self.ids.len()
    }
    pub fn is_empty(&self) -> bool {
        self.ids.is_empty()
    }
}

/// `NNNNN.ext` with ext one of the three immutable extensions and a numeric stem -> (number, ext)
pub fn parse_immutable_name(name: &str) -> Option<(u64, String)> {
    let (stem, ext) = name.rsplit_once('.')?;
    if !["chunk", "primary", "secondary"].contains(&ext) {
        return None;
    }
    if stem.is_empty() || !stem.bytes().all(|b| b.is_ascii_digit()) {
        return None;
    }
    Some((stem.parse().ok()?, ext.to_string()))
}

pub fn write_file(path: &Path, bytes: &[u8]) {
    if let Some(p) = path.parent() {
        std::fs::create_dir_all(p).unwrap_or_else(|e| panic!("mkdir {p:?}: {e}"));
    }
    std::fs::write(path, bytes).unwrap_or_else(|e| panic!("write {path:?}: {e}"));
}

pub fn fresh_dir(path: &Path) {
    let _ = std::fs::remove_dir_all(path);
    std::fs::create_dir_all(path).unwrap_or_else(|e| panic!("mkdir {path:?}: {e}"));
}

/// names of the children of `dir` in the order readdir returns them
pub fn readdir_order(dir: &Path) -> Vec<String> {
    std::fs::read_dir(dir)
        .unwrap_or_else(|e| panic!("readdir {dir:?}: {e}"))
        .map(|e| e.unwrap().file_name().to_string_lossy().into_owned())
        .collect()
}

/// every file / symlink / empty directory below `root`, as sorted relative paths
/// (directories get a trailing '/')
pub fn list_recursive(root: &Path) -> Vec<String> {
    fn go(root: &Path, dir: &Path, out: &mut Vec<String>) {
        let mut entries: Vec<PathBuf> = match std::fs::read_dir(dir) {
            Ok(rd) => rd.map(|e| e.unwrap().path()).collect(),
            Err(_) => return,
        };
        entries.sort();
        for p in entries {
            let rel = p.strip_prefix(root).unwrap().to_string_lossy().into_owned();
            let md = std::fs::symlink_metadata(&p).unwrap();
            if md.is_dir() {
                let before = out.len();
                go(root, &p, out);
                if out.len() == before {
                    out.push(format!("{rel}/"));
                }
            } else {
                out.push(rel);
            }
        }
    }
    let mut out = vec![];
    go(root, root, &mut out);
    out
}

pub fn discard_logger() -> slog::Logger {
    slog::Logger::root(slog::Discard, slog::o!())
}

pub fn runtime() -> tokio::runtime::Runtime {
    tokio::runtime::Builder::new_multi_thread()
        .worker_threads(2)
        .enable_all()
        .build()
        .expect("tokio runtime")
}

/// The real mithril client (real `HttpFileDownloader`, `file://` locations are read from disk),
/// built through the public `ClientBuilder`. The aggregator endpoint is never contacted by the
/// Cardano database download / verification functions.  Temporary directories of the client go
/// below `tmp`.  The only deviation from the default wiring: the retry policy of the downloader is
/// `never` (the default waits 2 x 5 s before giving up on a failing location).
pub fn build_client(tmp: &Path, ancillary_verification_key: Option<String>) -> mithril_client::Client {
    std::fs::create_dir_all(tmp).unwrap();
    // TimestampTempDirectoryProvider uses std::env::temp_dir()
    unsafe { std::env::set_var("TMPDIR", tmp) };
    let genesis_vk = mithril_common::test::double::fake_keys::genesis_verification_key()[0];
    mithril_client::ClientBuilder::new(mithril_client::AggregatorDiscoveryType::Url("http://127.0.0.1:9/aggregator".to_string()))
        .set_genesis_verification_key(mithril_client::GenesisVerificationKey::JsonHex(genesis_vk.to_string()))
        .set_ancillary_verification_key(ancillary_verification_key)
        .with_http_file_downloader(std::sync::Arc::new(mithril_client::file_downloader::RetryDownloader::new(
            std::sync::Arc::new(
                mithril_client::file_downloader::HttpFileDownloader::new(mithril_client::feedback::FeedbackSender::new(&[]), discard_logger())
                    .expect("http file downloader"),
            ),
            mithril_client::file_downloader::FileDownloadRetryPolicy::never(),
        )))
        .with_logger(discard_logger())
        .build()
        .expect("client")
}

pub fn file_uri(p: &Path) -> String {
    format!("file://{}", p.to_string_lossy())
}
