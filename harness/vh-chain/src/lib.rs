//! harness bins for the chain importer family (C13)
