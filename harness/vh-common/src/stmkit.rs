//! Realiser for abstract STM worlds: real BLS keys, real registration, real signatures.
use mithril_stm::{
    AggregateSignature, AggregateSignatureType, AggregateVerificationKey, AncillaryGenesisData,
    AncillaryProofInput, Clerk, ClosedKeyRegistration, Initializer, KeyRegistration,
    MithrilMembershipDigest, Parameters, Signer, SingleSignature, Stake, StmResult,
    VerificationKeyForConcatenation,
};
use rand_chacha::ChaCha20Rng;

pub type D = MithrilMembershipDigest;

pub struct World {
    pub params: Parameters,
    pub initializers: Vec<Initializer>,
    pub signers: Vec<Signer<D>>,
    /// (vk, stake) in *party* order (party i = i-th initializer)
    pub parties: Vec<(VerificationKeyForConcatenation, Stake)>,
    pub closed: ClosedKeyRegistration,
    pub clerk: Clerk<D>,
    pub avk: AggregateVerificationKey<D>,
    /// signers of the same registration under phi_f = 1 (they win every index: used to obtain a
    /// party's signature value on any message)
    pub all_signers: Vec<Signer<D>>,
}

impl World {
    pub fn new(params: Parameters, stakes: &[Stake], rng: &mut ChaCha20Rng) -> World {
        let mut key_reg = KeyRegistration::initialize();
        let mut initializers = vec![];
        let mut parties = vec![];
        for &stake in stakes {
            let p = Initializer::new(params, stake, rng);
            key_reg.register_by_entry(&p.clone().try_into().unwrap()).unwrap();
            parties.push((p.get_verification_key_proof_of_possession_for_concatenation().vk, stake));
            initializers.push(p);
        }
        let closed = key_reg.close_registration(&params).unwrap();
        let signers: Vec<Signer<D>> = initializers
            .iter()
            .cloned()
            .map(|p| p.try_create_signer::<D>(&closed).unwrap())
            .collect();
        let clerk = Clerk::new_clerk_from_signer(&signers[0]);
        let avk = clerk.compute_aggregate_verification_key();
        let mut w = World { params, initializers, signers, parties, closed, clerk, avk, all_signers: vec![] };
        let all = Parameters { m: 1, k: 1, phi_f: 1.0 };
        w.all_signers = (0..stakes.len()).map(|q| w.signer_with_params(q, all)).collect();
        w
    }

    /// A signer of the same registration but with other protocol parameters (used to learn the
    /// lottery outcome of indices beyond `m - 1`).
    pub fn signer_with_params(&self, party: usize, params: Parameters) -> Signer<D> {
        // Initializer keeps its keys; only the parameters differ
        let mut init = self.initializers[party].clone();
        init.parameters = params;
        let mut key_reg = KeyRegistration::initialize();
        for i in &self.initializers {
            key_reg.register_by_entry(&i.clone().try_into().unwrap()).unwrap();
        }
        let closed = key_reg.close_registration(&params).unwrap();
        init.try_create_signer::<D>(&closed).unwrap()
    }

    pub fn aggregate(&self, sigs: &[SingleSignature], msg: &[u8]) -> StmResult<AggregateSignature<D>> {
        let ancillary_input = AncillaryProofInput::new(None, AncillaryGenesisData::new());
        self.clerk
            .aggregate_signatures_with_type(sigs, msg, AggregateSignatureType::Concatenation, ancillary_input)
            .map(|(a, _)| a)
    }

    pub fn verify(&self, agg: &AggregateSignature<D>, msg: &[u8], params: &Parameters) -> StmResult<()> {
        agg.verify(msg, &self.avk, params, None, None)
    }
}
