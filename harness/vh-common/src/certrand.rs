//! Seeded random abstract universes for C03 (same JSON shape as the cases TLC prints from
//! spec/cert/MC_CertGen.tla): an honest chain, certificates derived from it by stacks of field
//! alterations (hash recomputed or not) and forgeries signed by arbitrary key families, and an
//! untrusted provider that answers with id-matching, wrong or missing certificates.
use vh_core::{ChaCha20Rng, Value, below, json, rng};

const KEYS: [&str; 5] = ["H2", "H3", "H4", "H5", "A"];
const PARS: [&str; 2] = ["p", "q"];

fn key_of(e: u64) -> String {
    format!("H{e}")
}
fn par_of(e: u64) -> &'static str {
    if e <= 2 { "p" } else { "q" }
}

/// a twin of a key name (same Merkle commitment, other total stake / other number of leaves)
fn key_twin(r: &mut ChaCha20Rng, k: &str) -> String {
    if k.contains('/') || k == "none" {
        return k.to_string();
    }
    format!("{k}/{}", if below(r, 3) == 0 { "n" } else { "s" })
}

/// a twin of a parameter name: one of k, m, phi_f changed (/e: phi_f changed below the protocol's
/// fixed-point precision -- the same parameters for the protocol)
fn par_twin(r: &mut ChaCha20Rng, p: &str) -> String {
    if p.contains('/') || p == "none" {
        return p.to_string();
    }
    format!("{p}/{}", pick(r, &["k", "m", "f", "g", "e"]))
}

fn pick<'a, T>(r: &mut ChaCha20Rng, xs: &'a [T]) -> &'a T {
    &xs[below(r, xs.len() as u64) as usize]
}

fn honest_chain(r: &mut ChaCha20Rng) -> Vec<Value> {
    let n = 3 + below(r, 4) as usize;
    let mut epochs = vec![1u64];
    for i in 1..n {
        let last = epochs[i - 1];
        // the certificate after the genesis one is in the next epoch
        let e = if i == 1 || (below(r, 2) == 0 && last < 4) { last + 1 } else { last };
        epochs.push(e.min(4));
    }
    let first_of = |e: u64| epochs.iter().position(|x| *x == e).unwrap();
    let mut out = vec![];
    for (i, &e) in epochs.iter().enumerate() {
        let prev = if i == 0 {
            String::new()
        } else if first_of(e) == i {
            format!("h{}", first_of(e - 1) + 1)
        } else {
            format!("h{}", first_of(e) + 1)
        };
        out.push(json!({
            "id": format!("h{}", i + 1), "prev": prev, "epoch": e,
            "kind": if i == 0 { "genesis" } else { "std" },
            "avk": if i == 0 { key_of(e + 1) } else { key_of(e) }, "params": par_of(e), "msgEpoch": e,
            "nextAvk": key_of(e + 1), "nextParams": par_of(e + 1),
            "hashOk": true, "signedMsgOk": true,
            "sigBy": if i == 0 { "none".to_string() } else { key_of(e) },
            "genSigOk": i == 0,
        }));
    }
    out
}

fn ids(u: &[Value]) -> Vec<String> {
    let mut v: Vec<String> = u.iter().map(|c| c["id"].as_str().unwrap().to_string()).collect();
    v.sort();
    v.dedup();
    v
}

/// one random alteration of a certificate (in place); returns a short description
fn alter(r: &mut ChaCha20Rng, c: &mut Value, all_ids: &[String]) -> String {
    let own = c["id"].as_str().unwrap().to_string();
    match below(r, 17) {
        12 => {
            // the certificate's own key, one component changed (the genuine signature stays put)
            c["avk"] = json!(key_twin(r, c["avk"].as_str().unwrap()));
            "avkTwin".into()
        }
        13 => {
            // ... and one genuine signer alone signs under the shrunken-stake twin
            let k = c["avk"].as_str().unwrap().to_string();
            if !k.contains('/') && k != "none" && c["kind"] == json!("std") {
                c["avk"] = json!(format!("{k}/s"));
                c["sigBy"] = json!(format!("{k}/s"));
                c["signedMsgOk"] = json!(true);
            }
            "loneSignerTwin".into()
        }
        14 => {
            c["nextAvk"] = json!(key_twin(r, c["nextAvk"].as_str().unwrap()));
            c["signedMsgOk"] = json!(below(r, 2) == 0);
            "nextAvkTwin".into()
        }
        15 => {
            c["params"] = json!(par_twin(r, c["params"].as_str().unwrap()));
            "paramsTwin".into()
        }
        16 => {
            c["nextParams"] = json!(par_twin(r, c["nextParams"].as_str().unwrap()));
            c["signedMsgOk"] = json!(below(r, 2) == 0);
            "nextParamsTwin".into()
        }
        0 => {
            let mut cands: Vec<String> = all_ids.to_vec();
            cands.push(String::new());
            cands.push("junk".into());
            cands.push(own);
            c["prev"] = json!(pick(r, &cands));
            "prev".into()
        }
        1 => {
            c["epoch"] = json!(1 + below(r, 5));
            "epoch".into()
        }
        2 => {
            c["avk"] = json!(pick(r, &KEYS));
            "avk".into()
        }
        3 => {
            c["params"] = json!(pick(r, &PARS));
            "params".into()
        }
        4 => {
            c["msgEpoch"] = json!(below(r, 6));
            c["signedMsgOk"] = json!(below(r, 2) == 0);
            "msgEpoch".into()
        }
        5 => {
            let mut k: Vec<&str> = KEYS.to_vec();
            k.push("none");
            c["nextAvk"] = json!(pick(r, &k));
            c["signedMsgOk"] = json!(below(r, 2) == 0);
            "nextAvk".into()
        }
        6 => {
            c["nextParams"] = json!(pick(r, &["p", "q", "none"]));
            c["signedMsgOk"] = json!(below(r, 2) == 0);
            "nextParams".into()
        }
        7 => {
            c["signedMsgOk"] = json!(false);
            "signedMsg".into()
        }
        8 => {
            let mut k: Vec<&str> = KEYS.to_vec();
            k.push("none");
            c["sigBy"] = json!(pick(r, &k));
            "sigBy".into()
        }
        9 => {
            // re-signed by a consistent key family: key, signature and epoch claims move together
            let k = *pick(r, &KEYS);
            c["avk"] = json!(k);
            c["sigBy"] = json!(k);
            c["signedMsgOk"] = json!(true);
            if below(r, 2) == 0 {
                let e = 1 + below(r, 4);
                c["epoch"] = json!(e);
                c["msgEpoch"] = json!(e);
            }
            "resign".into()
        }
        10 => {
            let g = c["kind"] == json!("genesis");
            c["kind"] = json!(if g { "std" } else { "genesis" });
            "kind".into()
        }
        _ => {
            c["genSigOk"] = json!(!c["genSigOk"].as_bool().unwrap());
            "genSigOk".into()
        }
    }
}

fn derive(r: &mut ChaCha20Rng, u: &mut Vec<Value>, serial: &mut u64) -> String {
    let all = ids(u);
    let base = pick(r, u).clone();
    let mut c = base.clone();
    let k = 1 + below(r, 3);
    let mut what = vec![];
    for _ in 0..k {
        what.push(alter(r, &mut c, &all));
    }
    if below(r, 3) != 0 {
        *serial += 1;
        c["id"] = json!(format!("{}~{}", base["id"].as_str().unwrap(), serial));
        c["hashOk"] = json!(true);
    } else {
        c["hashOk"] = json!(false);
    }
    u.push(c);
    what.join("+")
}

/// the provider's scripted answers along the walk the verifier is expected to take
fn script(r: &mut ChaCha20Rng, u: &[Value], start: usize, steps: usize) -> Vec<usize> {
    let mut serve = vec![];
    let mut cur = start;
    for _ in 0..steps {
        let want = u[cur - 1]["prev"].as_str().unwrap();
        let matching: Vec<usize> = (1..=u.len()).filter(|i| u[i - 1]["id"].as_str().unwrap() == want).collect();
        let a = match below(r, 10) {
            0 => 0,
            1 => 1 + below(r, u.len() as u64) as usize,
            _ if matching.is_empty() => 0,
            _ => *pick(r, &matching),
        };
        serve.push(a);
        if a == 0 {
            break;
        }
        cur = a;
    }
    serve
}

pub fn random_cases(seed: u64, n: usize, client: bool) -> Vec<Value> {
    let mut out = vec![];
    for i in 0..n {
        let mut r = rng(seed, 0xC03_0000 + i as u64 + if client { 1 << 32 } else { 0 });
        let mut u = honest_chain(&mut r);
        let honest_n = u.len();
        let mut serial = 0u64;
        let mut cls = vec![];
        for _ in 0..(1 + below(&mut r, 4)) {
            cls.push(derive(&mut r, &mut u, &mut serial));
        }
        let pick_start = |r: &mut ChaCha20Rng, u: &Vec<Value>| -> usize {
            if below(r, 4) == 0 { 1 + below(r, honest_n as u64) as usize } else { honest_n + 1 + below(r, (u.len() - honest_n) as u64) as usize }
        };
        if !client {
            let start = pick_start(&mut r, &u);
            let serve = script(&mut r, &u, start, 8);
            out.push(json!({"certs": u, "start": start, "serve": serve, "cls": format!("random:{}", cls.join(","))}));
        } else {
            let warm = if below(&mut r, 2) == 0 { vec![honest_n] } else { vec![] };
            let mut attempts = vec![];
            for _ in 0..(1 + below(&mut r, 3)) {
                let start = pick_start(&mut r, &u);
                let serve = script(&mut r, &u, start, 8);
                attempts.push(json!({"start": start, "serve": serve}));
            }
            // a retry of an earlier attempt is the interesting history for a persistent cache
            if below(&mut r, 2) == 0 {
                let a = attempts[0].clone();
                attempts.push(a);
            }
            out.push(json!({"certs": u, "warm": warm, "attempts": attempts, "cls": format!("random:{}", cls.join(","))}));
        }
    }
    out
}
