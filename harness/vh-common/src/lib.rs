//! Shared realisers for the STM-level harness binaries.
pub mod stmkit;
