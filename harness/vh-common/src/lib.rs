//! Shared realisers for the STM-level harness binaries.
pub mod stmkit;
pub mod certkit;
pub mod certrand;
pub use chrono;
pub use slog;
