//! C07 — shared realiser and *independent* oracles for signer-registration checks.
//! Included by path from `vh-common/src/bin/c07_reg.rs` and `vh-aggregator/src/bin/c07_round.rs`
//! (it is not a module of the vh-common library).
//!
//! Realiser: three pools A, B, C, each with a real Ed25519 cold key, a real Sum6 KES key (secret
//! state kept for every evolution 0..=63), a real operational certificate and a real BLS key with
//! its proof of possession (made by the signer-side code, `ProtocolInitializer::setup`, through an
//! in-memory `KesSigner`), plus the *negated* BLS key of each pool (a different key whose negated
//! proof of possession is valid).
//!
//! Oracles (what the logged projection is computed with — never the code under test):
//!   * operational certificate: `ed25519_dalek::VerifyingKey::verify` over the 48-byte body built here
//!   * KES: `kes_summed_ed25519::Sum6KesSig::verify` at every genuine evolution 0..=63
//!   * proof of possession: blst directly (k1 = BLS signature on "PoP"; e(k2, g2) = e(g1, vk))
//!   * pool id: blake2b-224 of the cold key, bech32 "pool", computed here
#![allow(dead_code)]
use std::collections::{BTreeMap, HashMap};
use std::sync::{Arc, Mutex};

use blake2::{Blake2b, Digest, digest::consts::U28};
use ed25519_dalek::{Signature as EdSig, Signer as _, SigningKey, Verifier as _, VerifyingKey};
use kes_summed_ed25519::PublicKey as KesVk;
use kes_summed_ed25519::kes::{Sum6Kes, Sum6KesSig};
use kes_summed_ed25519::traits::{KesSig, KesSk};
use mithril_common::StdResult;
use mithril_common::crypto_helper::{
    KesPeriod, KesSigner, OpCert, OpCertWithoutColdVerificationKey, ProtocolInitializer,
};
use mithril_stm::{Parameters, VerificationKeyProofOfPossessionForConcatenation as VkPop};
use serde_json::{Value, json};

pub const LAST_EVO: u64 = 63;
pub const POOLS: [&str; 3] = ["A", "B", "C"];

/// in-memory KES signer (the repository's `KesSignerStandard` reads files on every call)
pub struct MemKesSigner {
    pub states: Vec<Vec<u8>>,
    pub opcert: OpCert,
}

impl KesSigner for MemKesSigner {
    fn sign(&self, message: &[u8], current_kes_period: KesPeriod) -> StdResult<(Sum6KesSig, OpCert)> {
        let start = self.opcert.get_start_kes_period();
        if start > current_kes_period {
            anyhow::bail!("period mismatch");
        }
        let evo = *(current_kes_period - start) as usize;
        let mut b = self.states.get(evo).ok_or_else(|| anyhow::anyhow!("KES key cannot evolve to {evo}"))?.clone();
        let sk = Sum6Kes::from_bytes(&mut b).map_err(|e| anyhow::anyhow!("{e:?}"))?;
        Ok((sk.sign(message), self.opcert.clone()))
    }
}

pub struct PoolMat {
    pub label: &'static str,
    pub cold_sk: SigningKey,
    pub cold_vk: VerifyingKey,
    pub pool_id: String,
    pub kes_vk: KesVk,
    pub kes_states: Vec<Vec<u8>>,
    pub start: u64,
    pub opcert: OpCert,
    pub vkpop: VkPop,
    pub neg: VkPop,
}

pub struct Material {
    pub pools: Vec<PoolMat>,
    /// label -> (vk bytes, pop bytes) for A, B, C, nA, nB, nC
    pub keys: BTreeMap<String, ([u8; 96], [u8; 96])>,
    /// a valid BLS key + PoP that belongs to nobody and is in no table ("none" halves)
    pub stray: VkPop,
    half_cache: Mutex<HashMap<(u8, Vec<u8>), String>>,
}

fn seed32(seed: u64, tag: u8, pool: u8) -> [u8; 32] {
    let mut s = [0u8; 32];
    s[..8].copy_from_slice(&seed.to_le_bytes());
    s[8] = tag;
    s[9] = pool;
    s[31] = 0xc7;
    s
}

/// pool id as Cardano defines it, computed independently of `OpCert::compute_protocol_party_id`
pub fn pool_id_of(cold_vk: &VerifyingKey) -> String {
    let mut h = Blake2b::<U28>::new();
    h.update(cold_vk.as_bytes());
    let d = h.finalize();
    bech32::encode::<bech32::Bech32>(bech32::Hrp::parse("pool").unwrap(), d.as_slice()).unwrap()
}

/// the 48-byte message an operational certificate signs: kes vk || issue number || start period
pub fn opcert_body(kes_vk: &[u8], issue: u64, start: u64) -> [u8; 48] {
    let mut m = [0u8; 48];
    m[..32].copy_from_slice(kes_vk);
    m[32..40].copy_from_slice(&issue.to_be_bytes());
    m[40..48].copy_from_slice(&start.to_be_bytes());
    m
}

pub fn make_opcert(kes_vk: &[u8], issue: u64, start: u64, cert_sig: &[u8; 64], cold_vk: &VerifyingKey) -> OpCert {
    let w = OpCertWithoutColdVerificationKey::try_new(kes_vk, issue, KesPeriod(start), cert_sig).expect("opcert parts");
    OpCert::from((w, *cold_vk))
}

pub fn negate(v: &VkPop) -> VkPop {
    let mut j = serde_json::to_value(v).unwrap();
    for (f, i) in [("vk", 0usize), ("pop", 0), ("pop", 48)] {
        let b = j[f][i].as_u64().unwrap();
        j[f][i] = json!(b ^ 0x20);
    }
    serde_json::from_value(j).expect("negated key decodes")
}

pub fn split(v: &VkPop) -> ([u8; 96], [u8; 96]) {
    let b = v.to_bytes();
    let mut vk = [0u8; 96];
    let mut pop = [0u8; 96];
    vk.copy_from_slice(&b[..96]);
    pop.copy_from_slice(&b[96..]);
    (vk, pop)
}

pub fn join(vk: &[u8; 96], pop: &[u8; 96]) -> Option<VkPop> {
    let mut b = [0u8; 192];
    b[..96].copy_from_slice(vk);
    b[96..].copy_from_slice(pop);
    VkPop::from_bytes(&b).ok()
}

/// Independent proof-of-possession oracle: (k1 valid for vk, k2 valid for vk)
pub fn pop_halves_ok(vk: &[u8; 96], k1: &[u8], k2: &[u8]) -> (bool, bool) {
    use blst::{BLST_ERROR, blst_fp12, blst_fp12_finalverify, blst_p1_affine, blst_p1_affine_generator, blst_p1_affine_in_g1,
               blst_p1_uncompress, blst_p2_affine, blst_p2_affine_generator, blst_p2_affine_in_g2, blst_p2_uncompress};
    let Ok(pk) = blst::min_sig::PublicKey::key_validate(vk) else { return (false, false) };
    let k1_ok = match blst::min_sig::Signature::from_bytes(k1) {
        Ok(sig) => sig.verify(true, b"PoP", &[], &[], &pk, true) == BLST_ERROR::BLST_SUCCESS,
        Err(_) => false,
    };
    let k2_ok = unsafe {
        let mut k2a = blst_p1_affine::default();
        let mut vka = blst_p2_affine::default();
        if k2.len() != 48
            || blst_p1_uncompress(&mut k2a, k2.as_ptr()) != BLST_ERROR::BLST_SUCCESS
            || blst_p2_uncompress(&mut vka, vk.as_ptr()) != BLST_ERROR::BLST_SUCCESS
            || !blst_p1_affine_in_g1(&k2a)
            || !blst_p2_affine_in_g2(&vka)
        {
            false
        } else {
            let lhs = blst_fp12::miller_loop(&vka, &*blst_p1_affine_generator());
            let rhs = blst_fp12::miller_loop(&*blst_p2_affine_generator(), &k2a);
            blst_fp12_finalverify(&lhs, &rhs)
        }
    };
    (k1_ok, k2_ok)
}

fn short(b: &[u8]) -> String {
    format!("x{}", hex::encode(&b[..b.len().min(8)]))
}

impl Material {
    pub fn new(seed: u64, starts: [u64; 3]) -> Self {
        let params = Parameters { k: 2, m: 10, phi_f: 0.8 };
        let mut pools = vec![];
        let mut keys = BTreeMap::new();
        for (i, label) in POOLS.iter().enumerate() {
            let cold_sk = SigningKey::from_bytes(&seed32(seed, 1, i as u8));
            let cold_vk = cold_sk.verifying_key();
            let mut buf = vec![0u8; Sum6Kes::SIZE + 4];
            let mut kseed = seed32(seed, 2, i as u8);
            let mut kes_states = vec![];
            let kes_vk = {
                let (mut sk, vk) = Sum6Kes::keygen(&mut buf, &mut kseed);
                for t in 0..=LAST_EVO {
                    kes_states.push(sk.as_bytes().to_vec());
                    if t < LAST_EVO {
                        sk.update().expect("KES update");
                    }
                }
                assert!(sk.update().is_err(), "a Sum6 KES key has exactly 64 periods");
                vk
            };
            let start = starts[i];
            let sig = cold_sk.sign(&opcert_body(kes_vk.as_bytes(), 0, start));
            let opcert = make_opcert(kes_vk.as_bytes(), 0, start, &sig.to_bytes(), &cold_vk);
            // honest BLS key + PoP through the signer-side code path
            let signer = Arc::new(MemKesSigner { states: kes_states.clone(), opcert: opcert.clone() });
            let mut r = vh_core::rng(seed, 700 + i as u64);
            let init = ProtocolInitializer::setup(params, Some(signer), Some(KesPeriod(start)), 1, &mut r).expect("initializer");
            let vkpop = init.verification_key_for_concatenation();
            let neg = negate(&vkpop);
            keys.insert(label.to_string(), split(&vkpop));
            keys.insert(format!("n{label}"), split(&neg));
            pools.push(PoolMat { label, cold_sk, cold_vk, pool_id: pool_id_of(&cold_vk), kes_vk, kes_states, start, opcert, vkpop, neg });
        }
        let mut r = vh_core::rng(seed, 799);
        let stray = mithril_stm::Initializer::new(params, 1, &mut r).get_verification_key_proof_of_possession_for_concatenation();
        Self { pools, keys, stray, half_cache: Mutex::new(HashMap::new()) }
    }

    pub fn pool(&self, label: &str) -> &PoolMat {
        self.pools.iter().find(|p| p.label == label).unwrap_or_else(|| panic!("no pool {label}"))
    }

    pub fn kes_sign(&self, pool: &str, evo: u64, msg: &[u8]) -> Sum6KesSig {
        let mut b = self.pool(pool).kes_states[evo as usize].clone();
        let sk = Sum6Kes::from_bytes(&mut b).unwrap();
        sk.sign(msg)
    }

    // ---------------------------------------------------------------- labels (exact identity classes)
    pub fn label_cold(&self, vk: &VerifyingKey) -> String {
        self.pools.iter().find(|p| p.cold_vk == *vk).map(|p| p.label.to_string()).unwrap_or_else(|| short(vk.as_bytes()))
    }
    pub fn label_kes_vk(&self, vk: &KesVk) -> String {
        self.pools.iter().find(|p| p.kes_vk == *vk).map(|p| p.label.to_string()).unwrap_or_else(|| short(vk.as_bytes()))
    }
    pub fn label_vk(&self, vk: &[u8; 96]) -> String {
        self.keys.iter().find(|(_, (k, _))| k == vk).map(|(l, _)| l.clone()).unwrap_or_else(|| short(vk))
    }
    pub fn label_pool_id(&self, id: &str) -> String {
        if id.is_empty() {
            return "none".into();
        }
        self.pools.iter().find(|p| p.pool_id == id).map(|p| p.label.to_string()).unwrap_or_else(|| format!("x{id}"))
    }

    /// which key a proof-of-possession half is valid for: the registration's own key first, then the
    /// known keys; "none" if it proves possession of none of them
    pub fn label_half(&self, which: u8, half: &[u8], own_vk: &[u8; 96]) -> String {
        let ok = |vk: &[u8; 96]| {
            let (a, b) = if which == 1 { pop_halves_ok(vk, half, &[]) } else { pop_halves_ok(vk, &[], half) };
            if which == 1 { a } else { b }
        };
        let own_label = self.label_vk(own_vk);
        if !self.keys.contains_key(&own_label) && ok(own_vk) {
            return own_label;
        }
        if let Some(l) = self.half_cache.lock().unwrap().get(&(which, half.to_vec())) {
            return l.clone();
        }
        let l = self.keys.iter().find(|(_, (k, _))| ok(k)).map(|(l, _)| l.clone()).unwrap_or_else(|| "none".to_string());
        self.half_cache.lock().unwrap().insert((which, half.to_vec()), l.clone());
        l
    }

    // ---------------------------------------------------------------- projection of a real registration
    /// Abstract projection (shape of `Registration.tla` registrations) recomputed from real values.
    pub fn project(
        &self,
        opcert: Option<&OpCert>,
        kes_sig: Option<&Sum6KesSig>,
        vkpop: &VkPop,
        claimed_party: Option<&str>,
        claimed_stake: Option<&str>,
        announced: Option<u64>,
    ) -> Value {
        let (vk, pop) = split(vkpop);
        let vk_label = self.label_vk(&vk);
        let k1 = self.label_half(1, &pop[..48], &vk);
        let k2 = self.label_half(2, &pop[48..], &vk);
        let mut actual = [0u8; 192];
        actual[..96].copy_from_slice(&vk);
        actual[96..].copy_from_slice(&pop);
        // operational certificate
        let (cold, cert, cert_kes_vk) = match opcert {
            None => ("none".to_string(), json!({"issuer":"none","kesVk":"none","sigOk":false,"start":0}), None),
            Some(c) => {
                let kes_vk = c.get_kes_verification_key();
                let cold_vk = c.get_cold_verification_key();
                let sig = EdSig::from_bytes(&c.get_certificate_signature().to_bytes());
                let body = opcert_body(kes_vk.as_bytes(), c.get_issue_number(), *c.get_start_kes_period());
                // who signed it, and is it a signature of *this* body
                let mut cands: Vec<(String, VerifyingKey)> = vec![(self.label_cold(&cold_vk), cold_vk)];
                cands.extend(self.pools.iter().map(|p| (p.label.to_string(), p.cold_vk)));
                let mut issuer = "none".to_string();
                let mut sig_ok = false;
                for (l, k) in &cands {
                    if k.verify(&body, &sig).is_ok() {
                        issuer = l.clone();
                        sig_ok = true;
                        break;
                    }
                }
                if !sig_ok {
                    // a signature by a known key over the *honest* body of a known pool (altered body)
                    'outer: for (l, k) in &cands {
                        for p in &self.pools {
                            let cs = *c.get_start_kes_period();
                            for st in [p.start, cs, cs.wrapping_add(1), cs.wrapping_sub(1)] {
                                for iss in [0u64, c.get_issue_number()] {
                                    if k.verify(&opcert_body(p.kes_vk.as_bytes(), iss, st), &sig).is_ok() {
                                        issuer = l.clone();
                                        break 'outer;
                                    }
                                }
                            }
                        }
                    }
                }
                (
                    self.label_cold(&cold_vk),
                    json!({"issuer": issuer, "kesVk": self.label_kes_vk(&kes_vk), "sigOk": sig_ok,
                           "start": (*c.get_start_kes_period()).min(1_000_000)}),
                    Some(kes_vk),
                )
            }
        };
        // KES signature: which key, which evolution, over which bytes
        let kes = match kes_sig {
            None => json!({"byKes":"none","evo":-1,"overVk":"none","overPop":false}),
            Some(s) => {
                let mut keys: Vec<(String, KesVk)> = vec![];
                if let Some(k) = cert_kes_vk {
                    keys.push((self.label_kes_vk(&k), k));
                }
                keys.extend(self.pools.iter().map(|p| (p.label.to_string(), p.kes_vk)));
                // candidate messages: the registration's own bytes first, then every known
                // verification key followed by every known proof of possession
                let mut vks: Vec<(String, [u8; 96])> = vec![(vk_label.clone(), vk)];
                vks.extend(self.keys.iter().filter(|(_, (kv, _))| *kv != vk).map(|(l, (kv, _))| (l.clone(), *kv)));
                let mut pops: Vec<[u8; 96]> = vec![pop];
                pops.extend(self.keys.values().map(|(_, kp)| *kp).filter(|kp| *kp != pop));
                pops.push(split(&self.stray).1);
                let mut msgs: Vec<(String, bool, Vec<u8>)> = vec![];
                for (l, kv) in &vks {
                    for kp in &pops {
                        let mut m = kv.to_vec();
                        m.extend_from_slice(kp);
                        msgs.push((l.clone(), *kp == pop, m));
                    }
                }
                let mut found = json!({"byKes":"none","evo":-1,"overVk":"none","overPop":false});
                'search: for (ml, same_pop, m) in &msgs {
                    for (kl, k) in &keys {
                        for t in 0..=LAST_EVO {
                            if s.verify(t as u32, k, m).is_ok() {
                                found = json!({"byKes": kl, "evo": t, "overVk": ml, "overPop": same_pop});
                                break 'search;
                            }
                        }
                    }
                }
                found
            }
        };
        let ann = announced.unwrap_or(0);
        json!({
            "hasCert": opcert.is_some(),
            "cold": cold,
            "opcert": cert,
            "kesSig": kes,
            "vk": vk_label,
            "pop": {"k1": k1, "k2": k2},
            "claimedParty": claimed_party.map(|p| self.label_pool_id(p)).unwrap_or_else(|| "none".into()),
            "claimedStake": claimed_stake.unwrap_or("none"),
            "hasEvo": announced.is_some(),
            "announcedEvo": ann.min(100_000),
            "announcedExact": ann.to_string(),
        })
    }

    /// stake distribution with pool ids translated to labels (independently computed pool ids)
    pub fn project_dist(&self, dist: &[(String, u64)]) -> Value {
        let mut m = serde_json::Map::new();
        for (id, s) in dist {
            m.insert(self.label_pool_id(id), json!(s.to_string()));
        }
        // Json module: an empty JSON object is not a function; keep the record non-empty
        m.insert("_".into(), json!("0"));
        Value::Object(m)
    }
}

// -------------------------------------------------------------------------------- realiser
/// A real registration built from an abstract one.
pub struct RealReg {
    pub opcert: Option<OpCert>,
    pub kes_sig: Option<Sum6KesSig>,
    pub vkpop: VkPop,
    pub claimed_party: Option<String>,
    pub claimed_stake: Option<String>,
    pub announced: Option<u64>,
}

/// announced evolution of an abstract case: values >= `umax - 8` stand for u64::MAX - (umax - v)
pub fn real_evo(v: u64, umax: u64) -> u64 {
    if v + 8 >= umax { u64::MAX - (umax - v) } else { v }
}

impl Material {
    fn key_bytes(&self, label: &str) -> ([u8; 96], [u8; 96]) {
        *self.keys.get(label).unwrap_or_else(|| panic!("unknown key label {label}"))
    }

    /// Realise an abstract registration (labels as in `Registration.tla`). Returns None when the
    /// combination has no byte representation (cannot happen for the label sets TLC uses).
    pub fn realise(&self, c: &Value, umax: u64) -> Option<RealReg> {
        let s = |v: &Value| v.as_str().unwrap().to_string();
        let vk_label = s(&c["vk"]);
        let (vk, _) = self.key_bytes(&vk_label);
        let half = |l: &str, which: usize| -> [u8; 48] {
            // "none": a well-formed group element that proves possession of no key used anywhere
            let (_, p) = if l == "none" { split(&self.stray) } else { self.key_bytes(l) };
            let mut h = [0u8; 48];
            h.copy_from_slice(&p[which * 48..which * 48 + 48]);
            h
        };
        let mut pop = [0u8; 96];
        pop[..48].copy_from_slice(&half(&s(&c["pop"]["k1"]), 0));
        pop[48..].copy_from_slice(&half(&s(&c["pop"]["k2"]), 1));
        let vkpop = join(&vk, &pop)?;
        // operational certificate
        let opcert = if c["hasCert"].as_bool().unwrap() {
            let cold = self.pool(&s(&c["cold"]));
            let kes_owner = s(&c["opcert"]["kesVk"]);
            let kes_vk = self.pool(&kes_owner).kes_vk;
            let start = c["opcert"]["start"].as_u64().unwrap();
            let issuer = s(&c["opcert"]["issuer"]);
            let sig_ok = c["opcert"]["sigOk"].as_bool().unwrap();
            let body = opcert_body(kes_vk.as_bytes(), 0, start);
            let sig: [u8; 64] = match (issuer.as_str(), sig_ok) {
                ("none", _) => {
                    // a signature nobody made: a genuine one with a flipped bit in its scalar half
                    let mut b = cold.cold_sk.sign(&body).to_bytes();
                    b[40] ^= 0x04;
                    b
                }
                (i, true) => self.pool(i).cold_sk.sign(&body).to_bytes(),
                // the issuer's genuine signature, but of another body (start period altered after signing)
                (i, false) => self.pool(i).cold_sk.sign(&opcert_body(kes_vk.as_bytes(), 0, start + 1)).to_bytes(),
            };
            Some(make_opcert(kes_vk.as_bytes(), 0, start, &sig, &cold.cold_vk))
        } else {
            None
        };
        // KES signature
        let by = s(&c["kesSig"]["byKes"]);
        let kes_sig = if by == "none" {
            None
        } else {
            let over = s(&c["kesSig"]["overVk"]);
            let (ovk, opop_honest) = self.key_bytes(&over);
            let mut m = ovk.to_vec();
            if c["kesSig"]["overPop"].as_bool().unwrap() {
                m.extend_from_slice(&pop);
            } else {
                // the signed bytes carry another proof of possession than the registration does
                let other = if opop_honest != pop { opop_honest } else { self.key_bytes(if over == "C" { "nC" } else { "C" }).1 };
                m.extend_from_slice(&other);
            }
            Some(self.kes_sign(&by, c["kesSig"]["evo"].as_u64().unwrap(), &m))
        };
        let claimed_party = match s(&c["claimedParty"]).as_str() {
            "none" => None,
            l => Some(self.pool(l).pool_id.clone()),
        };
        let claimed_stake = match s(&c["claimedStake"]).as_str() {
            "none" => None,
            v => Some(v.to_string()),
        };
        let announced = if c["hasEvo"].as_bool().unwrap_or(true) { Some(real_evo(c["announcedEvo"].as_u64().unwrap(), umax)) } else { None };
        Some(RealReg { opcert, kes_sig, vkpop, claimed_party, claimed_stake, announced })
    }
}
