//! Realiser for abstract certificates (C03 / C04): real key-set families (honest per epoch and
//! adversarial), real multi-signatures, real genesis signatures, and the abstract *projection*
//! of a real certificate recomputed from its real value.
//!
//! Key-set families are `MithrilFixture`s with their own party ids (so their own BLS keys).
//! Every family signs whatever it is asked to sign: an honest family of epoch e stands for the
//! registered signers of that epoch, an adversarial family for a signer set the aggregator
//! controls; a forged certificate "re-signed by family K" carries a multi-signature that really
//! verifies under K's aggregate verification key.
use std::cell::RefCell;
use std::collections::BTreeMap;

use chrono::{DateTime, TimeZone, Utc};
use mithril_common::crypto_helper::{
    GenesisEd25519Signer, GenesisSigner, GenesisVerifier, ProtocolAggregateVerificationKey,
    ProtocolAggregateVerificationKeyForConcatenation, ProtocolClerk, ProtocolMultiSignature,
};
use mithril_common::entities::{
    CardanoDbBeacon, Certificate, CertificateMetadata, CertificateSignature, Epoch, ProtocolMessage,
    ProtocolMessagePartKey, ProtocolParameters, SignedEntityType, StakeDistributionParty,
};
use mithril_common::test::builder::{
    MithrilFixture, MithrilFixtureBuilder, SignerFixture, StakeDistributionGenerationMethod,
};
use mithril_stm::{AggregateSignatureType, AncillaryGenesisData, AncillaryProofInput};
use sha2::{Digest, Sha256};
use vh_core::{ChaCha20Rng, Guarded, Value, guarded, json};

pub fn sha_hex(s: &str) -> String {
    hex::encode(Sha256::digest(s.as_bytes()))
}

/// A key-set family.
pub struct Family {
    pub label: String,
    pub fixture: MithrilFixture,
    pub avk: ProtocolAggregateVerificationKey,
    pub avk_concat: ProtocolAggregateVerificationKeyForConcatenation,
    pub avk_hex: String,
    signers_by_params: RefCell<BTreeMap<String, Vec<SignerFixture>>>,
}

impl Family {
    pub fn new(label: &str, n_signers: usize, params: &ProtocolParameters) -> Family {
        // own cold keys per family => own party ids => own BLS keys (the protocol initializer is
        // seeded by the party id); signers are certified (operational certificate + KES) like the
        // project's own fixtures
        let digest = Sha256::digest(label.as_bytes());
        let mut seed = [0u8; 32];
        seed[1] = digest[0] % 200;
        seed[2] = digest[1] % 200;
        seed[3] = digest[2] % 200;
        let fixture = MithrilFixtureBuilder::default()
            .with_protocol_parameters(params.clone())
            .with_signers(n_signers)
            .with_party_id_seed(seed)
            .with_stake_distribution(StakeDistributionGenerationMethod::RandomDistribution {
                seed: digest.into(),
                min_stake: 100,
            })
            .build();
        let clerk = ProtocolClerk::new_clerk_from_signer(&fixture.signers_fixture()[0].protocol_signer);
        let avk = clerk.compute_aggregate_verification_key();
        let avk_concat: ProtocolAggregateVerificationKeyForConcatenation =
            avk.to_concatenation_aggregate_verification_key().to_owned().into();
        let avk_hex = avk_concat.to_json_hex().unwrap();
        Family {
            label: label.to_string(),
            fixture,
            avk,
            avk_concat,
            avk_hex,
            signers_by_params: RefCell::new(BTreeMap::new()),
        }
    }

    fn signers_for(&self, params: &ProtocolParameters) -> Vec<SignerFixture> {
        let key = params.compute_hash();
        if let Some(s) = self.signers_by_params.borrow().get(&key) {
            return s.clone();
        }
        let s: Vec<SignerFixture> = self
            .fixture
            .signers_fixture()
            .into_iter()
            .map(|s| s.try_new_with_protocol_parameters(params.clone()).unwrap())
            .collect();
        self.signers_by_params.borrow_mut().insert(key, s.clone());
        s
    }

    /// A multi-signature of this family on `msg`, produced by signers configured with `params`.
    pub fn multi_sign(&self, msg: &[u8], params: &ProtocolParameters) -> Option<ProtocolMultiSignature> {
        let signers = self.signers_for(params);
        let sigs: Vec<_> = signers.iter().filter_map(|s| s.protocol_signer.sign(msg)).collect();
        if sigs.is_empty() {
            return None;
        }
        let clerk = ProtocolClerk::new_clerk_from_signer(&signers[0].protocol_signer);
        let input = AncillaryProofInput::new(None, AncillaryGenesisData::new());
        clerk
            .aggregate_signatures_with_type(&sigs, msg, AggregateSignatureType::Concatenation, input)
            .ok()
            .map(|(m, _)| m.into())
    }

    pub fn parties(&self) -> Vec<StakeDistributionParty> {
        self.fixture.stake_distribution_parties()
    }

    /// the registered signer with the largest stake (the one that colludes in twin forgeries)
    fn big_signer(&self) -> SignerFixture {
        self.fixture
            .signers_fixture()
            .into_iter()
            .max_by_key(|s| s.signer_with_stake.stake)
            .unwrap()
    }

    /// Total stake of the "/s" twin key: a twentieth of the largest signer's stake, so that under
    /// the twin that signer's relative stake is 20 and it wins (almost surely) every lottery index
    /// on its own; every genuine signature stays valid (lotteries only get easier).
    pub fn shrunken_total_stake(&self) -> u64 {
        std::cmp::max(1, self.big_signer().signer_with_stake.stake / 20)
    }

    /// A twin of this family's aggregate verification key: the same key except for one component,
    /// rebuilt from the real value (json-hex -> JSON -> sub-field changed -> json-hex).
    ///   "s"  same Merkle commitment, shrunken total stake
    ///   "n"  same Merkle root and total stake, one more leaf claimed
    pub fn twin_avk(&self, kind: &str) -> ProtocolAggregateVerificationKeyForConcatenation {
        let mut json: Value = serde_json::from_slice(&hex::decode(&self.avk_hex).unwrap()).unwrap();
        match kind {
            "s" => json["total_stake"] = json!(self.shrunken_total_stake()),
            "n" => {
                let n = json["mt_commitment"]["nr_leaves"].as_u64().expect("nr_leaves");
                json["mt_commitment"]["nr_leaves"] = json!(n + 1);
            }
            k => panic!("unknown key twin kind {k}"),
        }
        ProtocolAggregateVerificationKeyForConcatenation::from_json_hex(&hex::encode(serde_json::to_vec(&json).unwrap()))
            .expect("twin key re-encodes")
    }

    /// A multi-signature made by ONE genuine signer of this family that is meant to verify under
    /// the "/s" twin key: the signer evaluates its own lotteries with phi_f = 1 (claims every
    /// index) and aggregates its lone signature.
    pub fn lone_sign(&self, msg: &[u8], params: &ProtocolParameters) -> Option<ProtocolMultiSignature> {
        let mut view = params.clone();
        view.phi_f = 1.0;
        let lone = self.big_signer().try_new_with_protocol_parameters(view.clone()).ok()?;
        let sig = lone.protocol_signer.sign(msg)?;
        let clerk = ProtocolClerk::new_clerk_from_closed_key_registration(&view.into(), &lone.protocol_closed_key_registration);
        let input = AncillaryProofInput::new(None, AncillaryGenesisData::new());
        clerk
            .aggregate_signatures_with_type(&[sig], msg, AggregateSignatureType::Concatenation, input)
            .ok()
            .map(|(m, _)| m.into())
    }
}

/// The twins of a protocol-parameter set: each differs from it in ONE component.
///   /k  k - 1        /m  m + 1        /f  phi_f + 0.1        /g  phi_f + 1e-6 (beyond the 5th
///   decimal, still above the fixed-point precision)   /e  phi_f + 1e-9 (below the fixed-point
///   precision: the SAME parameters for the protocol, same hash, same label)
/// Every twin makes lotteries no harder and the quorum no larger, so a signature made under the
/// original parameters stays valid under the twin.
pub fn param_twins(label: &str, p: &ProtocolParameters) -> Vec<(String, ProtocolParameters)> {
    vec![
        (format!("{label}/k"), ProtocolParameters::new(p.k - 1, p.m, p.phi_f)),
        (format!("{label}/m"), ProtocolParameters::new(p.k, p.m + 1, p.phi_f)),
        (format!("{label}/f"), ProtocolParameters::new(p.k, p.m, p.phi_f + 0.1)),
        (format!("{label}/g"), ProtocolParameters::new(p.k, p.m, p.phi_f + 1e-6)),
        (format!("{label}/e"), ProtocolParameters::new(p.k, p.m, p.phi_f + 1e-9)),
    ]
}

/// Abstract certificate as the specification describes it (spec/cert/CertChain.tla).
#[derive(Clone, Debug)]
pub struct AbsCert {
    pub id: String,
    pub prev: String,
    pub epoch: u64,
    pub kind: String,
    pub avk: String,
    pub params: String,
    pub msg_epoch: u64,
    pub next_avk: String,
    pub next_params: String,
    pub hash_ok: bool,
    pub signed_msg_ok: bool,
    pub sig_by: String,
    pub gen_sig_ok: bool,
}

impl AbsCert {
    pub fn from_json(v: &Value) -> AbsCert {
        let s = |k: &str| v[k].as_str().unwrap_or_else(|| panic!("field {k} of {v}")).to_string();
        let n = |k: &str| v[k].as_u64().unwrap_or_else(|| panic!("field {k} of {v}"));
        let b = |k: &str| v[k].as_bool().unwrap_or_else(|| panic!("field {k} of {v}"));
        AbsCert {
            id: s("id"),
            prev: s("prev"),
            epoch: n("epoch"),
            kind: s("kind"),
            avk: s("avk"),
            params: s("params"),
            msg_epoch: n("msgEpoch"),
            next_avk: s("nextAvk"),
            next_params: s("nextParams"),
            hash_ok: b("hashOk"),
            signed_msg_ok: b("signedMsgOk"),
            sig_by: s("sigBy"),
            gen_sig_ok: b("genSigOk"),
        }
    }

    fn key(&self) -> String {
        format!("{self:?}")
    }
}

pub struct Kit {
    pub families: BTreeMap<String, Family>,
    pub params: BTreeMap<String, ProtocolParameters>,
    pub genesis_signer: GenesisSigner,
    pub genesis_verifier: GenesisVerifier,
    pub rogue_genesis: GenesisEd25519Signer,
    junk_sig: RefCell<BTreeMap<String, ProtocolMultiSignature>>,
    sig_cache: RefCell<BTreeMap<String, ProtocolMultiSignature>>,
    cert_cache: RefCell<BTreeMap<String, Certificate>>,
    proj_cache: RefCell<BTreeMap<String, Value>>,
    pub built: RefCell<u64>,
}

pub fn t0() -> DateTime<Utc> {
    Utc.with_ymd_and_hms(2024, 2, 12, 13, 11, 47).unwrap()
}

impl Kit {
    /// `keys`: family labels; `params`: (label, parameters). Every family is built once with the
    /// first parameter set; signers for the other sets reuse the same keys and registration.
    pub fn new(keys: &[&str], params: &[(&str, ProtocolParameters)], n_signers: usize) -> Kit {
        let base = params[0].1.clone();
        let families = keys.iter().map(|k| (k.to_string(), Family::new(k, n_signers, &base))).collect();
        let genesis_signer = GenesisSigner::create_deterministic_signer();
        let genesis_verifier = genesis_signer.create_verifier();
        let rogue_genesis = GenesisEd25519Signer::create_test_signer(<ChaCha20Rng as vh_core::SeedableRng>::from_seed([7u8; 32]));
        Kit {
            families,
            params: params
                .iter()
                .flat_map(|(l, p)| {
                    let mut v = vec![(l.to_string(), p.clone())];
                    v.extend(param_twins(l, p));
                    v
                })
                .collect(),
            genesis_signer,
            genesis_verifier,
            rogue_genesis,
            junk_sig: Default::default(),
            sig_cache: Default::default(),
            cert_cache: Default::default(),
            proj_cache: Default::default(),
            built: RefCell::new(0),
        }
    }

    pub fn standard() -> Kit {
        Kit::new(
            &["H1", "H2", "H3", "H4", "H5", "A"],
            &[("p", ProtocolParameters::new(2, 20, 0.8)), ("q", ProtocolParameters::new(2, 24, 0.8))],
            2,
        )
    }

    pub fn family(&self, label: &str) -> &Family {
        self.families.get(label).unwrap_or_else(|| panic!("unknown key family {label}"))
    }

    /// the aggregate verification key an abstract key name stands for: a family's key, or a twin
    /// of it ("H3/s", "H3/n")
    pub fn key(&self, label: &str) -> ProtocolAggregateVerificationKeyForConcatenation {
        match label.split_once('/') {
            None => self.family(label).avk_concat.clone(),
            Some((fam, kind)) => self.family(fam).twin_avk(kind),
        }
    }

    pub fn key_hex(&self, label: &str) -> String {
        self.key(label).to_json_hex().unwrap()
    }

    /// the family whose registered signers an abstract key name is about
    pub fn family_of(&self, label: &str) -> &Family {
        self.family(label.split_once('/').map(|(f, _)| f).unwrap_or(label))
    }

    pub fn param(&self, label: &str) -> &ProtocolParameters {
        self.params.get(label).unwrap_or_else(|| panic!("unknown parameter id {label}"))
    }

    fn sign_cached(&self, fam: &str, msg: &str, params: &ProtocolParameters) -> ProtocolMultiSignature {
        let key = format!("{fam}|{msg}|{}", params.compute_hash());
        if let Some(s) = self.sig_cache.borrow().get(&key) {
            return s.clone();
        }
        let s = match fam.split_once('/') {
            None => self.family(fam).multi_sign(msg.as_bytes(), params),
            // "signed under the twin": one genuine signer alone, under the shrunken total stake
            Some((base, "s")) => self.family(base).lone_sign(msg.as_bytes(), params),
            Some((_, k)) => panic!("nobody can sign under a /{k} twin"),
        }
        .unwrap_or_else(|| panic!("family {fam} could not reach the quorum on {msg}"));
        self.sig_cache.borrow_mut().insert(key, s.clone());
        s
    }

    /// a structurally valid multi-signature that is not valid for the message it is attached to
    fn junk_signature(&self, params: &ProtocolParameters) -> ProtocolMultiSignature {
        let key = params.compute_hash();
        if let Some(s) = self.junk_sig.borrow().get(&key) {
            return s.clone();
        }
        let fam = self.families.values().last().unwrap();
        let s = fam.multi_sign(b"a message nobody attaches a certificate to", params).unwrap();
        self.junk_sig.borrow_mut().insert(key, s.clone());
        s
    }

    /// protocol message of an abstract certificate
    pub fn protocol_message(&self, a: &AbsCert, tag: &str) -> ProtocolMessage {
        let mut pm = ProtocolMessage::new();
        pm.set_message_part(ProtocolMessagePartKey::SnapshotDigest, sha_hex(tag));
        if a.next_avk != "none" {
            pm.set_message_part(
                ProtocolMessagePartKey::NextAggregateVerificationKey,
                self.key_hex(&a.next_avk),
            );
        }
        if a.next_params != "none" {
            pm.set_message_part(
                ProtocolMessagePartKey::NextProtocolParameters,
                self.param(&a.next_params).compute_hash(),
            );
        }
        if a.msg_epoch != 0 {
            pm.set_message_part(ProtocolMessagePartKey::CurrentEpoch, a.msg_epoch.to_string());
        }
        pm
    }

    /// Build the real certificate of an abstract one. `hash_of` maps abstract ids to real hashes
    /// (of the certificates realised so far); ids without an entry get a hash nobody owns.
    pub fn realise(&self, a: &AbsCert, hash_of: &BTreeMap<String, String>) -> Certificate {
        let resolve = |id: &str| -> String {
            if id.is_empty() {
                String::new()
            } else {
                hash_of.get(id).cloned().unwrap_or_else(|| sha_hex(&format!("nobody:{id}")))
            }
        };
        let prev_hash = resolve(&a.prev);
        let own_hash = if a.hash_ok { String::new() } else { resolve(&a.id) };
        let ckey = format!("{}|{prev_hash}|{own_hash}", a.key());
        if let Some(c) = self.cert_cache.borrow().get(&ckey) {
            return c.clone();
        }
        *self.built.borrow_mut() += 1;
        let params = self.param(&a.params).clone();
        let tag = format!("digest-of:{}", a.id);
        let pm = self.protocol_message(a, &tag);
        let signed_message = if a.signed_msg_ok {
            pm.compute_hash()
        } else {
            // the digest of another message (the one the attached signature was made for)
            self.protocol_message(a, &format!("{tag}:original")).compute_hash()
        };
        let signature = if a.kind == "genesis" {
            let sig = if a.gen_sig_ok {
                self.genesis_signer.ed25519.sign(signed_message.as_bytes())
            } else {
                self.rogue_genesis.sign(signed_message.as_bytes())
            };
            CertificateSignature::GenesisSignature(sig)
        } else {
            let ms = if a.sig_by == "none" {
                self.junk_signature(&params)
            } else {
                self.sign_cached(&a.sig_by, &signed_message, &params)
            };
            CertificateSignature::MultiSignature(
                SignedEntityType::CardanoDatabase(CardanoDbBeacon::new(a.epoch, 10 * a.epoch + 3)),
                ms,
            )
        };
        let fam = self.family_of(&a.avk);
        let metadata = CertificateMetadata::new(
            "devnet",
            "0.1.0",
            params,
            t0(),
            t0() + chrono::Duration::seconds(100),
            if a.kind == "genesis" { vec![] } else { fam.parties() },
        );
        let mut c = Certificate {
            hash: String::new(),
            previous_hash: prev_hash,
            epoch: Epoch(a.epoch),
            metadata,
            protocol_message: pm,
            signed_message,
            aggregate_verification_key: self.key(&a.avk),
            ancillary_prover_data: None,
            ancillary_verifier_data: None,
            signature,
        };
        c.hash = if a.hash_ok { c.try_compute_hash().unwrap() } else { own_hash };
        self.cert_cache.borrow_mut().insert(ckey, c.clone());
        c
    }

    /// Realise a list of abstract certificates (any order); returns them in the given order.
    /// Certificates with a consistent hash are built first, following previous-hash dependencies.
    pub fn realise_all(&self, abs: &[AbsCert]) -> Vec<Certificate> {
        let mut hash_of: BTreeMap<String, String> = BTreeMap::new();
        let mut out: Vec<Option<Certificate>> = vec![None; abs.len()];
        let mut progress = true;
        while progress {
            progress = false;
            for (i, a) in abs.iter().enumerate() {
                if out[i].is_some() || !a.hash_ok {
                    continue;
                }
                let dep_pending = abs
                    .iter()
                    .enumerate()
                    .any(|(j, b)| j != i && out[j].is_none() && b.hash_ok && b.id == a.prev);
                if dep_pending {
                    continue;
                }
                let c = self.realise(a, &hash_of);
                hash_of.entry(a.id.clone()).or_insert_with(|| c.hash.clone());
                out[i] = Some(c);
                progress = true;
            }
        }
        for (i, a) in abs.iter().enumerate() {
            if out[i].is_none() {
                // inconsistent hash, or a dependency cycle among consistent ones (not realisable:
                // built with whatever is known, the projection tells the truth)
                out[i] = Some(self.realise(a, &hash_of));
            }
        }
        out.into_iter().map(|c| c.unwrap()).collect()
    }

    // ------------------------------------------------------------------------------------
    // projection: everything below is recomputed from the real certificate value
    // ------------------------------------------------------------------------------------
    pub fn short(h: &str) -> String {
        h.chars().take(12).collect()
    }

    /// Abstract name of a real key, recomputed from its real components: a family's name only if
    /// Merkle root, number of leaves AND total stake are that family's; a key that shares the
    /// root but not the rest is a twin with its own name; anything else is named by its digest.
    fn avk_label(&self, json_hex: &str) -> String {
        let parts = |hex_text: &str| -> Option<(Value, u64, u64)> {
            let v: Value = serde_json::from_slice(&hex::decode(hex_text).ok()?).ok()?;
            Some((v["mt_commitment"]["root"].clone(), v["mt_commitment"]["nr_leaves"].as_u64()?, v["total_stake"].as_u64()?))
        };
        for f in self.families.values() {
            if f.avk_hex == json_hex {
                return f.label.clone();
            }
        }
        if let Some((root, n, stake)) = parts(json_hex) {
            for f in self.families.values() {
                let (froot, fnr, fstake) = parts(&f.avk_hex).unwrap();
                if froot == root {
                    let mut l = f.label.clone();
                    if n != fnr {
                        l.push_str(&format!("/n{n}"));
                    }
                    if stake != fstake {
                        l.push_str(&format!("/s{stake}"));
                    }
                    if l != f.label {
                        return l;
                    }
                }
            }
        }
        format!("x{}", Kit::short(&sha_hex(json_hex)))
    }

    /// Abstract name of real protocol parameters, recomputed from the real numbers and compared
    /// at the protocol's fixed-point precision (U8F24) by the harness itself -- never through the
    /// equality or hash of the code under test. (`p/e` differs from `p` below that precision: it
    /// IS `p`.)
    fn params_label(&self, p: &ProtocolParameters) -> String {
        let fx = |x: f64| fixed::types::U8F24::checked_from_num(x).map(|v| v.to_bits());
        for (l, q) in &self.params {
            if q.k == p.k && q.m == p.m && fx(q.phi_f).is_some() && fx(q.phi_f) == fx(p.phi_f) {
                return l.strip_suffix("/e").unwrap_or(l).to_string();
            }
        }
        format!("x{}", Kit::short(&sha_hex(&format!("{}|{}|{:?}", p.k, p.m, fx(p.phi_f)))))
    }

    /// the hash text of parameters as the protocol defines it (k, m, phi_f as U8F24, big-endian),
    /// computed by the harness
    fn params_hash_text(p: &ProtocolParameters) -> Option<String> {
        let fx = fixed::types::U8F24::checked_from_num(p.phi_f)?;
        let mut h = Sha256::new();
        h.update(p.k.to_be_bytes());
        h.update(p.m.to_be_bytes());
        h.update(fx.to_be_bytes());
        Some(hex::encode(h.finalize()))
    }

    /// Abstract name of the parameters a `next_protocol_parameters` message part commits to
    fn params_label_by_hash(&self, h: &str) -> String {
        for (l, p) in &self.params {
            if Kit::params_hash_text(p).as_deref() == Some(h) {
                return l.strip_suffix("/e").unwrap_or(l).to_string();
            }
        }
        format!("x{}", Kit::short(h))
    }

    /// does the multi-signature verify for the stored signed message under the certificate's own
    /// aggregate verification key and parameters (mithril-stm primitive, C01's subject)
    pub fn multi_sig_ok(&self, c: &Certificate) -> bool {
        let CertificateSignature::MultiSignature(_, ms) = &c.signature else {
            return false;
        };
        let avk = ProtocolAggregateVerificationKey::new(c.aggregate_verification_key.clone().into_inner());
        let params: mithril_stm::Parameters = c.metadata.protocol_parameters.clone().into();
        match guarded(|| ms.verify(c.signed_message.as_bytes(), &avk, &params, None, None).is_ok()) {
            Guarded::Done(b) => b,
            Guarded::Panic(_) => false,
        }
    }

    pub fn genesis_sig_ok(&self, c: &Certificate) -> bool {
        match &c.signature {
            CertificateSignature::GenesisSignature(sig) => self
                .genesis_verifier
                .to_ed25519_verification_key()
                .verify(c.signed_message.as_bytes(), sig)
                .is_ok(),
            _ => false,
        }
    }

    pub fn project(&self, c: &Certificate) -> Value {
        // memoised on the complete value (exhaustive Debug form) -- the multi-signature check is slow
        let key = sha_hex(&format!("{c:#?}"));
        if let Some(v) = self.proj_cache.borrow().get(&key) {
            return v.clone();
        }
        let v = self.project_uncached(c);
        self.proj_cache.borrow_mut().insert(key, v.clone());
        v
    }

    fn project_uncached(&self, c: &Certificate) -> Value {
        let genesis = c.is_genesis();
        let hash_ok = match guarded(|| c.try_compute_hash()) {
            Guarded::Done(Ok(h)) => h == c.hash,
            _ => false,
        };
        let msg_epoch = c
            .protocol_message
            .get_message_part(&ProtocolMessagePartKey::CurrentEpoch)
            .and_then(|s| s.parse::<u64>().ok().filter(|n| n.to_string() == *s))
            .map(|n| n.min(1_000_000))
            .unwrap_or(0);
        let next_avk = match c.protocol_message.get_message_part(&ProtocolMessagePartKey::NextAggregateVerificationKey) {
            None => "none".to_string(),
            Some(s) => match ProtocolAggregateVerificationKeyForConcatenation::try_from(s.as_str()) {
                Ok(k) => self.avk_label(&k.to_json_hex().unwrap()),
                Err(_) => "bad".to_string(),
            },
        };
        let next_params = match c.protocol_message.get_message_part(&ProtocolMessagePartKey::NextProtocolParameters) {
            None => "none".to_string(),
            Some(s) => self.params_label_by_hash(s),
        };
        let avk = self.avk_label(&c.aggregate_verification_key.to_json_hex().unwrap());
        let sig_ok = if genesis { false } else { self.multi_sig_ok(c) };
        json!({
            "id": Kit::short(&c.hash),
            "prev": Kit::short(&c.previous_hash),
            "epoch": (*c.epoch).min(1_000_000),
            "kind": if genesis { "genesis" } else { "std" },
            "avk": avk.clone(),
            "params": self.params_label(&c.metadata.protocol_parameters),
            "msgEpoch": msg_epoch,
            "nextAvk": next_avk,
            "nextParams": next_params,
            "hashOk": hash_ok,
            "signedMsgOk": c.protocol_message.compute_hash() == c.signed_message,
            "sigOk": sig_ok,
            // the contract's reading of "valid under its own key": signed by the key set it names
            "sigBy": if sig_ok { avk } else { "none".to_string() },
            "genSigOk": if genesis { self.genesis_sig_ok(c) } else { false },
        })
    }
}
