//! C01 / C02 — STM aggregate verification and clerk selection on the real `mithril-stm`.
//!
//! `--mode verify`  (C01): honest aggregates are mutated through their JSON form (and re-encoded
//!   through bytes), handed to the real `AggregateSignature::verify` / `batch_verify`; each call is
//!   logged with an *abstract projection recomputed from the mutated real value* and the verdict.
//! `--mode cases`   (C01, spec -> impl): abstract aggregates enumerated by TLC are realised with
//!   real keys / signatures (lottery cells matched by rejection sampling of the message).
//! `--mode clerk`   (C02): sequences of single signatures built from the honest ones by
//!   duplication, permutation, index restriction, index re-labelling, other-message signatures are
//!   handed to the real clerk (mithril-stm and mithril-common routes).
//! TLC validates the traces against spec/stm/StmTrace.tla.
use std::collections::BTreeMap;

use mithril_stm::{AggregateSignature, Parameters, SingleSignature};
use vh_common::stmkit::{D, World};
use vh_core::{Args, ChaCha20Rng, Guarded, RngCore, Trace, Value, below, guarded, json, quiet_panics, read_ndjson, rng};

const MSG2: &[u8] = b"another message entirely";

fn bytes_of(v: &Value) -> Vec<u8> {
    v.as_array().unwrap().iter().map(|b| b.as_u64().unwrap() as u8).collect()
}

struct Ctx {
    w: std::rc::Rc<World>,
    msg: Vec<u8>,
    /// honest sigma bytes of party q on `msg` and on MSG2
    sigma_m: Vec<Vec<u8>>,
    sigma_m2: Vec<Vec<u8>>,
    /// honest signatures under the real parameters (None: no index won)
    honest: Vec<Option<SingleSignature>>,
    vk_json: Vec<Value>,
    big: Parameters,
    slots: Vec<u64>,
    won_cache: std::cell::RefCell<std::collections::HashMap<(usize, u64, u64), bool>>,
}

fn sig_json(sigma: &[u8], indexes: &[u64], signer_index: u64) -> Value {
    json!({"sigma": sigma, "indexes": indexes, "signer_index": signer_index})
}

impl Ctx {
    fn new(w: std::rc::Rc<World>, msg: Vec<u8>) -> Ctx {
        let n = w.parties.len();
        let sigma_of = |q: usize, m: &[u8]| -> Vec<u8> {
            let s = w.all_signers[q].create_single_signature(m).unwrap();
            bytes_of(&serde_json::to_value(&s).unwrap()["sigma"])
        };
        let sigma_m = (0..n).map(|q| sigma_of(q, &msg)).collect();
        let sigma_m2 = (0..n).map(|q| sigma_of(q, MSG2)).collect();
        let honest = w.signers.iter().map(|s| s.create_single_signature(&msg).ok()).collect();
        let vk_json = w.parties.iter().map(|(vk, _)| serde_json::to_value(vk).unwrap()).collect();
        let big = Parameters { m: u64::MAX, k: w.params.k, phi_f: w.params.phi_f };
        let slots = (0..n)
            .map(|q| {
                let s = w.all_signers[q].create_single_signature(&msg).unwrap();
                serde_json::to_value(&s).unwrap()["signer_index"].as_u64().unwrap()
            })
            .collect();
        Ctx { w, msg, sigma_m, sigma_m2, honest, vk_json, big, slots, won_cache: Default::default() }
    }

    fn slot(&self, q: usize) -> u64 {
        self.slots[q]
    }

    /// lottery outcome of (party q's signature on msg, index, stake): evaluated through the public
    /// single-signature verifier with an unbounded `m` (the lottery itself is judged by C08)
    fn won(&self, q: usize, ix: u64, stake: u64) -> bool {
        if let Some(b) = self.won_cache.borrow().get(&(q, ix, stake)) {
            return *b;
        }
        let b = self.won_uncached(q, ix, stake);
        self.won_cache.borrow_mut().insert((q, ix, stake), b);
        b
    }

    fn won_uncached(&self, q: usize, ix: u64, stake: u64) -> bool {
        let s: SingleSignature =
            serde_json::from_value(sig_json(&self.sigma_m[q], &[ix], self.slot(q))).unwrap();
        s.verify::<D>(&self.big, &self.w.parties[q].0, &stake, &self.w.avk, &self.msg).is_ok()
    }

    /// abstract projection of an aggregate value (its JSON form)
    fn project(&self, agg: &Value) -> Value {
        let mut entries = vec![];
        for e in agg["signatures"].as_array().unwrap() {
            let sig = &e[0];
            let vk = &e[1][0];
            let stake = e[1][1].as_u64().unwrap();
            let key = self.vk_json.iter().position(|k| k == vk);
            let stake_ok = key.map(|k| self.w.parties[k].1 == stake).unwrap_or(false);
            let sigma = bytes_of(&sig["sigma"]);
            let (owner, smsg) = if let Some(q) = self.sigma_m.iter().position(|s| *s == sigma) {
                (format!("p{q}"), "m")
            } else if let Some(q) = self.sigma_m2.iter().position(|s| *s == sigma) {
                (format!("p{q}"), "m2")
            } else {
                ("junk".to_string(), "m")
            };
            let q_valid = self.sigma_m.iter().position(|s| *s == sigma);
            let idx: Vec<Value> = sig["indexes"]
                .as_array()
                .unwrap()
                .iter()
                .map(|i| {
                    let ix = i.as_u64().unwrap();
                    let won = q_valid.map(|q| self.won(q, ix, stake)).unwrap_or(false);
                    // indices are small in these runs; clamp for TLC's 32-bit integers
                    json!([ix.min(1_000_000), won])
                })
                .collect();
            entries.push(json!({
                "key": key.map(|k| format!("p{k}")).unwrap_or("x".into()),
                "stakeOk": stake_ok, "sigOwner": owner, "sigMsg": smsg, "idx": idx
            }));
        }
        json!(entries)
    }

    fn honest_aggregate(&self) -> Option<Value> {
        let sigs: Vec<SingleSignature> = self.honest.iter().flatten().cloned().collect();
        self.w.aggregate(&sigs, &self.msg).ok().map(|a| serde_json::to_value(&a).unwrap())
    }

    /// verdicts of the real verifier on the value, through several wire routes
    fn verdicts(&self, agg: &Value, honest: &Value) -> Vec<(String, Value)> {
        let mut out = vec![];
        let p = self.w.params;
        let decoded: Result<AggregateSignature<D>, _> = serde_json::from_value(agg.clone());
        let Ok(a) = decoded else {
            return vec![("json".into(), json!("undecodable"))];
        };
        let r = guarded(|| a.verify(&self.msg, &self.w.avk, &p, None, None).is_ok());
        out.push(("json".into(), verdict(r)));
        // re-encode through the binary form
        if let Ok(bytes) = a.to_bytes() {
            match guarded(|| AggregateSignature::<D>::from_bytes(&bytes)) {
                Guarded::Done(Ok(b)) => {
                    let r = guarded(|| b.verify(&self.msg, &self.w.avk, &p, None, None).is_ok());
                    out.push(("bytes".into(), verdict(r)));
                }
                Guarded::Done(Err(_)) => out.push(("bytes".into(), json!("undecodable"))),
                Guarded::Panic(m) => out.push(("bytes".into(), json!(format!("panic: {m}")))),
            }
        }
        // batch with an honest member, in both positions
        if let Ok(h) = serde_json::from_value::<AggregateSignature<D>>(honest.clone()) {
            for (name, pair) in [("batch_first", vec![a.clone(), h.clone()]), ("batch_second", vec![h.clone(), a.clone()])] {
                let msgs = vec![self.msg.clone(), self.msg.clone()];
                let avks = vec![self.w.avk.clone(), self.w.avk.clone()];
                let r = guarded(|| {
                    AggregateSignature::batch_verify(&pair, &msgs, &avks, &[p, p], &[None, None], &[None, None]).is_ok()
                });
                out.push((name.into(), verdict(r)));
            }
        }
        out
    }
}

fn verdict(r: Guarded<bool>) -> Value {
    match r {
        Guarded::Done(b) => json!(b),
        Guarded::Panic(m) => json!(format!("panic: {m}")),
    }
}

// ------------------------------------------------------------------------------------------
// mutations of an aggregate (JSON level)
// ------------------------------------------------------------------------------------------
const MUTATIONS: &[&str] = &[
    "none", "index_eq_m", "index_gt_m", "add_lost_index", "add_foreign_won_index", "dup_index_in_entry",
    "drop_index", "swap_sigma", "sigma_other_msg", "stake_plus_one", "stake_total", "key_other_party",
    "key_and_stake_other_party", "path_flip", "path_indices", "path_drop_value", "dup_entry",
    "drop_entry", "signer_index", "swap_entries", "junk_sigma", "move_index_between_entries",
    "sigma_and_key_other_party", "forged_entry_dup_path_index", "compensated_pair_unit", "compensated_pair_slot_hash",
];

/// Two entries' signatures altered by values that cancel in a linear combination with PUBLIC coefficients:
/// sigma_i + c_j*P and sigma_j - c_i*P (P any group element). The verifier aggregates the signatures with
/// coefficients derived from ALL the signatures, so no such pair can be prepared; it can for coefficients an
/// adversary is able to compute beforehand -- `unit`: plain sum (c = 1), `slot_hash`: a hash of the slot number only.
fn compensated_pair(agg: &mut Value, i: usize, j: usize, ci: [u8; 16], cj: [u8; 16], tweak: u64) -> bool {
    use blst::{BLST_ERROR, blst_p1, blst_p1_add_or_double, blst_p1_affine, blst_p1_cneg, blst_p1_compress, blst_p1_from_affine,
               blst_p1_generator, blst_p1_mult, blst_p1_uncompress};
    let si = bytes_of(&agg["signatures"][i][0]["sigma"]);
    let sj = bytes_of(&agg["signatures"][j][0]["sigma"]);
    if si.len() != 48 || sj.len() != 48 {
        return false;
    }
    unsafe {
        let load = |b: &[u8]| -> Option<blst_p1> {
            let mut a = blst_p1_affine::default();
            if blst_p1_uncompress(&mut a, b.as_ptr()) != BLST_ERROR::BLST_SUCCESS {
                return None;
            }
            let mut p = blst_p1::default();
            blst_p1_from_affine(&mut p, &a);
            Some(p)
        };
        let (Some(pi), Some(pj)) = (load(&si), load(&sj)) else { return false };
        // P = tweak * generator
        let mut t = [0u8; 16];
        t[..8].copy_from_slice(&(tweak.max(2)).to_le_bytes());
        let mut pp = blst_p1::default();
        blst_p1_mult(&mut pp, blst_p1_generator(), t.as_ptr(), 128);
        let mut cjp = blst_p1::default();
        blst_p1_mult(&mut cjp, &pp, cj.as_ptr(), 128);
        let mut cip = blst_p1::default();
        blst_p1_mult(&mut cip, &pp, ci.as_ptr(), 128);
        blst_p1_cneg(&mut cip, true);
        let mut ni = blst_p1::default();
        blst_p1_add_or_double(&mut ni, &pi, &cjp);
        let mut nj = blst_p1::default();
        blst_p1_add_or_double(&mut nj, &pj, &cip);
        let mut oi = [0u8; 48];
        let mut oj = [0u8; 48];
        blst_p1_compress(oi.as_mut_ptr(), &ni);
        blst_p1_compress(oj.as_mut_ptr(), &nj);
        agg["signatures"][i][0]["sigma"] = json!(oi.to_vec());
        agg["signatures"][j][0]["sigma"] = json!(oj.to_vec());
    }
    true
}

fn mutate(c: &Ctx, agg: &mut Value, name: &str, r: &mut ChaCha20Rng) -> bool {
    let m = c.w.params.m;
    let n = agg["signatures"].as_array().unwrap().len();
    if n == 0 {
        return false;
    }
    let e = below(r, n as u64) as usize;
    let e2 = (e + 1 + below(r, (n as u64).max(2) - 1) as usize) % n;
    let idxs = |a: &Value, i: usize| -> Vec<u64> {
        a["signatures"][i][0]["indexes"].as_array().unwrap().iter().map(|v| v.as_u64().unwrap()).collect()
    };
    let party_of = |a: &Value, i: usize| -> Option<usize> { c.vk_json.iter().position(|k| *k == a["signatures"][i][1][0]) };
    match name {
        "none" => true,
        "index_eq_m" | "index_gt_m" => {
            let mut v = idxs(agg, e);
            if v.is_empty() {
                return false;
            }
            let k = below(r, v.len() as u64) as usize;
            v[k] = if name == "index_eq_m" { m } else { m + 1 + below(r, 3) };
            agg["signatures"][e][0]["indexes"] = json!(v);
            true
        }
        "add_lost_index" => {
            let Some(q) = party_of(agg, e) else { return false };
            let stake = c.w.parties[q].1;
            let have = idxs(agg, e);
            let Some(ix) = (0..m).find(|ix| !have.contains(ix) && !c.won(q, *ix, stake)) else { return false };
            let mut v = have;
            v.push(ix);
            v.sort();
            agg["signatures"][e][0]["indexes"] = json!(v);
            true
        }
        "add_foreign_won_index" => {
            // an index this party won but that the clerk gave to somebody else (or dropped)
            let Some(q) = party_of(agg, e) else { return false };
            let stake = c.w.parties[q].1;
            let have = idxs(agg, e);
            let Some(ix) = (0..m).find(|ix| !have.contains(ix) && c.won(q, *ix, stake)) else { return false };
            let mut v = have;
            v.push(ix);
            v.sort();
            agg["signatures"][e][0]["indexes"] = json!(v);
            true
        }
        "dup_index_in_entry" => {
            let mut v = idxs(agg, e);
            if v.is_empty() {
                return false;
            }
            v.push(v[0]);
            v.sort();
            agg["signatures"][e][0]["indexes"] = json!(v);
            true
        }
        "drop_index" => {
            let mut v = idxs(agg, e);
            if v.is_empty() {
                return false;
            }
            v.remove(below(r, v.len() as u64) as usize);
            agg["signatures"][e][0]["indexes"] = json!(v);
            true
        }
        "move_index_between_entries" => {
            if n < 2 {
                return false;
            }
            let mut a = idxs(agg, e);
            let mut b = idxs(agg, e2);
            if a.is_empty() {
                return false;
            }
            b.push(a.remove(0));
            b.sort();
            agg["signatures"][e][0]["indexes"] = json!(a);
            agg["signatures"][e2][0]["indexes"] = json!(b);
            true
        }
        "swap_sigma" => {
            if n < 2 {
                return false;
            }
            let a = agg["signatures"][e][0]["sigma"].clone();
            agg["signatures"][e][0]["sigma"] = agg["signatures"][e2][0]["sigma"].clone();
            agg["signatures"][e2][0]["sigma"] = a;
            true
        }
        "sigma_other_msg" => {
            let Some(q) = party_of(agg, e) else { return false };
            agg["signatures"][e][0]["sigma"] = json!(c.sigma_m2[q]);
            true
        }
        "junk_sigma" => {
            // a valid curve point that is nobody's signature here: another party's signature on MSG2
            let q = below(r, c.sigma_m2.len() as u64) as usize;
            agg["signatures"][e][0]["sigma"] = json!(c.sigma_m2[q]);
            true
        }
        "stake_plus_one" => {
            let s = agg["signatures"][e][1][1].as_u64().unwrap();
            agg["signatures"][e][1][1] = json!(s + 1);
            true
        }
        "stake_total" => {
            let total: u64 = c.w.parties.iter().map(|p| p.1).sum();
            agg["signatures"][e][1][1] = json!(total);
            true
        }
        "key_other_party" => {
            let q = below(r, c.vk_json.len() as u64) as usize;
            agg["signatures"][e][1][0] = c.vk_json[q].clone();
            true
        }
        "key_and_stake_other_party" => {
            let q = below(r, c.vk_json.len() as u64) as usize;
            agg["signatures"][e][1][0] = c.vk_json[q].clone();
            agg["signatures"][e][1][1] = json!(c.w.parties[q].1);
            true
        }
        "sigma_and_key_other_party" => {
            // a whole different registered party takes over the entry (keeps the index list)
            let q = below(r, c.vk_json.len() as u64) as usize;
            agg["signatures"][e][1][0] = c.vk_json[q].clone();
            agg["signatures"][e][1][1] = json!(c.w.parties[q].1);
            agg["signatures"][e][0]["sigma"] = json!(c.sigma_m[q]);
            agg["signatures"][e][0]["signer_index"] = json!(c.slot(q));
            true
        }
        "compensated_pair_unit" => {
            if n < 2 {
                return false;
            }
            let mut one = [0u8; 16];
            one[0] = 1;
            compensated_pair(agg, e, e2, one, one, 2 + below(r, 1000))
        }
        "compensated_pair_slot_hash" => {
            // slots i, j >= 1 (slot 0 keeps a coefficient that cannot be known beforehand in the weakest variant)
            if n < 3 {
                return false;
            }
            use blake2::{Blake2b, Digest, digest::consts::U16};
            let i = 1 + below(r, n as u64 - 1) as usize;
            let mut j = 1 + below(r, n as u64 - 1) as usize;
            if j == i {
                j = if i + 1 < n { i + 1 } else { 1 };
            }
            let coeff = |slot: usize| -> [u8; 16] {
                let mut h = Blake2b::<U16>::new();
                h.update(slot.to_be_bytes());
                let mut out = [0u8; 16];
                out.copy_from_slice(&h.finalize());
                out
            };
            compensated_pair(agg, i, j, coeff(i), coeff(j), 2 + below(r, 1000))
        }
        "forged_entry_dup_path_index" => {
            // one genuine entry + the same signature bound to a made-up (same key, inflated stake) entry that
            // "wins" many more indices, both claiming the SAME tree position: the batch path lists the position
            // twice with the genuine siblings interleaved with fillers
            let Some(q) = party_of(agg, e) else { return false };
            let slot = agg["signatures"][e][0]["signer_index"].as_u64().unwrap() as usize;
            let total: u64 = c.w.parties.iter().map(|p| p.1).sum();
            let huge = total.saturating_mul(40);
            let have = idxs(agg, e);
            let extra: Vec<u64> = (0..m).filter(|ix| !have.contains(ix) && c.won(q, *ix, huge)).collect();
            if extra.is_empty() {
                return false;
            }
            let tree = c.w.closed.to_merkle_tree::<<D as mithril_stm::MembershipDigest>::ConcatenationHash, mithril_stm::RegistrationEntryForConcatenation>();
            let (values, _) = mithril_stm::verif::batch_path_parts(&mithril_stm::verif::merkle_tree_batch_path(&tree, vec![slot]));
            let mut inter: Vec<Value> = vec![];
            for v in values {
                inter.push(json!(v));
                inter.push(json!(vec![7u8; 32]));
            }
            let genuine = agg["signatures"][e].clone();
            let mut forged = genuine.clone();
            forged[0]["indexes"] = json!(extra);
            forged[1][1] = json!(huge);
            agg["signatures"] = json!([genuine, forged]);
            agg["batch_proof"] = json!({"values": inter, "indices": [slot, slot], "hasher": null});
            true
        }
        "path_flip" => {
            let vals = agg["batch_proof"]["values"].as_array().unwrap().len();
            if vals == 0 {
                return false;
            }
            let v = below(r, vals as u64) as usize;
            let b = agg["batch_proof"]["values"][v][3].as_u64().unwrap();
            agg["batch_proof"]["values"][v][3] = json!((b + 1) % 256);
            true
        }
        "path_indices" => {
            let ni = agg["batch_proof"]["indices"].as_array().unwrap().len();
            if ni == 0 {
                return false;
            }
            let v = below(r, ni as u64) as usize;
            let b = agg["batch_proof"]["indices"][v].as_u64().unwrap();
            agg["batch_proof"]["indices"][v] = json!((b + 1) % (c.w.parties.len() as u64 + 1));
            true
        }
        "path_drop_value" => {
            let vals = agg["batch_proof"]["values"].as_array_mut().unwrap();
            if vals.is_empty() {
                return false;
            }
            vals.pop();
            true
        }
        "dup_entry" => {
            let x = agg["signatures"][e].clone();
            agg["signatures"].as_array_mut().unwrap().push(x);
            true
        }
        "drop_entry" => {
            agg["signatures"].as_array_mut().unwrap().remove(e);
            true
        }
        "signer_index" => {
            let s = agg["signatures"][e][0]["signer_index"].as_u64().unwrap();
            agg["signatures"][e][0]["signer_index"] = json!((s + 1) % c.w.parties.len() as u64);
            true
        }
        "swap_entries" => {
            if n < 2 {
                return false;
            }
            agg["signatures"].as_array_mut().unwrap().swap(e, e2);
            true
        }
        _ => panic!("unknown mutation {name}"),
    }
}

fn new_ctx(r: &mut ChaCha20Rng, nparties: usize, m: u64, k: u64, phi_f: f64, skew: bool) -> Ctx {
    let stakes: Vec<u64> = (0..nparties)
        .map(|i| if skew && i == 0 { 1_000_000 } else { 1 + below(r, 50) })
        .collect();
    let params = Parameters { m, k, phi_f };
    let w = std::rc::Rc::new(World::new(params, &stakes, r));
    fresh_msg(w, r)
}

fn fresh_msg(w: std::rc::Rc<World>, r: &mut ChaCha20Rng) -> Ctx {
    let mut msg = vec![0u8; 16];
    r.fill_bytes(&mut msg);
    Ctx::new(w, msg)
}

fn emit_verify(trace: &mut Trace, c: &Ctx, agg: &Value, honest: &Value, mutation: &str, counts: &mut BTreeMap<String, u64>) {
    let proj = c.project(agg);
    for (route, v) in c.verdicts(agg, honest) {
        *counts.entry(format!("{route}:{v}")).or_default() += 1;
        let ev = if route.starts_with("batch") { "BatchVerify" } else { "Verify" };
        trace.emit(json!({"ev": ev, "m": c.w.params.m, "k": c.w.params.k, "entries": proj,
                          "route": route, "mut": mutation, "accepted": v}));
    }
}

// ------------------------------------------------------------------------------------------
// C02: the clerk
// ------------------------------------------------------------------------------------------
/// one element handed to the clerk, with its abstract description
#[derive(Clone)]
struct Item {
    sig: SingleSignature,
    owner: usize,
    msg: &'static str,
    idx: Vec<u64>,
    idx_ok: bool,
    extra: bool,
}

fn item_json(i: &Item) -> Value {
    json!({"owner": format!("p{}", i.owner), "msg": i.msg, "ok": true, "idx": i.idx, "idxOk": i.idx_ok, "extra": i.extra})
}

fn make_item(c: &Ctx, q: usize, on_m: bool, idx: Vec<u64>, extra: bool) -> Item {
    let sigma = if on_m { &c.sigma_m[q] } else { &c.sigma_m2[q] };
    let sig: SingleSignature = serde_json::from_value(sig_json(sigma, &idx, c.slot(q))).unwrap();
    let stake = c.w.parties[q].1;
    let idx_ok = idx.iter().all(|ix| *ix < c.w.params.m && c.won(q, *ix, stake));
    Item { sig, owner: q, msg: if on_m { "m" } else { "m2" }, idx, idx_ok, extra }
}

fn won_set(c: &Ctx, q: usize) -> Vec<u64> {
    (0..c.w.params.m).filter(|ix| c.won(q, *ix, c.w.parties[q].1)).collect()
}

fn run_clerk(c: &Ctx, items: &[Item]) -> Value {
    let sigs: Vec<SingleSignature> = items.iter().map(|i| i.sig.clone()).collect();
    // route 1: mithril-stm Clerk
    let r = guarded(|| c.w.aggregate(&sigs, &c.msg));
    match r {
        Guarded::Panic(m) => json!({"ok": false, "verifies": false, "err": format!("panic: {m}")}),
        Guarded::Done(Err(e)) => json!({"ok": false, "verifies": false, "err": format!("{e:#}").chars().take(120).collect::<String>()}),
        Guarded::Done(Ok(a)) => {
            let v = guarded(|| c.w.verify(&a, &c.msg, &c.w.params).is_ok());
            let nidx: usize = serde_json::to_value(&a).unwrap()["signatures"]
                .as_array()
                .unwrap()
                .iter()
                .map(|e| e[0]["indexes"].as_array().unwrap().len())
                .sum();
            json!({"ok": true, "verifies": verdict(v), "nidx": nidx})
        }
    }
}

fn main() {
    quiet_panics();
    let args = Args::parse();
    let mode = args.req("mode");
    let seed = args.num("seed", 1);
    let mut trace = Trace::create(args.req("out"));
    let mut counts: BTreeMap<String, u64> = BTreeMap::new();
    let mut r = rng(seed, 101);
    let worlds = args.num("worlds", 6);
    match mode.as_str() {
        "verify" => {
            let stacks = args.num("stacks", 10);
            for wi in 0..worlds {
                let np = 2 + (wi % 3) as usize;
                let m = 4 + below(&mut r, 5);
                let k = 2 + below(&mut r, 2);
                let phi = [0.6, 0.8, 0.95, 1.0][(wi % 4) as usize];
                let c = new_ctx(&mut r, np, m, k, phi, wi % 5 == 4);
                let Some(honest) = c.honest_aggregate() else { continue };
                for name in MUTATIONS {
                    for _rep in 0..2 {
                        let mut a = honest.clone();
                        if mutate(&c, &mut a, name, &mut r) {
                            emit_verify(&mut trace, &c, &a, &honest, name, &mut counts);
                        }
                    }
                }
                for _ in 0..stacks {
                    let mut a = honest.clone();
                    let mut names = vec![];
                    for _ in 0..(2 + below(&mut r, 2)) {
                        let name = MUTATIONS[1 + below(&mut r, MUTATIONS.len() as u64 - 1) as usize];
                        if mutate(&c, &mut a, name, &mut r) {
                            names.push(name);
                        }
                    }
                    emit_verify(&mut trace, &c, &a, &honest, &names.join("+"), &mut counts);
                }
            }
            // worlds in which EVERY signature wins every index (phi_f = 1): a forged signature value passes the
            // lottery, so pair forgeries reach the aggregate signature check itself
            for wi in 0..args.num("pair-worlds", 4) {
                let np = 4 + (wi % 2) as usize;
                // three parties contribute two indices each (every signature wins every index here): an honest
                // aggregate with three entries
                let c = new_ctx(&mut r, np, 6, 6, 1.0, false);
                let sigs: Vec<SingleSignature> = (0..3usize)
                    .map(|q| serde_json::from_value(sig_json(&c.sigma_m[q], &[2 * q as u64, 2 * q as u64 + 1], c.slot(q))).unwrap())
                    .collect();
                let Some(honest) = c.w.aggregate(&sigs, &c.msg).ok().map(|a| serde_json::to_value(&a).unwrap()) else {
                    *counts.entry("pair_world_without_aggregate".into()).or_insert(0) += 1;
                    continue;
                };
                *counts.entry(format!("pair_world_entries:{}", honest["signatures"].as_array().map(|a| a.len()).unwrap_or(0))).or_insert(0) += 1;
                for name in ["compensated_pair_unit", "compensated_pair_slot_hash"] {
                    for _rep in 0..6 {
                        let mut a = honest.clone();
                        if mutate(&c, &mut a, name, &mut r) {
                            emit_verify(&mut trace, &c, &a, &honest, name, &mut counts);
                        }
                    }
                }
            }
        }
        "cases" => {
            // spec -> impl: abstract aggregates from TLC, realised with real material
            let cases = read_ndjson(args.req("cases"));
            let mut realised = 0u64;
            let mut skipped = 0u64;
            let mut worlds_by_param: BTreeMap<(u64, u64), std::rc::Rc<World>> = BTreeMap::new();
            let outsider = new_ctx(&mut r, 1, 3, 1, 1.0, false);
            for (ci, case) in cases.iter().enumerate() {
                let m = case["M"].as_u64().unwrap();
                let k = case["K"].as_u64().unwrap();
                let entries = case["es"].as_array().unwrap();
                // a fresh message until the real lottery agrees with the case on every cell of a
                // validly signed entry
                let mut found = None;
                let world = worlds_by_param
                    .entry((m, k))
                    .or_insert_with(|| {
                        // ascending stakes: party order = slot order (the tree is ordered by stake)
                        let w = World::new(Parameters { m, k, phi_f: 0.75 }, &[20, 30], &mut r);
                        std::rc::Rc::new(w)
                    })
                    .clone();
                'search: for _try in 0..150 {
                    let c = fresh_msg(world.clone(), &mut r);
                    for e in entries {
                        let owner = e["sigOwner"].as_str().unwrap();
                        let valid = e["sigMsg"] == "m" && owner.starts_with('p');
                        if !valid {
                            continue;
                        }
                        let q: usize = owner[1..].parse::<usize>().unwrap() - 1;
                        let key = e["key"].as_str().unwrap();
                        let base = if key.starts_with('p') { c.w.parties[key[1..].parse::<usize>().unwrap() - 1].1 } else { 7 };
                        let stake = if e["stakeOk"].as_bool().unwrap() { base } else { base + 1 };
                        for cell in e["idx"].as_array().unwrap() {
                            if c.won(q, cell["ix"].as_u64().unwrap(), stake) != cell["won"].as_bool().unwrap() {
                                continue 'search;
                            }
                        }
                    }
                    found = Some(c);
                    break;
                }
                let Some(c) = found else {
                    skipped += 1;
                    continue;
                };
                // (an unregistered but well-formed key: the key of another world, `outsider`)
                let mut sigs = vec![];
                let mut slots = vec![];
                for e in entries {
                    let key = e["key"].as_str().unwrap();
                    let (vk, base, slot) = if key.starts_with('p') {
                        let p = key[1..].parse::<usize>().unwrap() - 1;
                        (c.vk_json[p].clone(), c.w.parties[p].1, c.slot(p))
                    } else {
                        (outsider.vk_json[0].clone(), 7, 0)
                    };
                    let stake = if e["stakeOk"].as_bool().unwrap() { base } else { base + 1 };
                    let owner = e["sigOwner"].as_str().unwrap();
                    let on_m = e["sigMsg"] == "m";
                    let sigma = if owner.starts_with('p') {
                        let q = owner[1..].parse::<usize>().unwrap() - 1;
                        if on_m { c.sigma_m[q].clone() } else { c.sigma_m2[q].clone() }
                    } else if owner == "x" {
                        // a signature of the unregistered key: necessarily on another registration's
                        // message prefix, i.e. junk for this world (the projection says so)
                        outsider.sigma_m2[0].clone()
                    } else {
                        outsider.sigma_m[0].clone()
                    };
                    let idx: Vec<u64> = e["idx"].as_array().unwrap().iter().map(|c| c["ix"].as_u64().unwrap()).collect();
                    sigs.push(json!([sig_json(&sigma, &idx, slot), [vk, stake]]));
                    slots.push(slot);
                }
                // honest batch path for the claimed slots (computed by the real tree), or a broken one
                let mut path = {
                    let mut uniq: Vec<usize> = slots.iter().map(|s| *s as usize).collect();
                    uniq.sort();
                    uniq.dedup();
                    let tree = c.w.closed.to_merkle_tree::<<D as mithril_stm::MembershipDigest>::ConcatenationHash, mithril_stm::RegistrationEntryForConcatenation>();
                    serde_json::to_value(mithril_stm::verif::merkle_tree_batch_path(&tree, uniq)).unwrap()
                };
                if !case["pathOk"].as_bool().unwrap() {
                    if let Some(v) = path["values"].as_array_mut().and_then(|v| v.first_mut()) {
                        let b = v[0].as_u64().unwrap();
                        v[0] = json!((b + 1) % 256);
                    } else {
                        path["indices"] = json!([c.w.parties.len() as u64 + 3]);
                    }
                }
                let agg = json!({"signatures": sigs, "batch_proof": path});
                let honest = c.honest_aggregate().unwrap_or(agg.clone());
                realised += 1;
                let proj = c.project(&agg);
                for (route, v) in c.verdicts(&agg, &honest).into_iter().filter(|(r, _)| !r.starts_with("batch")) {
                    *counts.entry(format!("{route}:{v}")).or_default() += 1;
                    trace.emit(json!({"ev": "Verify", "m": m, "k": k, "entries": proj, "route": route,
                        "mut": format!("case{ci}"), "accepted": v, "predicted": case["impl"], "pathOk": case["pathOk"]}));
                }
            }
            counts.insert("realised".into(), realised);
            counts.insert("skipped".into(), skipped);
        }
        "clerk" => {
            let per_world = args.num("inputs", 40);
            for wi in 0..worlds {
                let np = 2 + (wi % 3) as usize;
                let m = 4 + below(&mut r, 5);
                let k = 2 + below(&mut r, 3);
                let phi = [0.5, 0.7, 0.9, 1.0][(wi % 4) as usize];
                let c = new_ctx(&mut r, np, m, k, phi, false);
                // "every signature produced by a registered signer verifies"
                for (q, h) in c.honest.iter().enumerate() {
                    if let Some(s) = h {
                        let ok = s.verify::<D>(&c.w.params, &c.w.parties[q].0, &c.w.parties[q].1, &c.w.avk, &c.msg).is_ok();
                        let idx = serde_json::to_value(s).unwrap()["indexes"].clone();
                        let expect: Vec<u64> = won_set(&c, q);
                        trace.emit(json!({"ev":"SignerSig","m":m,"k":k,"owner":format!("p{q}"),"idx":idx,"won":expect,"verifies":ok}));
                    }
                }
                for _ in 0..per_world {
                    // base input: a selection of valid signatures (full or index-restricted)
                    let mut base: Vec<Item> = vec![];
                    for q in 0..np {
                        let won = won_set(&c, q);
                        if won.is_empty() || below(&mut r, 5) == 0 {
                            continue;
                        }
                        match below(&mut r, 4) {
                            0 | 1 => base.push(make_item(&c, q, true, won.clone(), false)),
                            2 => {
                                // index-subset restriction(s) of the same signature
                                let cut = 1 + below(&mut r, won.len() as u64) as usize;
                                base.push(make_item(&c, q, true, won[..cut].to_vec(), false));
                                if cut < won.len() && below(&mut r, 2) == 0 {
                                    base.push(make_item(&c, q, true, won[cut..].to_vec(), false));
                                }
                            }
                            _ => {
                                let mut v = won.clone();
                                v.push(won[0]); // duplicate index inside one signature
                                base.push(make_item(&c, q, true, v, false));
                            }
                        }
                    }
                    // permutation
                    for i in (1..base.len()).rev() {
                        base.swap(i, below(&mut r, i as u64 + 1) as usize);
                    }
                    // extended input: base + additional material at random positions
                    let mut ext = base.clone();
                    for _ in 0..(1 + below(&mut r, 3)) {
                        let q = below(&mut r, np as u64) as usize;
                        let extra = match below(&mut r, 4) {
                            0 if !base.is_empty() => {
                                let mut x = base[below(&mut r, base.len() as u64) as usize].clone();
                                x.extra = true; // exact copy
                                x
                            }
                            1 => make_item(&c, q, false, vec![0], true), // other message
                            2 => {
                                // same signature value, indices the party did not win
                                let lost: Vec<u64> = (0..m).filter(|ix| !c.won(q, *ix, c.w.parties[q].1)).take(2).collect();
                                if lost.is_empty() { make_item(&c, q, false, vec![1], true) } else { make_item(&c, q, true, lost, true) }
                            }
                            _ => make_item(&c, q, true, vec![m], true), // out-of-range index
                        };
                        let pos = below(&mut r, ext.len() as u64 + 1) as usize;
                        ext.insert(pos, extra);
                    }
                    let rb = run_clerk(&c, &base);
                    let rx = run_clerk(&c, &ext);
                    *counts.entry(format!("base_ok:{}", rb["ok"])).or_default() += 1;
                    trace.emit(json!({"ev":"ClerkPair","m":m,"k":k,
                        "base":{"input": base.iter().map(item_json).collect::<Vec<_>>(), "res": rb},
                        "ext":{"input": ext.iter().map(item_json).collect::<Vec<_>>(), "res": rx}}));
                }
            }
        }
        m => panic!("unknown mode {m}"),
    }
    let n = trace.finish();
    println!("{}", json!({"events": n, "counts": counts}));
}

