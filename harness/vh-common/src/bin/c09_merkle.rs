//! C09 — Merkle membership proofs on the real code.
//! `--mode stm`   : TLC-generated proofs (hash *terms*) for the signer-registration tree are evaluated
//!                  to real Blake2b-256 hashes and handed to the real batch-path verifier.
//! `--mode mk`    : generic MKTree / MKProof (mountain range), proofs mutated through serde.
//! `--mode mkmap` : nested MKMap / MKMapProof (block-range map), proofs mutated through serde.
use std::collections::BTreeMap;

use blake2::{Blake2b, digest::consts::U32};
use digest::Digest;
use mithril_common::crypto_helper::{MKMap, MKMapNode, MKMapProof, MKProof, MKTree, MKTreeNode, MKTreeStoreInMemory};
use mithril_common::entities::{BlockNumber, BlockRange};
use mithril_stm::verif::{MerkleTreeLeaf, batch_path_new, batch_path_parts, merkle_tree_batch_commitment, merkle_tree_batch_path, merkle_tree_new, verify_batch_path};
use vh_core::{Args, ChaCha20Rng, Guarded, Trace, Value, below, guarded, json, quiet_panics, read_ndjson, rng};

type Hh = Blake2b<U32>;

#[derive(Clone, Copy, Debug)]
struct Lf(u64);
impl MerkleTreeLeaf for Lf {
    fn as_bytes_for_merkle_tree(&self) -> Vec<u8> {
        self.0.to_be_bytes().to_vec()
    }
}

/// evaluate a hash term printed by TLC: ["L", v] | ["H", l, r] | ["Z"] | ["J", i]
fn eval(t: &Value) -> Vec<u8> {
    let a = t.as_array().unwrap();
    match a[0].as_str().unwrap() {
        "L" => Hh::digest(Lf(a[1].as_u64().unwrap()).as_bytes_for_merkle_tree()).to_vec(),
        "H" => Hh::new().chain_update(eval(&a[1])).chain_update(eval(&a[2])).finalize().to_vec(),
        "Z" => Hh::digest([0u8]).to_vec(),
        _ => Hh::digest(format!("junk-{}", a[1]).as_bytes()).to_vec(),
    }
}

fn verdict(r: Guarded<bool>) -> Value {
    match r {
        Guarded::Done(b) => json!(b),
        Guarded::Panic(m) => json!(format!("panic: {m}")),
    }
}

fn mk_leaf(tag: &str, i: usize) -> MKTreeNode {
    format!("{tag}-leaf-{i}").into()
}

fn main() {
    quiet_panics();
    let args = Args::parse();
    let mut trace = Trace::create(args.req("out"));
    let seed = args.num("seed", 1);
    let mut r = rng(seed, 9);
    let mut summary: BTreeMap<String, u64> = BTreeMap::new();
    match args.req("mode").as_str() {
        "stm" => {
            for c in read_ndjson(args.req("cases")) {
                let n = c["n"].as_u64().unwrap() as usize;
                let leaves: Vec<Lf> = (1..=n as u64).map(Lf).collect();
                let tree = merkle_tree_new::<Hh, Lf>(&leaves);
                let com = merkle_tree_batch_commitment(&tree);
                // conformance of the tree construction: the model's root term is the real root
                if eval(&c["root"]) != com.root {
                    *summary.entry("root_mismatch".into()).or_default() += 1;
                }
                let vals: Vec<Lf> = c["vals"].as_array().unwrap().iter().map(|v| Lf(v.as_u64().unwrap())).collect();
                let values: Vec<Vec<u8>> = c["values"].as_array().unwrap().iter().map(eval).collect();
                let indices: Vec<usize> = c["indices"].as_array().unwrap().iter().map(|v| v.as_u64().unwrap() as usize).collect();
                let path = batch_path_new::<Hh>(values, indices.clone());
                let res = guarded(|| verify_batch_path(&com, &vals, &path).is_ok());
                // what this proof vouches for, recomputed from the values handed to the verifier
                let vouched: Vec<Value> = vals
                    .iter()
                    .zip(indices.iter().chain(std::iter::repeat(&usize::MAX)))
                    .map(|(v, i)| json!({"idx": (*i).min(1000), "val": v.0, "committed": *i < n && v.0 == *i as u64 + 1}))
                    .collect();
                let acc = verdict(res);
                if acc != c["impl"] {
                    *summary.entry("prediction_mismatch".into()).or_default() += 1;
                }
                *summary.entry(format!("accepted:{acc}")).or_default() += 1;
                trace.emit(json!({"ev":"BatchVerify","n":n,"vouched":vouched,"nvals":vals.len(),"nidx":indices.len(),
                    "accepted":acc,"predicted":c["impl"]}));
                // honest path generator conformance (only for honest cases: sorted in-range distinct indices)
                let honest = indices.windows(2).all(|w| w[0] < w[1]) && indices.iter().all(|i| *i < n) && !indices.is_empty();
                if honest {
                    let real = batch_path_parts(&merkle_tree_batch_path(&tree, indices.clone()));
                    let ok = guarded(|| {
                        let honest_vals: Vec<Lf> = indices.iter().map(|i| leaves[*i]).collect();
                        verify_batch_path(&com, &honest_vals, &batch_path_new::<Hh>(real.0.clone(), real.1.clone())).is_ok()
                    });
                    trace.emit(json!({"ev":"HonestProof","structure":"stm","n":n,"indices":indices,"accepted":verdict(ok)}));
                }
            }
            // sampled larger trees: honest proofs verify, one-change proofs judged by the same contract
            for _ in 0..args.num("big", 60) {
                let n = 6 + below(&mut r, 60) as usize;
                let leaves: Vec<Lf> = (1..=n as u64).map(Lf).collect();
                let tree = merkle_tree_new::<Hh, Lf>(&leaves);
                let com = merkle_tree_batch_commitment(&tree);
                let mut idx: Vec<usize> = (0..n).filter(|_| below(&mut r, 4) == 0).collect();
                if idx.is_empty() {
                    idx.push(below(&mut r, n as u64) as usize);
                }
                let (values, indices) = batch_path_parts(&merkle_tree_batch_path(&tree, idx.clone()));
                let hv: Vec<Lf> = idx.iter().map(|i| leaves[*i]).collect();
                let ok = guarded(|| verify_batch_path(&com, &hv, &batch_path_new::<Hh>(values.clone(), indices.clone())).is_ok());
                trace.emit(json!({"ev":"HonestProof","structure":"stm","n":n,"indices":idx,"accepted":verdict(ok)}));
                for _ in 0..6 {
                    let (mut v2, mut i2, mut l2) = (values.clone(), indices.clone(), hv.clone());
                    match below(&mut r, 6) {
                        0 => { let j = below(&mut r, l2.len() as u64) as usize; l2[j] = Lf(10_000 + below(&mut r, 100)); }
                        1 => { let j = below(&mut r, i2.len() as u64) as usize; i2[j] = below(&mut r, n as u64 + 3) as usize; }
                        2 => { if !v2.is_empty() { let j = below(&mut r, v2.len() as u64) as usize; v2[j][0] ^= 1; } }
                        3 => { l2.push(Lf(777)); i2.push(*i2.last().unwrap()); }
                        4 => { l2.push(Lf(777)); i2.push((1usize << 40) - 1); }
                        _ => { if l2.len() > 1 { l2.swap(0, 1); } }
                    }
                    let res = guarded(|| verify_batch_path(&com, &l2, &batch_path_new::<Hh>(v2.clone(), i2.clone())).is_ok());
                    let vouched: Vec<Value> = l2.iter().zip(i2.iter().chain(std::iter::repeat(&usize::MAX)))
                        .map(|(v, i)| json!({"idx": (*i).min(1000), "val": v.0.min(1_000_000), "committed": *i < n && v.0 == *i as u64 + 1})).collect();
                    trace.emit(json!({"ev":"BatchVerify","n":n,"vouched":vouched,"nvals":l2.len(),"nidx":i2.len(),"accepted":verdict(res),"predicted":"n/a"}));
                }
            }
        }
        "mk" => {
            let max_n = args.num("maxn", 7) as usize;
            for n in 1..=max_n {
                let leaves: Vec<MKTreeNode> = (0..n).map(|i| mk_leaf("t", i)).collect();
                let tree = MKTree::<MKTreeStoreInMemory>::new(&leaves).unwrap();
                let root = tree.compute_root().unwrap();
                // position of every committed leaf (from the proof of all leaves)
                let full = serde_json::to_value(tree.compute_proof(&leaves).unwrap()).unwrap();
                let pos_of: BTreeMap<u64, Value> = full["inner_leaves"].as_array().unwrap().iter().map(|e| (e[0].as_u64().unwrap(), e[1].clone())).collect();
                let subsets: Vec<Vec<usize>> = (1u32..(1 << n)).filter(|_m| n <= 4 || below(&mut r, 1 << (n - 4)) == 0).map(|m| (0..n).filter(|i| m & (1 << i) != 0).collect()).collect();
                for s in subsets {
                    let sel: Vec<MKTreeNode> = s.iter().map(|i| leaves[*i].clone()).collect();
                    let proof = tree.compute_proof(&sel).unwrap();
                    let ok = guarded(|| proof.verify().is_ok() && proof.contains(&sel).is_ok() && *proof.root() == root);
                    trace.emit(json!({"ev":"HonestProof","structure":"mk","n":n,"indices":s,"accepted":verdict(ok)}));
                    let honest = serde_json::to_value(&proof).unwrap();
                    for m in 0..MK_MUTS {
                        let mut p = honest.clone();
                        if !mutate_mk(&mut p, m, &pos_of, &mut r) {
                            continue;
                        }
                        emit_mk(&mut trace, &p, &root, &pos_of, n, m, &mut summary);
                    }
                }
            }
        }
        "mkmap" => {
            for round in 0..args.num("rounds", 12) {
                let nranges = 2 + (round % 2) as usize;
                let build = |tag: &str| -> (MKMap<BlockRange, MKMapNode<BlockRange, MKTreeStoreInMemory>, MKTreeStoreInMemory>, Vec<Vec<MKTreeNode>>) {
                    let mut all = vec![];
                    let entries: Vec<(BlockRange, MKMapNode<BlockRange, MKTreeStoreInMemory>)> = (0..nranges as u64)
                        .map(|k| {
                            let ls: Vec<MKTreeNode> = (0..(2 + (k as usize + round as usize) % 2)).map(|i| mk_leaf(&format!("{tag}{k}"), i)).collect();
                            all.push(ls.clone());
                            (BlockRange::from_block_number(BlockNumber(k * 15)), MKTree::<MKTreeStoreInMemory>::new(&ls).unwrap().into())
                        })
                        .collect();
                    (MKMap::new(&entries).unwrap(), all)
                };
                let (map, committed) = build("r");
                let (foreign_map, foreign) = build("f");
                let root = map.compute_root().unwrap();
                let mut all_committed: Vec<MKTreeNode> = committed.iter().flatten().cloned().collect();
                let item_leaves = all_committed.clone();
                // the (key + sub-root) leaves of the master tree are committed too (a map proof without
                // sub-proofs is a proof about those)
                {
                    let full = serde_json::to_value(map.compute_proof(&item_leaves).unwrap()).unwrap();
                    for e in full["master_proof"]["inner_leaves"].as_array().unwrap() {
                        all_committed.push(serde_json::from_value(e[1].clone()).unwrap());
                    }
                }
                // queried subsets: one leaf, one per range, all
                let mut queries: Vec<Vec<MKTreeNode>> = vec![vec![committed[0][0].clone()], committed.iter().map(|l| l[0].clone()).collect(), item_leaves.clone()];
                queries.push(vec![committed[nranges - 1][1].clone(), committed[0][1].clone()]);
                for q in queries {
                    let proof = map.compute_proof(&q).unwrap();
                    let ok = guarded(|| proof.verify().is_ok() && q.iter().all(|l| proof.contains(l).is_ok()) && proof.compute_root() == root);
                    trace.emit(json!({"ev":"HonestProof","structure":"mkmap","n":nranges,"indices":[q.len()],"accepted":verdict(ok)}));
                    let honest = serde_json::to_value(&proof).unwrap();
                    let fproof = serde_json::to_value(foreign_map.compute_proof(&[foreign[0][0].clone()]).unwrap()).unwrap();
                    for m in 0..MAP_MUTS {
                        let mut p = honest.clone();
                        if !mutate_map(&mut p, m, &fproof, &mut r) {
                            continue;
                        }
                        let Ok(mp) = serde_json::from_value::<MKMapProof<BlockRange>>(p.clone()) else {
                            *summary.entry("undecodable".into()).or_default() += 1;
                            continue;
                        };
                        let verified = guarded(|| mp.verify().is_ok());
                        let root_ok = mp.compute_root() == root;
                        // every candidate item: committed leaves, foreign leaves, and whatever the proof lists
                        let mut candidates: Vec<MKTreeNode> = all_committed.clone();
                        candidates.extend(foreign.iter().flatten().cloned());
                        candidates.extend(mp.leaves());
                        let vouched: Vec<Value> = candidates
                            .iter()
                            .filter(|x| mp.contains(x).is_ok())
                            .map(|x| json!({"committed": all_committed.contains(x)}))
                            .collect();
                        *summary.entry(format!("mkmap:{}:{}", MAP_MUT_NAMES[m], verdict(guarded(|| mp.verify().is_ok() && root_ok)))).or_default() += 1;
                        let mut ev = json!({"ev":"MapVerify","mut":MAP_MUT_NAMES[m],"root_ok":root_ok,"accepted":verdict(verified),"vouched":vouched});
                        if root_ok && ev["accepted"] == true && ev["vouched"].as_array().unwrap().iter().any(|v| v["committed"] == false) {
                            let which: Vec<String> = candidates.iter().filter(|x| mp.contains(x).is_ok() && !all_committed.contains(x)).map(|x| x.to_hex()).collect();
                            ev["uncommitted"] = json!(which);
                            ev["proof"] = json!(p.to_string());
                        }
                        trace.emit(ev);
                    }
                }
            }
        }
        m => panic!("unknown mode {m}"),
    }
    let n = trace.finish();
    summary.insert("events".into(), n);
    println!("{}", serde_json::to_string(&summary).unwrap());
}

const MK_MUTS: usize = 11;
const MK_MUT_NAMES: [&str; MK_MUTS] = ["none", "leaf_foreign", "leaf_other_committed", "pos_other", "pos_out_of_range", "swap_leaves",
    "item_flip", "item_drop", "size_change", "claim_internal_node", "shift_bytes_leaf_sibling"];

fn mutate_mk(p: &mut Value, m: usize, pos_of: &BTreeMap<u64, Value>, r: &mut ChaCha20Rng) -> bool {
    let nl = p["inner_leaves"].as_array().unwrap().len();
    let j = below(r, nl as u64) as usize;
    match MK_MUT_NAMES[m] {
        "none" => true,
        "leaf_foreign" => { p["inner_leaves"][j][1] = json!({"hash": b"foreign-leaf".to_vec()}); true }
        "leaf_other_committed" => {
            let cur = p["inner_leaves"][j][1].clone();
            let Some(o) = pos_of.values().find(|v| **v != cur) else { return false };
            p["inner_leaves"][j][1] = o.clone();
            true
        }
        "pos_other" => {
            let cur = p["inner_leaves"][j][0].as_u64().unwrap();
            let Some(o) = pos_of.keys().find(|k| **k != cur) else { return false };
            p["inner_leaves"][j][0] = json!(o);
            true
        }
        "pos_out_of_range" => { p["inner_leaves"][j][0] = json!(p["inner_proof_size"].as_u64().unwrap() + 1 + below(r, 5)); true }
        "swap_leaves" => {
            if nl < 2 { return false }
            let a = p["inner_leaves"][0][1].clone();
            p["inner_leaves"][0][1] = p["inner_leaves"][1][1].clone();
            p["inner_leaves"][1][1] = a;
            true
        }
        "item_flip" => {
            let ni = p["inner_proof_items"].as_array().unwrap().len();
            if ni == 0 { return false }
            let k = below(r, ni as u64) as usize;
            let b = p["inner_proof_items"][k]["hash"][0].as_u64().unwrap();
            p["inner_proof_items"][k]["hash"][0] = json!((b + 1) % 256);
            true
        }
        "item_drop" => { p["inner_proof_items"].as_array_mut().unwrap().pop().is_some() }
        "size_change" => { let s = p["inner_proof_size"].as_u64().unwrap(); p["inner_proof_size"] = json!(s + 1 + below(r, 3)); true }
        "shift_bytes_leaf_sibling" => {
            // leaves are raw byte strings and a parent is H(left || right) without length prefixes: move the
            // boundary between a leaf and its sibling (a proof item) by one byte
            if nl != 1 || p["inner_proof_items"].as_array().unwrap().is_empty() {
                return false;
            }
            let pos = p["inner_leaves"][0][0].as_u64().unwrap();
            if pos > 1 || pos_of.len() < 2 {
                return false;
            }
            let mut leaf: Vec<u64> = p["inner_leaves"][0][1]["hash"].as_array().unwrap().iter().map(|b| b.as_u64().unwrap()).collect();
            let mut sib: Vec<u64> = p["inner_proof_items"][0]["hash"].as_array().unwrap().iter().map(|b| b.as_u64().unwrap()).collect();
            if pos == 0 {
                // H(leaf || sibling): the last byte of the leaf becomes the first byte of the sibling
                let Some(b) = leaf.pop() else { return false };
                sib.insert(0, b);
            } else {
                // H(sibling || leaf): the last byte of the sibling becomes the first byte of the leaf
                let Some(b) = sib.pop() else { return false };
                leaf.insert(0, b);
            }
            p["inner_leaves"][0][1]["hash"] = json!(leaf);
            p["inner_proof_items"][0]["hash"] = json!(sib);
            true
        }
        "claim_internal_node" => {
            // present the parent of the two first leaves (an internal node, MMR position 2) as a "leaf"
            if pos_of.len() < 2 { return false }
            let l0: MKTreeNode = serde_json::from_value(pos_of[&0].clone()).unwrap();
            let l1: MKTreeNode = serde_json::from_value(pos_of[&1].clone()).unwrap();
            let parent = l0 + l1;
            let keep: Vec<Value> = p["inner_leaves"].as_array().unwrap().iter().filter(|e| e[0].as_u64().unwrap() > 2).cloned().collect();
            let had = p["inner_leaves"].as_array().unwrap().iter().any(|e| e[0].as_u64().unwrap() <= 1);
            if !had { return false }
            let mut v = vec![json!([2, serde_json::to_value(&parent).unwrap()])];
            v.extend(keep);
            p["inner_leaves"] = json!(v);
            // the siblings that were needed to rebuild position 2 are no longer needed
            true
        }
        _ => false,
    }
}

fn emit_mk(trace: &mut Trace, p: &Value, root: &MKTreeNode, pos_of: &BTreeMap<u64, Value>, n: usize, m: usize, summary: &mut BTreeMap<String, u64>) {
    let Ok(proof) = serde_json::from_value::<MKProof>(p.clone()) else {
        *summary.entry("undecodable".into()).or_default() += 1;
        return;
    };
    let verified = guarded(|| proof.verify().is_ok());
    let root_ok = proof.root() == root;
    let vouched: Vec<Value> = p["inner_leaves"].as_array().unwrap().iter()
        .map(|e| json!({"pos": e[0].as_u64().unwrap().min(100000), "committed": pos_of.get(&e[0].as_u64().unwrap()) == Some(&e[1])}))
        .collect();
    *summary.entry(format!("mk:{}:{}", MK_MUT_NAMES[m], verdict(guarded(|| proof.verify().is_ok() && root_ok)))).or_default() += 1;
    let committed_hashes: Vec<&Value> = pos_of.values().collect();
    let wrong: Vec<&Value> = p["inner_leaves"].as_array().unwrap().iter().filter(|e| pos_of.get(&e[0].as_u64().unwrap()) != Some(&e[1])).collect();
    // every wrongly placed leaf is a committed leaf of another position (position malleability only)
    let moved_only = !wrong.is_empty() && wrong.iter().all(|e| committed_hashes.contains(&&e[1]));
    let suspicious = verified_is_true(&verdict(guarded(|| proof.verify().is_ok()))) && root_ok && vouched.iter().any(|v| v["committed"] == false);
    let mut ev = json!({"ev":"MkVerify","n":n,"mut":MK_MUT_NAMES[m],"root_ok":root_ok,"accepted":verdict(verified),"vouched":vouched,"moved_only":moved_only});
    if suspicious {
        ev["proof"] = json!(p.to_string());
    }
    trace.emit(ev);
}

fn verified_is_true(v: &Value) -> bool {
    *v == json!(true)
}

const MAP_MUTS: usize = 9;
const MAP_MUT_NAMES: [&str; MAP_MUTS] = ["none", "sub_leaf_foreign", "swap_sub_proofs", "sub_replaced_by_foreign", "key_changed",
    "detach_sub_proof", "master_leaf_flip", "add_foreign_sub_proof", "sub_item_flip"];

fn mutate_map(p: &mut Value, m: usize, fproof: &Value, r: &mut ChaCha20Rng) -> bool {
    let ns = p["sub_proofs"].as_array().unwrap().len();
    if ns == 0 { return false }
    let j = below(r, ns as u64) as usize;
    match MAP_MUT_NAMES[m] {
        "none" => true,
        "sub_leaf_foreign" => { p["sub_proofs"][j][1]["master_proof"]["inner_leaves"][0][1] = json!({"hash": b"f0-leaf-0".to_vec()}); true }
        "swap_sub_proofs" => {
            if ns < 2 { return false }
            let a = p["sub_proofs"][0][1].clone();
            p["sub_proofs"][0][1] = p["sub_proofs"][1][1].clone();
            p["sub_proofs"][1][1] = a;
            true
        }
        "sub_replaced_by_foreign" => { p["sub_proofs"][j][1] = fproof["sub_proofs"][0][1].clone(); true }
        "key_changed" => { p["sub_proofs"][j][0] = json!({"inner_range": {"start": 150, "end": 165}}); true }
        "detach_sub_proof" => { p["sub_proofs"].as_array_mut().unwrap().remove(j); true }
        "master_leaf_flip" => {
            let b = p["master_proof"]["inner_leaves"][0][1]["hash"][0].as_u64().unwrap();
            p["master_proof"]["inner_leaves"][0][1]["hash"][0] = json!((b + 1) % 256);
            true
        }
        "add_foreign_sub_proof" => { let f = fproof["sub_proofs"][0].clone(); p["sub_proofs"].as_array_mut().unwrap().push(f); true }
        "sub_item_flip" => {
            let items = p["sub_proofs"][j][1]["master_proof"]["inner_proof_items"].as_array().unwrap().len();
            if items == 0 { return false }
            let b = p["sub_proofs"][j][1]["master_proof"]["inner_proof_items"][0]["hash"][0].as_u64().unwrap();
            p["sub_proofs"][j][1]["master_proof"]["inner_proof_items"][0]["hash"][0] = json!((b + 1) % 256);
            true
        }
        _ => false,
    }
}
