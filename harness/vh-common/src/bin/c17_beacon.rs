//! C17 — beacons to sign. Drives the real `SignedEntityConfig::time_point_to_signed_entity`
//! over a box of (kind, security parameter, step, tip sequences) and writes an ndjson trace that
//! TLC validates against `spec/beacon/BeaconTrace.tla`.
use std::collections::BTreeSet;

use mithril_common::entities::{
    BlockNumber, BlockNumberOffset, CardanoBlocksTransactionsSigningConfig,
    CardanoTransactionsSigningConfig, ChainPoint, SignedEntityConfig, SignedEntityType,
    SignedEntityTypeDiscriminants, SlotNumber, TimePoint,
};
use vh_core::{Args, Guarded, Trace, below, guarded, json, quiet_panics, rng};

fn config(sec: u64, step: u64) -> SignedEntityConfig {
    SignedEntityConfig {
        allowed_discriminants: BTreeSet::from([
            SignedEntityTypeDiscriminants::CardanoTransactions,
            SignedEntityTypeDiscriminants::CardanoBlocksTransactions,
            SignedEntityTypeDiscriminants::CardanoStakeDistribution,
            SignedEntityTypeDiscriminants::CardanoDatabase,
        ]),
        cardano_transactions_signing_config: Some(CardanoTransactionsSigningConfig {
            security_parameter: BlockNumberOffset(sec),
            step: BlockNumber(step),
        }),
        cardano_blocks_transactions_signing_config: Some(CardanoBlocksTransactionsSigningConfig {
            security_parameter: BlockNumberOffset(sec),
            step: BlockNumber(step),
        }),
    }
}

fn time_point(epoch: u64, imm: u64, tip: u64) -> TimePoint {
    TimePoint::new(
        epoch,
        imm,
        ChainPoint::new(SlotNumber(tip.wrapping_mul(20)), BlockNumber(tip), format!("hash-{tip}")),
    )
}

/// The beacon the real code selects, or a panic / error description.
fn beacon(kind: &str, cfg: &SignedEntityConfig, epoch: u64, tip: u64) -> Result<u64, String> {
    let disc = match kind {
        "tx" => SignedEntityTypeDiscriminants::CardanoTransactions,
        _ => SignedEntityTypeDiscriminants::CardanoBlocksTransactions,
    };
    let tp = time_point(epoch, 1, tip);
    match guarded(|| cfg.time_point_to_signed_entity(disc, &tp)) {
        Guarded::Panic(m) => Err(format!("panic: {m}")),
        Guarded::Done(Err(e)) => Err(format!("error: {e}")),
        Guarded::Done(Ok(SignedEntityType::CardanoTransactions(e, b))) if kind == "tx" && *e == epoch => Ok(*b),
        Guarded::Done(Ok(SignedEntityType::CardanoBlocksTransactions(e, b, o)))
            if kind == "blk" && *e == epoch && o == cfg.cardano_blocks_transactions_signing_config.as_ref().unwrap().security_parameter =>
        {
            Ok(*b)
        }
        Guarded::Done(Ok(other)) => Err(format!("unexpected entity {other:?}")),
    }
}

fn main() {
    quiet_panics();
    let args = Args::parse();
    let mut trace = Trace::create(args.req("out"));
    let seed = args.num("seed", 1);
    let thorough = args.get("tier").as_deref() == Some("thorough");
    let mut r = rng(seed, 17);

    // ---- the box (values stay far below 2^31 so TLC can do the arithmetic) ---------------
    let secs: Vec<u64> = if thorough { (0..=40).collect() } else { vec![0, 1, 7, 14, 15, 16, 29, 40] };
    let steps: Vec<u64> = if thorough {
        (0..=50).chain([59, 60, 61, 75, 90, 100, 119, 120, 121]).collect()
    } else {
        vec![0, 1, 2, 7, 14, 15, 16, 29, 30, 31, 44, 45, 50]
    };
    let max_tip: u64 = if thorough { 260 } else { 140 };
    let mut configs = 0u64;
    let mut tips = 0u64;
    for kind in ["tx", "blk"] {
        for &sec in &secs {
            for &step in &steps {
                let cfg = config(sec, step);
                trace.emit(json!({"ev":"Config","kind":kind,"sec":sec,"step":step}));
                configs += 1;
                // every successive tip, then a seeded random increasing walk with bigger jumps
                let mut seq: Vec<u64> = (0..=max_tip).collect();
                let mut t = max_tip;
                for _ in 0..20 {
                    t += below(&mut r, 3 * step.max(15) + 2);
                    seq.push(t);
                }
                for tip in seq {
                    tips += 1;
                    match beacon(kind, &cfg, 3, tip) {
                        Ok(out) => trace.emit(json!({"ev":"Tip","tip":tip,"out":out})),
                        Err(m) => trace.emit(json!({"ev":"Panic","tip":tip,"what":m})),
                    }
                }
            }
        }
    }

    // ---- purity / agreement: the same (time point, config) evaluated several ways ---------
    let mut pure = 0u64;
    for _ in 0..(if thorough { 4000 } else { 600 }) {
        let sec = below(&mut r, 50);
        let step = below(&mut r, 130);
        let (epoch, imm, tip) = (below(&mut r, 5), below(&mut r, 9), below(&mut r, 2000));
        for disc in [
            SignedEntityTypeDiscriminants::MithrilStakeDistribution,
            SignedEntityTypeDiscriminants::CardanoStakeDistribution,
            SignedEntityTypeDiscriminants::CardanoDatabase,
            SignedEntityTypeDiscriminants::CardanoTransactions,
            SignedEntityTypeDiscriminants::CardanoBlocksTransactions,
        ] {
            let show = |res: Guarded<mithril_common::StdResult<SignedEntityType>>| match res {
                Guarded::Panic(m) => format!("panic: {m}"),
                Guarded::Done(Err(_)) => "error".to_string(),
                Guarded::Done(Ok(e)) => serde_json::to_string(&e).unwrap(),
            };
            // (a) "aggregator": config built directly
            let a = config(sec, step);
            let tp = time_point(epoch, imm, tip);
            let ra = show(guarded(|| a.time_point_to_signed_entity(disc, &tp)));
            // (b) "signer": signing configs received through their JSON form, independent
            //     time point object with a different block hash / slot (not part of the beacon)
            let b = SignedEntityConfig {
                allowed_discriminants: BTreeSet::from([disc]),
                cardano_transactions_signing_config: serde_json::from_str(
                    &serde_json::to_string(&a.cardano_transactions_signing_config).unwrap(),
                )
                .unwrap(),
                cardano_blocks_transactions_signing_config: serde_json::from_str(
                    &serde_json::to_string(&a.cardano_blocks_transactions_signing_config).unwrap(),
                )
                .unwrap(),
            };
            let tp_b = TimePoint::new(
                epoch,
                imm,
                ChainPoint::new(SlotNumber(tip * 20 + 7), BlockNumber(tip), "other-hash"),
            );
            let rb = show(guarded(|| b.time_point_to_signed_entity(disc, &tp_b)));
            // (c) through list_allowed_signed_entity_types
            let rc = match guarded(|| b.list_allowed_signed_entity_types(&tp)) {
                Guarded::Panic(m) => format!("panic: {m}"),
                Guarded::Done(Err(_)) => "error".to_string(),
                Guarded::Done(Ok(list)) => list
                    .into_iter()
                    .find(|e| SignedEntityTypeDiscriminants::from(e) == disc)
                    .map(|e| serde_json::to_string(&e).unwrap())
                    .unwrap_or_else(|| "absent".to_string()),
            };
            // the CardanoStakeDistribution of epoch 0 is an error on path (a)/(b); then (c), which
            // lists several entities, fails as a whole: compare (c) only when (a) is a value.
            let results = if ra == "error" { vec![ra, rb] } else { vec![ra, rb, rc] };
            if results.iter().any(|s| s.starts_with("panic")) {
                trace.emit(json!({"ev":"Panic","what":results}));
            } else {
                trace.emit(json!({"ev":"Pure","disc":format!("{disc:?}"),"epoch":epoch,"imm":imm,"tip":tip,
                                  "sec":sec,"step":step,"results":results}));
            }
            pure += 1;
        }
    }

    // ---- u64 extremes: TLC integers are 32 bit, so the relations are evaluated here in u128
    //      and TLC only checks the recorded verdicts (smaller-trust sub-result, see DESIGN) ----
    let ext: Vec<u64> = vec![
        0, 1, 14, 15, 16, (1 << 31) - 1, 1 << 31, (1 << 32) + 1, (1 << 63) - 1, 1 << 63, (1 << 63) + 15,
        u64::MAX - 16, u64::MAX - 15, u64::MAX - 14, u64::MAX - 1, u64::MAX,
    ];
    let mut big = 0u64;
    for kind in ["tx", "blk"] {
        for &sec in &ext {
            // a step within 15 of u64::MAX makes `BlockRange::from_block_number(step)` overflow its
            // own end bound (start + LENGTH): a configuration outside the property's domain
            for &step in ext.iter().filter(|s| **s <= u64::MAX - 15) {
                let cfg = config(sec, step);
                let eff: u128 = if kind == "tx" { ((step / 15 * 15).max(15)) as u128 } else { step.max(1) as u128 };
                let mut prev: Option<(u64, u64)> = None;
                let mut tipsv = ext.clone();
                tipsv.sort();
                for &tip in &tipsv {
                    big += 1;
                    match beacon(kind, &cfg, 3, tip) {
                        Err(m) => trace.emit(json!({"ev":"Panic","kind":kind,"sec":sec.to_string(),"step":step.to_string(),"tip":tip.to_string(),"what":m})),
                        Ok(out) => {
                            let margin = tip.saturating_sub(sec) as u128;
                            let le_margin = (out as u128) <= margin;
                            let boundary = !(kind == "tx" && margin >= eff) || (out as u128 + 1) % 15 == 0;
                            let (mono, whole) = match prev {
                                None => (true, true),
                                Some((ptip, pout)) => {
                                    let applies = kind == "blk" || (ptip.saturating_sub(sec) as u128) >= eff;
                                    (out >= pout, !applies || out < pout || ((out - pout) as u128) % eff == 0)
                                }
                            };
                            trace.emit(json!({"ev":"Big","kind":kind,"sec":sec.to_string(),"step":step.to_string(),
                                "tip":tip.to_string(),"out":out.to_string(),
                                "le_margin":le_margin,"mono":mono,"whole":whole,"boundary":boundary}));
                            prev = Some((tip, out));
                        }
                    }
                }
            }
        }
    }
    let n = trace.finish();
    println!("{}", json!({"events": n, "configs": configs, "tips": tips, "pure": pure, "big": big}));
}
