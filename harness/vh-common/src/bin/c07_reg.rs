//! C07 — signer registration requires a genuine, pool-bound, stake-bound key (mithril-common level).
//!
//! Abstract registrations enumerated by TLC (spec/reg) — every component tagged with its origin —
//! are realised with REAL cold keys, operational certificates, Sum6 KES keys, BLS keys and proofs
//! of possession (see c07kit.rs) and handed to `ProtocolKeyRegistration::register`
//! (`KeyRegWrapper`, built WITHOUT `allow_skip_signer_certification`). Every call is logged with the
//! projection recomputed from the real values by independent oracles, the verdict, the party id
//! returned and the whole projected state of the registration object (closed-registration entries).
//!
//!   --mode cases   --cases <ndjson from TLC>     spec -> impl (+ predicted verdicts)
//!   --mode random  --n <N>                        seeded byte-level / structural mutation stacks
//!   --mode confirm                                plain-text reproduction of the two findings
#[path = "../c07kit.rs"]
mod kit;

use kit::{LAST_EVO, Material, RealReg, make_opcert, opcert_body, split};
use mithril_common::crypto_helper::{
    KesEvolutions, ProtocolKey, ProtocolKeyRegistration, ProtocolParameters, SignerRegistrationParameters,
};
use mithril_stm::VerificationKeyProofOfPossessionForConcatenation as VkPop;
use vh_core::{Args, ChaCha20Rng, Guarded, Trace, Value, below, guarded, json, read_ndjson, rng};

const UMAX: u64 = 200;

struct World {
    mat: Material,
    params: ProtocolParameters,
}

struct Round {
    reg: ProtocolKeyRegistration,
    dist: Vec<(String, u64)>,
}

fn open(trace: &mut Trace, w: &World, dist: Vec<(String, u64)>) -> Round {
    trace.emit(json!({"ev":"Open","level":"wrapper","dist": w.mat.project_dist(&dist)}));
    Round { reg: ProtocolKeyRegistration::init(&dist), dist }
}

/// projected state of the real registration object: [[vk label, stake], ...]
fn state_of(w: &World, reg: &ProtocolKeyRegistration) -> Vec<(String, String)> {
    match reg.clone().close(&w.params) {
        Ok(closed) => {
            let mut v: Vec<(String, String)> = closed
                .closed_registration_entries
                .iter()
                .map(|e| {
                    let mut b = [0u8; 96];
                    b.copy_from_slice(&e.get_verification_key_for_concatenation().to_bytes());
                    (w.mat.label_vk(&b), e.get_stake().to_string())
                })
                .collect();
            v.sort();
            v
        }
        Err(_) => vec![], // nothing registered (or only zero stakes): see `zero_total` below
    }
}

fn params_of(real: &RealReg) -> SignerRegistrationParameters {
    SignerRegistrationParameters {
        party_id: real.claimed_party.clone(),
        operational_certificate: real.opcert.clone().map(|c| c.into()),
        verification_key_for_concatenation: real.vkpop.into(),
        verification_key_signature_for_concatenation: real.kes_sig.map(ProtocolKey::new),
        kes_evolutions: real.announced.map(KesEvolutions),
    }
}

/// one real `register` call, fully logged
fn register(trace: &mut Trace, w: &World, round: &mut Round, real: &RealReg, extra: Value) -> bool {
    let proj = w.mat.project(
        real.opcert.as_ref(),
        real.kes_sig.as_ref(),
        &real.vkpop,
        real.claimed_party.as_deref(),
        real.claimed_stake.as_deref(),
        real.announced,
    );
    let p = params_of(real);
    let res = guarded(|| round.reg.register(p));
    let state = state_of(w, &round.reg);
    let (vk_bytes, _) = split(&real.vkpop);
    let vk_label = w.mat.label_vk(&vk_bytes);
    let mut ev = match res {
        Guarded::Done(Ok(party)) => {
            let stake = state.iter().find(|(k, _)| *k == vk_label).map(|(_, s)| s.clone()).unwrap_or("none".into());
            json!({"ev":"Register","accepted":true,"party": w.mat.label_pool_id(&party),"recordedStake":stake,"err":"none"})
        }
        Guarded::Done(Err(e)) => {
            let full = format!("{e:#}");
            let short = ["missing operational certificate", "missing KES period", "missing KES signature", "invalid operational certificate",
                         "KES signature verification error", "party id does not exist", "already been registered", "missing party id",
                         "pool address encoding", "core registration error"]
                .iter().find(|k| full.contains(**k)).map(|k| k.to_string()).unwrap_or_else(|| full.chars().take(60).collect());
            json!({"ev":"Register","accepted":false,"party":"none","recordedStake":"none","err":short})
        }
        Guarded::Panic(m) => json!({"ev":"Register","accepted":false,"party":"none","recordedStake":"none","err":"panic","panic":m}),
    };
    let o = ev.as_object_mut().unwrap();
    o.insert("level".into(), json!("wrapper"));
    // distinguishing field of the KES period-aliasing finding: the signature was made at the last
    // evolution a Sum6 key has (63), the announced value is 65, nothing else is wrong
    let alias = proj["kesSig"]["evo"].as_i64() == Some(LAST_EVO as i64) && proj["announcedExact"].as_str() == Some("65");
    o.insert("kes_last_evolution_aliased".into(), json!(alias && o["accepted"].as_bool().unwrap()));
    o.insert("reg".into(), proj);
    o.insert("state".into(), json!(state.iter().map(|(k, s)| json!([k, s])).collect::<Vec<_>>()));
    for (k, v) in extra.as_object().unwrap() {
        o.insert(k.clone(), v.clone());
    }
    let acc = o["accepted"].as_bool().unwrap();
    let _ = &round.dist;
    trace.emit(ev);
    acc
}

/// honest-shaped registration of `vk_label` by pool `p` (what a pool operator can always produce for
/// any key whose proof of possession is public): p's certificate, p's KES key, evolution `evo`
fn shaped(w: &World, p: &str, vk_label: &str, evo: u64) -> RealReg {
    let c = json!({
        "hasCert": true, "cold": p,
        "opcert": {"issuer": p, "kesVk": p, "sigOk": true, "start": w.mat.pool(p).start},
        "kesSig": {"byKes": p, "evo": evo, "overVk": vk_label, "overPop": true},
        "vk": vk_label, "pop": {"k1": vk_label, "k2": vk_label},
        "claimedParty": "none", "claimedStake": "none", "hasEvo": true, "announcedEvo": evo,
    });
    w.mat.realise(&c, UMAX).unwrap()
}

fn real_dist(w: &World, d: &Value) -> Vec<(String, u64)> {
    // an empty TLA+ function is printed as the empty sequence
    d.as_object().map(|o| o.iter().map(|(l, s)| (w.mat.pool(l).pool_id.clone(), s.as_u64().unwrap())).collect()).unwrap_or_default()
}

/// the realiser must produce exactly the abstract registration TLC asked for (harness bug otherwise)
fn self_check(case: &Value, proj: &Value) {
    let c = &case["reg"];
    let mut bad = vec![];
    for f in ["hasCert", "cold", "vk", "pop", "claimedParty", "hasEvo"] {
        if c[f] != proj[f] {
            bad.push(f.to_string());
        }
    }
    for f in ["issuer", "kesVk", "sigOk", "start"] {
        if c["opcert"][f] != proj["opcert"][f] {
            bad.push(format!("opcert.{f}"));
        }
    }
    for f in ["byKes", "evo", "overVk", "overPop"] {
        if c["kesSig"][f] != proj["kesSig"][f] {
            bad.push(format!("kesSig.{f}"));
        }
    }
    let want = kit::real_evo(c["announcedEvo"].as_u64().unwrap(), UMAX).to_string();
    if c["hasEvo"].as_bool().unwrap() && proj["announcedExact"].as_str() != Some(&want) {
        bad.push("announcedEvo".into());
    }
    if !bad.is_empty() {
        eprintln!("realiser mismatch on {bad:?}\n case {c}\n real {proj}");
        std::process::exit(3);
    }
}

fn run_cases(trace: &mut Trace, w: &World, path: &str) -> Value {
    let (mut n, mut acc, mut mism, mut pre_n) = (0u64, 0u64, 0u64, 0u64);
    for c in read_ndjson(path) {
        let dist = real_dist(w, &c["dist"]);
        let mut round = open(trace, w, dist);
        let reg = &c["reg"];
        // round state: the key already registered by nobody / the same pool / the other pool
        let pre = c["pre"].as_str().unwrap();
        if pre != "nobody" {
            let cold = reg["cold"].as_str().unwrap();
            let who = match (pre, cold) {
                ("same", "none") | ("same", "C") => "A",
                ("same", p) => p,
                (_, "A") => "B",
                _ => "A",
            };
            let r = shaped(w, who, reg["vk"].as_str().unwrap(), 5);
            register(trace, w, &mut round, &r, json!({"case": c["id"].to_string(), "mut": "pre", "pre": pre}));
            pre_n += 1;
        }
        let real = w.mat.realise(reg, UMAX).expect("realisable");
        let proj = w.mat.project(real.opcert.as_ref(), real.kes_sig.as_ref(), &real.vkpop, real.claimed_party.as_deref(),
                                 real.claimed_stake.as_deref(), real.announced);
        self_check(&c, &proj);
        let a = register(trace, w, &mut round, &real, json!({"case": c["id"].to_string(), "mut": c["mut"], "pre": pre, "predicted": c["impl"]}));
        n += 1;
        acc += a as u64;
        mism += (Some(a) != c["impl"].as_bool()) as u64;
    }
    json!({"cases": n, "accepted": acc, "pre_registrations": pre_n, "prediction_mismatches": mism})
}

// ---------------------------------------------------------------------------------- random mutation stacks
fn flip(b: &mut [u8], r: &mut ChaCha20Rng) {
    let i = below(r, b.len() as u64) as usize;
    b[i] ^= 1 << below(r, 8);
}

/// byte-level and structural mutations of an honest(-shaped) registration
fn mutate(w: &World, real: &mut RealReg, r: &mut ChaCha20Rng, classes: &mut std::collections::BTreeMap<String, u64>) -> Option<String> {
    let pools = ["A", "B", "C"];
    let other = |r: &mut ChaCha20Rng| w.mat.pool(pools[below(r, 3) as usize]);
    let k = below(r, 19);
    let name = match k {
        0 => { real.opcert = None; "no_cert" }
        1 => { real.kes_sig = None; "no_kes_sig" }
        2 => { real.announced = None; "no_evo" }
        3 => { real.announced = Some(real.announced.unwrap_or(0).wrapping_add(below(r, 7)).wrapping_sub(3)); "evo_shift" }
        4 => { real.announced = Some([0, 1, 62, 63, 64, 65, 66, u32::MAX as u64, u32::MAX as u64 + 63, u64::MAX - 1, u64::MAX][below(r, 11) as usize]); "evo_edge" }
        5 => { real.claimed_party = Some(other(r).pool_id.clone()); "claim_party" }
        6 => {
            // certificate fields: start / issue number changed after signing
            let c = real.opcert.as_ref()?;
            let (d_start, d_issue) = if below(r, 2) == 0 { (1u64, 0u64) } else { (0, 1) };
            real.opcert = Some(make_opcert(c.get_kes_verification_key().as_bytes(), c.get_issue_number() + d_issue,
                (*c.get_start_kes_period()).wrapping_add(d_start), &c.get_certificate_signature().to_bytes(), &c.get_cold_verification_key()));
            "cert_field"
        }
        7 => {
            let c = real.opcert.as_ref()?;
            let mut s = c.get_certificate_signature().to_bytes();
            flip(&mut s, r);
            real.opcert = Some(make_opcert(c.get_kes_verification_key().as_bytes(), c.get_issue_number(), *c.get_start_kes_period(), &s, &c.get_cold_verification_key()));
            "cert_sig_bit"
        }
        8 => {
            // another pool's cold key on the same certificate body
            let c = real.opcert.as_ref()?;
            real.opcert = Some(make_opcert(c.get_kes_verification_key().as_bytes(), c.get_issue_number(), *c.get_start_kes_period(),
                &c.get_certificate_signature().to_bytes(), &other(r).cold_vk));
            "cert_cold_swap"
        }
        9 => {
            // another KES key named by the body, signature left as is
            let c = real.opcert.as_ref()?;
            real.opcert = Some(make_opcert(other(r).kes_vk.as_bytes(), c.get_issue_number(), *c.get_start_kes_period(),
                &c.get_certificate_signature().to_bytes(), &c.get_cold_verification_key()));
            "cert_kes_swap"
        }
        10 => {
            // the pool re-issues a certificate naming somebody else's KES key (valid certificate)
            let c = real.opcert.as_ref()?;
            let owner = w.mat.pools.iter().find(|p| p.cold_vk == c.get_cold_verification_key())?;
            let kes = other(r).kes_vk;
            let st = *c.get_start_kes_period();
            use ed25519_dalek::Signer;
            let sig = owner.cold_sk.sign(&opcert_body(kes.as_bytes(), 1, st)).to_bytes();
            real.opcert = Some(make_opcert(kes.as_bytes(), 1, st, &sig, &owner.cold_vk));
            "cert_reissued_other_kes"
        }
        11 => { real.opcert = Some(other(r).opcert.clone()); "cert_of_other_pool" }
        12 => {
            let mut b = real.kes_sig?.to_bytes();
            flip(&mut b, r);
            real.kes_sig = kes_summed_ed25519::kes::Sum6KesSig::from_bytes(&b).ok();
            real.kes_sig?;
            "kes_sig_bit"
        }
        13 => {
            // KES signature by another pool's key / at another evolution over the same bytes
            let p = other(r).label;
            let evo = [0, 1, 30, 62, 63][below(r, 5) as usize];
            real.kes_sig = Some(w.mat.kes_sign(p, evo, &real.vkpop.to_bytes()));
            "kes_resign"
        }
        14 => {
            // splice: the key + PoP of another registration (its KES signature stays behind)
            let labels: Vec<&String> = w.mat.keys.keys().collect();
            let (vk, pop) = w.mat.keys[labels[below(r, labels.len() as u64) as usize]];
            real.vkpop = kit::join(&vk, &pop)?;
            "key_splice"
        }
        15 => {
            // half of another proof of possession
            let labels: Vec<&String> = w.mat.keys.keys().collect();
            let (_, opop) = w.mat.keys[labels[below(r, labels.len() as u64) as usize]];
            let (vk, mut pop) = split(&real.vkpop);
            if below(r, 2) == 0 { pop[..48].copy_from_slice(&opop[..48]) } else { pop[48..].copy_from_slice(&opop[48..]) }
            real.vkpop = kit::join(&vk, &pop)?;
            "pop_half_splice"
        }
        16 => {
            // sign bit of one encoded group element (vk, k1 or k2)
            let (mut vk, mut pop) = split(&real.vkpop);
            match below(r, 3) { 0 => vk[0] ^= 0x20, 1 => pop[0] ^= 0x20, _ => pop[48] ^= 0x20 }
            real.vkpop = kit::join(&vk, &pop)?;
            "sign_bit"
        }
        17 => {
            let (mut vk, mut pop) = split(&real.vkpop);
            if below(r, 2) == 0 { flip(&mut vk, r) } else { flip(&mut pop, r) }
            real.vkpop = kit::join(&vk, &pop)?;
            "key_bit"
        }
        _ => {
            // the attacker re-signs whatever the registration now carries with its own KES key
            let c = real.opcert.as_ref()?;
            let owner = w.mat.pools.iter().find(|p| p.kes_vk == c.get_kes_verification_key())?;
            let evo = real.announced.unwrap_or(0).min(LAST_EVO);
            real.kes_sig = Some(w.mat.kes_sign(owner.label, evo, &real.vkpop.to_bytes()));
            "resign_current"
        }
    };
    *classes.entry(name.to_string()).or_default() += 1;
    Some(name.to_string())
}

fn run_random(trace: &mut Trace, w: &World, seed: u64, n: u64) -> Value {
    let mut r = rng(seed, 7);
    let mut classes = std::collections::BTreeMap::new();
    let (mut calls, mut acc, mut undecodable) = (0u64, 0u64, 0u64);
    // (no zero stake / overflowing total here: the entries of the real object are only readable through
    // close_registration, which refuses both; the round level, where sqlite rows are read, has them)
    let stakes = [1u64, 7, 7, 1_000_000, u64::MAX / 8, u64::MAX / 4];
    for i in 0..n {
        // stake distribution: any subset of the pools, any stakes (equal ones, zero, extremes)
        let mut dist = vec![];
        for p in &w.mat.pools {
            if below(&mut r, 4) != 0 {
                dist.push((p.pool_id.clone(), stakes[below(&mut r, stakes.len() as u64) as usize]));
            }
        }
        if below(&mut r, 8) == 0 {
            dist.push(("pool1unknownunknownunknown".into(), 5));
        }
        let mut round = open(trace, w, dist);
        for step in 0..(1 + below(&mut r, 3)) {
            let p = ["A", "B", "C"][below(&mut r, 3) as usize];
            let key = if below(&mut r, 4) == 0 { ["A", "B", "C", "nA", "nB"][below(&mut r, 5) as usize].to_string() } else { p.to_string() };
            let evo = [0, 1, 5, 31, 62, 63][below(&mut r, 6) as usize];
            let mut real = shaped(w, p, &key, evo);
            let mut muts = vec![];
            for _ in 0..below(&mut r, 4) {
                match mutate(w, &mut real, &mut r, &mut classes) {
                    Some(m) => muts.push(m),
                    None => {
                        undecodable += 1;
                        muts.push("undecodable".into());
                    }
                }
            }
            let a = register(trace, w, &mut round, &real, json!({"case": format!("r{i}.{step}"), "mut": muts.join("+"), "pre": "n/a"}));
            calls += 1;
            acc += a as u64;
        }
    }
    json!({"random_calls": calls, "random_accepted": acc, "mutation_classes": classes, "mutations_without_encoding": undecodable})
}

fn confirm(w: &World) {
    // (1) the same key under two pools
    let dist: Vec<(String, u64)> = vec![(w.mat.pool("A").pool_id.clone(), 5), (w.mat.pool("B").pool_id.clone(), 7)];
    let a = shaped(w, "A", "A", 3);
    let b = shaped(w, "B", "A", 3);
    let mut one = ProtocolKeyRegistration::init(&dist);
    println!("same object : A registers its key          -> {:?}", one.register(params_of(&a)).map_err(|e| format!("{e:#}")));
    println!("same object : B registers A's vk||pop      -> {:?}", one.register(params_of(&b)).map_err(|e| format!("{e:#}")));
    let mut fresh = ProtocolKeyRegistration::init(&dist);
    println!("fresh object: B registers A's vk||pop      -> {:?}", fresh.register(params_of(&b)).map_err(|e| format!("{e:#}")));
    // (2) signature made at evolution 63, announced 65
    for (signed, announced) in [(63u64, 64u64), (63, 65), (63, 66), (62, 64), (62, 65), (61, 63), (0, 2)] {
        let mut r = shaped(w, "A", "A", signed);
        r.announced = Some(announced);
        let mut reg = ProtocolKeyRegistration::init(&dist);
        println!("signed at evolution {signed}, announced {announced} -> {:?}", reg.register(params_of(&r)).map_err(|e| format!("{e:#}").chars().take(70).collect::<String>()));
    }
    use kes_summed_ed25519::traits::KesSig;
    let s = w.mat.kes_sign("A", 63, b"m");
    let ok: Vec<u32> = (0..200u32).filter(|t| s.verify(*t, &w.mat.pool("A").kes_vk, b"m").is_ok()).collect();
    println!("kes-summed-ed25519: a signature made at period 63 verifies for periods {:?}..={:?} ({} values below 200)", ok.first(), ok.last(), ok.len());
}

fn main() {
    let args = Args::parse();
    let seed = args.num("seed", 1);
    let w = World { mat: Material::new(seed, [100, 200, 300]), params: ProtocolParameters { k: 2, m: 10, phi_f: 0.8 } };
    let mode = args.req("mode");
    if mode == "confirm" {
        confirm(&w);
        return;
    }
    let mut trace = Trace::create(args.req("out"));
    let mut summary = match mode.as_str() {
        "cases" => run_cases(&mut trace, &w, &args.req("cases")),
        "random" => run_random(&mut trace, &w, seed, args.num("n", 300)),
        m => panic!("unknown mode {m}"),
    };
    // the feature that lets a registration skip certification must be off in this build
    let mut probe = ProtocolKeyRegistration::init(&vec![(w.mat.pool("A").pool_id.clone(), 1)]);
    let mut bare = shaped(&w, "A", "A", 0);
    bare.opcert = None;
    bare.claimed_party = Some(w.mat.pool("A").pool_id.clone());
    let skip_on = probe.register(params_of(&bare)).is_ok();
    if skip_on {
        eprintln!("this binary was built with allow_skip_signer_certification");
        std::process::exit(4);
    }
    summary["events"] = json!(trace.finish());
    println!("{summary}");
}

#[allow(dead_code)]
fn unused(_: VkPop) {}
