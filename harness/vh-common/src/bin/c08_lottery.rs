//! C08 — the signing lottery on the real `mithril-stm` (via `mithril_stm::verif`).
//!
//! `--mode cases`  : the (cmp, x) grid enumerated by TLC is handed to the real
//!                   `taylor_comparison(1000, cmp, x)`; decisions are logged next to the model's.
//! `--mode facets` : relational facets of the full `is_lottery_won(phi_f, draw, stake, total)`:
//!                   zero stake, phi_f = 1, monotonicity in stake and draw, signer/verifier
//!                   agreement, and threshold probes (bisection on the draw) compared with
//!                   1 - (1 - phi_f)^(stake/total) in f64.
use mithril_stm::{Parameters, SingleSignature};
use mithril_stm::verif::{is_lottery_won, taylor_comparison};
use vh_common::stmkit::{D, World};
use vh_core::{Args, Guarded, RngCore, Trace, below, guarded, json, quiet_panics, read_ndjson, rng};

fn draw_from_hi(hi: u128) -> [u8; 64] {
    // little-endian 512-bit integer whose top 128 bits are `hi`
    let mut ev = [0u8; 64];
    ev[48..64].copy_from_slice(&hi.to_le_bytes());
    ev
}

fn exact_threshold(phi_f: f64, stake: u64, total: u64) -> f64 {
    // 1 - (1 - phi_f)^w  =  -expm1(w * ln(1 - phi_f)), w = stake / total
    let w = stake as f64 / total as f64;
    let c = if phi_f >= 0.5 { (1.0 - phi_f).ln() } else { (-phi_f).ln_1p() };
    -(w * c).exp_m1()
}

fn main() {
    quiet_panics();
    let args = Args::parse();
    let mut trace = Trace::create(args.req("out"));
    let seed = args.num("seed", 1);
    let mut r = rng(seed, 8);
    match args.req("mode").as_str() {
        "cases" => {
            for c in read_ndjson(args.req("cases")) {
                let (cn, cd, xn, xd) = (c["cmp_n"].as_i64().unwrap(), c["cmp_d"].as_i64().unwrap(), c["x_n"].as_i64().unwrap(), c["x_d"].as_i64().unwrap());
                let res = guarded(|| taylor_comparison(1000, (&cn.to_string(), &cd.to_string()), (&xn.to_string(), &xd.to_string())));
                match res {
                    Guarded::Done(won) => trace.emit(json!({"ev":"Taylor","cmp_n":cn,"cmp_d":cd,"x_n":xn,"x_d":xd,"won":won,
                        "x_gt_265": xn * 20 > 53 * xd, "predicted_won": c["decision"] == "won"})),
                    Guarded::Panic(m) => trace.emit(json!({"ev":"Panic","what":m,"cmp_n":cn,"cmp_d":cd,"x_n":xn,"x_d":xd})),
                }
            }
        }
        "facets" => {
            let phis: Vec<f64> = vec![1e-12, 1e-6, 0.01, 0.05, 0.2, 0.5, 0.65, 0.8, 0.9, 0.95, 0.99, 1.0 - 1e-4, 1.0 - 1e-8, 1.0 - 1e-12, 1.0 - f64::EPSILON * 4.0];
            let totals: Vec<u64> = vec![1, 7, 1_000, 45_000_000_000_000_000, u64::MAX];
            let rounds = args.num("rounds", 3);
            for &phi in &phis {
                for &total in &totals {
                    for _ in 0..rounds {
                        let mut ev = [0u8; 64];
                        r.fill_bytes(&mut ev);
                        // zero stake is always lost
                        let z = guarded(|| is_lottery_won(phi, ev, 0, total));
                        trace.emit(json!({"ev":"ZeroStake","phi":format!("{phi:e}"),"total":total.to_string(),"won":show(z)}));
                        // phi_f = 1 is always won
                        let stake = below(&mut r, total) + if total > 1 { 0 } else { 1 };
                        let o = guarded(|| is_lottery_won(1.0, ev, stake, total));
                        trace.emit(json!({"ev":"PhiOne","total":total.to_string(),"stake":stake.to_string(),"won":show(o)}));
                    }
                    // threshold probes + monotonicity around the threshold
                    let stakes: Vec<u64> = [total / 1000, total / 100, total / 10, total / 3, total / 2, total - total / 10, total]
                        .into_iter()
                        .filter(|s| *s > 0)
                        .collect();
                    for &stake in &stakes {
                        // bisection on the top 128 bits of the draw: largest `hi` that wins
                        let won_at = |hi: u128| is_lottery_won(phi, draw_from_hi(hi), stake, total);
                        let res = guarded(|| {
                            if !won_at(0) {
                                return None;
                            }
                            let (mut lo, mut hi) = (0u128, u128::MAX);
                            if won_at(hi) {
                                return Some(hi);
                            }
                            while hi - lo > 1 {
                                let mid = lo + (hi - lo) / 2;
                                if won_at(mid) { lo = mid } else { hi = mid }
                            }
                            Some(lo)
                        });
                        let Guarded::Done(found) = res else {
                            trace.emit(json!({"ev":"Panic","what":"bisection","phi":format!("{phi:e}"),"stake":stake.to_string(),"total":total.to_string()}));
                            continue;
                        };
                        let p_star = found.map(|h| (h as f64) / 2f64.powi(128)).unwrap_or(0.0);
                        let exact = exact_threshold(phi, stake, total);
                        let x = -(stake as f64 / total as f64) * (1.0 - phi).ln();
                        let abs_err = (p_star - exact).abs();
                        let e12 = (abs_err * 1e12).min(2.0e9) as u64;
                        let e15 = (abs_err * 1e15).min(2.0e9) as u64;
                        trace.emit(json!({"ev":"Probe","phi":format!("{phi:e}"),"stake":stake.to_string(),"total":total.to_string(),
                            "abs_err_e12": e12, "abs_err_e15": e15, "side": if p_star < exact {"low"} else {"high"},
                            "x_milli": (x * 1000.0).min(2.0e9) as u64, "x_gt_265": x > 2.65, "p_star": format!("{p_star:e}"), "exact": format!("{exact:e}")}));
                        // monotone: around the threshold, smaller draws / larger stakes never lose what won
                        if let Some(h) = found {
                            for _ in 0..4 {
                                let d_draw = below(&mut r, 1 << 20) as u128;
                                let d_stake = below(&mut r, (total - stake).min(1 << 20) + 1);
                                let h1 = h.saturating_sub(below(&mut r, 3) as u128);
                                let w1 = guarded(|| is_lottery_won(phi, draw_from_hi(h1), stake, total));
                                let w2 = guarded(|| is_lottery_won(phi, draw_from_hi(h1.saturating_sub(d_draw)), stake + d_stake, total));
                                trace.emit(json!({"ev":"MonoPair","phi":format!("{phi:e}"),"d_draw_le0":true,"d_stake_ge0":true,
                                    "won1":show(w1),"won2":show(w2)}));
                            }
                        }
                    }
                }
            }
            // signer / verifier agreement on real signatures
            for wi in 0..args.num("worlds", 6) {
                let m = 8 + below(&mut r, 8);
                let phi = [0.2, 0.5, 0.8, 0.95][(wi % 4) as usize];
                let params = Parameters { m, k: 2, phi_f: phi };
                let stakes: Vec<u64> = (0..3).map(|_| 1 + below(&mut r, 100)).collect();
                let w = World::new(params, &stakes, &mut r);
                let mut msg = [0u8; 16];
                r.fill_bytes(&mut msg);
                for (q, s) in w.signers.iter().enumerate() {
                    let honest = s.create_single_signature(&msg).ok();
                    let signer_idx: Vec<u64> = honest
                        .as_ref()
                        .map(|h| serde_json::to_value(h).unwrap()["indexes"].as_array().unwrap().iter().map(|v| v.as_u64().unwrap()).collect())
                        .unwrap_or_default();
                    let any = w.all_signers[q].create_single_signature(&msg).unwrap();
                    let v = serde_json::to_value(&any).unwrap();
                    let verifier_idx: Vec<u64> = (0..m)
                        .filter(|ix| {
                            let one: SingleSignature = serde_json::from_value(json!({"sigma": v["sigma"], "indexes": [ix], "signer_index": v["signer_index"]})).unwrap();
                            one.verify::<D>(&params, &w.parties[q].0, &w.parties[q].1, &w.avk, &msg).is_ok()
                        })
                        .collect();
                    trace.emit(json!({"ev":"Agreement","m":m,"signer":signer_idx,"verifier":verifier_idx}));
                }
            }
        }
        m => panic!("unknown mode {m}"),
    }
    let n = trace.finish();
    println!("{}", json!({"events": n}));
}

fn show(g: Guarded<bool>) -> vh_core::Value {
    match g {
        Guarded::Done(b) => json!(b),
        Guarded::Panic(m) => json!(format!("panic: {m}")),
    }
}
