//! C04 — certificate tamper-evidence and wire fidelity on the real `mithril-common`.
//!
//! `--mode cases --cases <ndjson>`: (shape, field, value) triples enumerated by TLC
//!   (spec/cert/MC_CertHash.tla, mode "field") are realised as two real `Certificate`s, hashed
//!   by the real `try_compute_hash`, and sent through
//!   `Certificate -> CertificateMessage -> JSON text (re-serialised) -> CertificateMessage -> Certificate`;
//!   protocol messages of the honest value grammar (mode "msg") are digested by the real
//!   `ProtocolMessage::compute_hash`.
//! `--mode random`: seeded driver over the *value* space (u64 extremes, nanosecond timestamps,
//!   long signer lists, arbitrary strings) on really signed, verifiable certificates.
//! Events (validated against spec/cert/CertHashTrace.tla)
//!   FieldChange  field changed=[fields that really differ, recomputed from the two real values]
//!                hash_differs from_kind to_kind same_beacon
//!   RoundTrip    variant decode_ok hash_same stored_hash_same signed_message_same
//!                verdict_before verdict_after
//!   MsgDigestSet n_msgs n_distinct_msgs n_distinct_digests ; MsgDigestPair equal_msgs same_digest
//!   Keys         names = Display of every ProtocolMessagePartKey in map order
use std::collections::{BTreeMap, BTreeSet};
use std::sync::Arc;

use async_trait::async_trait;
use chrono::{DateTime, TimeZone, Utc};
use mithril_common::certificate_chain::{
    CertificateRetriever, CertificateRetrieverError, CertificateVerifier, MithrilCertificateVerifier,
};
use mithril_common::crypto_helper::{ProtocolAggregateVerificationKeyForConcatenation, ProtocolMultiSignature};
use mithril_common::entities::{
    BlockNumber, BlockNumberOffset, CardanoDbBeacon, Certificate, CertificateMetadata, CertificateSignature, Epoch,
    ProtocolMessage, ProtocolMessagePartKey, ProtocolParameters, SignedEntityType, StakeDistributionParty,
};
use mithril_common::messages::CertificateMessage;
use vh_common::certkit::{AbsCert, Kit, t0};
use vh_core::{Args, ChaCha20Rng, Guarded, RngCore, Trace, Value, below, guarded, json, read_ndjson, rng};

const KEYS: [ProtocolMessagePartKey; 12] = [
    ProtocolMessagePartKey::SnapshotDigest,
    ProtocolMessagePartKey::CardanoTransactionsMerkleRoot,
    ProtocolMessagePartKey::CardanoBlocksTransactionsMerkleRoot,
    ProtocolMessagePartKey::NextAggregateVerificationKey,
    ProtocolMessagePartKey::NextProtocolParameters,
    ProtocolMessagePartKey::CurrentEpoch,
    ProtocolMessagePartKey::LatestBlockNumber,
    ProtocolMessagePartKey::CardanoBlocksTransactionsBlockNumberOffset,
    ProtocolMessagePartKey::CardanoStakeDistributionEpoch,
    ProtocolMessagePartKey::CardanoStakeDistributionMerkleRoot,
    ProtocolMessagePartKey::CardanoDatabaseMerkleRoot,
    ProtocolMessagePartKey::NextSnarkAggregateVerificationKey,
];

// ------------------------------------------------------------------------------------------
// world: real key material, a small really-signed chain, a real verifier
// ------------------------------------------------------------------------------------------
struct World {
    kit: Kit,
    /// honest chain h1 (genesis) <- h2 (epoch 2) <- h3 (epoch 3)
    chain: Vec<Certificate>,
    avks: Vec<ProtocolAggregateVerificationKeyForConcatenation>,
    multis: Vec<ProtocolMultiSignature>,
    rt: tokio::runtime::Runtime,
    verifier: MithrilCertificateVerifier,
}

struct Retriever {
    certs: Vec<Certificate>,
}

#[async_trait]
impl CertificateRetriever for Retriever {
    async fn get_certificate_details(&self, hash: &str) -> Result<Certificate, CertificateRetrieverError> {
        self.certs
            .iter()
            .find(|c| c.hash == hash)
            .cloned()
            .ok_or_else(|| CertificateRetrieverError(anyhow::anyhow!("not found")))
    }
}

fn abs(id: &str, prev: &str, e: u64, kind: &str) -> AbsCert {
    let key = |e: u64| format!("H{e}");
    let par = |e: u64| if e <= 2 { "p" } else { "q" };
    AbsCert {
        id: id.into(),
        prev: prev.into(),
        epoch: e,
        kind: kind.into(),
        avk: if kind == "genesis" { key(e + 1) } else { key(e) },
        params: par(e).into(),
        msg_epoch: e,
        next_avk: key(e + 1),
        next_params: par(e + 1).into(),
        hash_ok: true,
        signed_msg_ok: true,
        sig_by: if kind == "genesis" { "none".into() } else { key(e) },
        gen_sig_ok: kind == "genesis",
    }
}

impl World {
    fn new() -> World {
        let kit = Kit::standard();
        let chain = kit.realise_all(&[abs("h1", "", 1, "genesis"), abs("h2", "h1", 2, "std"), abs("h3", "h2", 3, "std")]);
        let avks = vec![kit.family("H2").avk_concat.clone(), kit.family("H3").avk_concat.clone()];
        let p = kit.param("p").clone();
        let multis = vec![
            kit.family("H2").multi_sign(b"message zero", &p).unwrap(),
            kit.family("H2").multi_sign(b"message one", &p).unwrap(),
        ];
        let rt = tokio::runtime::Builder::new_current_thread().build().unwrap();
        let verifier = MithrilCertificateVerifier::new(
            slog::Logger::root(slog::Discard, slog::o!()),
            Arc::new(Retriever { certs: chain.clone() }),
            Arc::new(kit.genesis_verifier.clone()),
        );
        World { kit, chain, avks, multis, rt, verifier }
    }

    /// outcome of the real verifier on one certificate (its predecessor is served honestly)
    fn verdict(&self, c: &Certificate) -> String {
        match guarded(|| self.rt.block_on(self.verifier.verify_certificate(c))) {
            Guarded::Done(Ok(_)) => "ok".into(),
            Guarded::Done(Err(e)) => format!("{e:#}").chars().take(160).collect(),
            Guarded::Panic(m) => format!("panic: {}", m.chars().take(120).collect::<String>()),
        }
    }
}

// ------------------------------------------------------------------------------------------
// abstract -> real values
// ------------------------------------------------------------------------------------------
fn chars(v: &Value) -> String {
    v.as_array().unwrap().iter().map(|c| c.as_str().unwrap()).collect()
}
fn u64_tok(v: &Value) -> u64 {
    match v.as_u64().unwrap() {
        9 => u64::MAX,
        n => n,
    }
}
fn time_tok(v: &Value) -> DateTime<Utc> {
    match v.as_u64().unwrap() {
        0 => Utc.timestamp_nanos(0),
        1 => t0(),
        2 => t0() + chrono::Duration::nanoseconds(1),
        3 => t0() + chrono::Duration::seconds(1),
        4 => Utc.timestamp_nanos(i64::MAX),
        5 => Utc.timestamp_nanos(i64::MIN),
        n => panic!("time token {n}"),
    }
}
fn phi_tok(v: &Value) -> f64 {
    let base = match v["fx"].as_u64().unwrap() {
        0 => 0.2,
        1 => 0.65,
        // the next value at the protocol's fixed-point precision (24 fractional bits)
        2 => 0.65 + 1.0 / (1u64 << 24) as f64,
        3 => 1.0,
        n => panic!("phi token {n}"),
    };
    base + if v["eps"].as_u64().unwrap() == 1 { 1e-9 } else { 0.0 }
}
fn params_tok(v: &Value) -> ProtocolParameters {
    ProtocolParameters::new(u64_tok(&v["k"]), u64_tok(&v["m"]), phi_tok(&v["phi"]))
}
fn entity_tok(v: &Value) -> SignedEntityType {
    let (a, b, c) = (u64_tok(&v["a"]), u64_tok(&v["b"]), u64_tok(&v["c"]));
    match v["kind"].as_str().unwrap() {
        "MithrilStakeDistribution" => SignedEntityType::MithrilStakeDistribution(Epoch(a)),
        "CardanoStakeDistribution" => SignedEntityType::CardanoStakeDistribution(Epoch(a)),
        "CardanoDatabase" => SignedEntityType::CardanoDatabase(CardanoDbBeacon::new(a, b)),
        "CardanoTransactions" => SignedEntityType::CardanoTransactions(Epoch(a), BlockNumber(b)),
        "CardanoBlocksTransactions" => {
            SignedEntityType::CardanoBlocksTransactions(Epoch(a), BlockNumber(b), BlockNumberOffset(c))
        }
        k => panic!("entity kind {k}"),
    }
}
fn pm_tok(v: &Value) -> ProtocolMessage {
    let mut pm = ProtocolMessage::new();
    for part in v.as_array().unwrap() {
        pm.set_message_part(KEYS[part["key"].as_u64().unwrap() as usize - 1], chars(&part["val"]));
    }
    pm
}

/// the real certificate of an abstract one of MC_CertHash (None: not realisable in this build --
/// ancillary data types have no variant without the `future_snark` feature)
fn realise(w: &World, c: &Value) -> Option<Certificate> {
    if !c["ancP"].as_array().unwrap().is_empty() || !c["ancV"].as_array().unwrap().is_empty() {
        return None;
    }
    let md = &c["meta"];
    let signers = md["signers"]
        .as_array()
        .unwrap()
        .iter()
        .map(|s| StakeDistributionParty { party_id: chars(&s["party"]), stake: u64_tok(&s["stake"]) })
        .collect();
    let sig_tok = chars(&c["sig"]["val"]);
    let signature = match c["sig"]["variant"].as_str().unwrap() {
        "genesis" => CertificateSignature::GenesisSignature(
            w.kit.genesis_signer.ed25519.sign(if sig_tok == "g0" { b"genesis zero" } else { b"genesis one!" }),
        ),
        _ => CertificateSignature::MultiSignature(
            entity_tok(&c["entity"]),
            w.multis[if sig_tok == "m0" { 0 } else { 1 }].clone(),
        ),
    };
    Some(Certificate {
        hash: String::new(),
        previous_hash: chars(&c["prev"]),
        epoch: Epoch(u64_tok(&c["epoch"])),
        metadata: CertificateMetadata::new(
            chars(&md["network"]),
            chars(&md["version"]),
            params_tok(&md["params"]),
            time_tok(&md["initiated"]),
            time_tok(&md["sealed"]),
            signers,
        ),
        protocol_message: pm_tok(&c["pm"]),
        signed_message: chars(&c["signedMsg"]),
        aggregate_verification_key: w.avks[if chars(&c["avk"]) == "k0" { 0 } else { 1 }].clone(),
        ancillary_prover_data: None,
        ancillary_verifier_data: None,
        signature,
    })
}

/// abstract certificate with one field replaced (the TLA+ operator Set)
fn set_field(c: &Value, f: &str, v: &Value) -> Value {
    let mut d = c.clone();
    match f {
        "network" | "version" | "params" | "initiated" | "sealed" | "signers" => d["meta"][f] = v.clone(),
        _ => d[f] = v.clone(),
    }
    d
}

// ------------------------------------------------------------------------------------------
// observation: which fields of two real certificates really differ
// ------------------------------------------------------------------------------------------
fn entity_kind(c: &Certificate) -> (String, Vec<u64>) {
    match &c.signature {
        CertificateSignature::MultiSignature(e, _) => match e {
            SignedEntityType::MithrilStakeDistribution(e) => ("MithrilStakeDistribution".into(), vec![**e]),
            SignedEntityType::CardanoStakeDistribution(e) => ("CardanoStakeDistribution".into(), vec![**e]),
            SignedEntityType::CardanoDatabase(b) => ("CardanoDatabase".into(), vec![*b.epoch, b.immutable_file_number]),
            SignedEntityType::CardanoTransactions(e, b) => ("CardanoTransactions".into(), vec![**e, **b]),
            SignedEntityType::CardanoBlocksTransactions(e, b, o) => {
                ("CardanoBlocksTransactions".into(), vec![**e, **b, **o])
            }
        },
        _ => ("".into(), vec![]),
    }
}

fn sig_text(c: &Certificate) -> String {
    match &c.signature {
        CertificateSignature::GenesisSignature(s) => format!("genesis:{}", s.to_bytes_hex().unwrap()),
        CertificateSignature::MultiSignature(_, s) => format!("multi:{}", s.to_json_hex().unwrap()),
    }
}

fn changed_fields(a: &Certificate, b: &Certificate) -> Vec<&'static str> {
    let mut out = vec![];
    if a.previous_hash != b.previous_hash {
        out.push("previous_hash");
    }
    if a.epoch != b.epoch {
        out.push("epoch");
    }
    if a.metadata.network != b.metadata.network {
        out.push("network");
    }
    if a.metadata.protocol_version != b.metadata.protocol_version {
        out.push("protocol_version");
    }
    // protocol parameters are compared at the protocol's fixed-point precision (U8F24), by the
    // harness itself (not through the PartialEq of the code under test)
    {
        let (p, q) = (&a.metadata.protocol_parameters, &b.metadata.protocol_parameters);
        let fx = |x: f64| fixed::types::U8F24::checked_from_num(x).map(|v| v.to_bits());
        if p.k != q.k || p.m != q.m || fx(p.phi_f) != fx(q.phi_f) {
            out.push("protocol_parameters");
        }
    }
    if a.metadata.initiated_at != b.metadata.initiated_at {
        out.push("initiated_at");
    }
    if a.metadata.sealed_at != b.metadata.sealed_at {
        out.push("sealed_at");
    }
    if a.metadata.signers != b.metadata.signers {
        out.push("signers");
    }
    if a.protocol_message != b.protocol_message {
        out.push("protocol_message");
    }
    if a.signed_message != b.signed_message {
        out.push("signed_message");
    }
    if a.aggregate_verification_key != b.aggregate_verification_key {
        out.push("aggregate_verification_key");
    }
    if sig_text(a) != sig_text(b) {
        out.push("signature");
    }
    if !a.is_genesis() && !b.is_genesis() && a.signed_entity_type() != b.signed_entity_type() {
        out.push("signed_entity_type");
    }
    if a.ancillary_prover_data.is_some() != b.ancillary_prover_data.is_some() {
        out.push("ancillary_prover_data");
    }
    if a.ancillary_verifier_data.is_some() != b.ancillary_verifier_data.is_some() {
        out.push("ancillary_verifier_data");
    }
    out
}

fn timestamps_representable(c: &Certificate) -> bool {
    c.metadata.initiated_at.timestamp_nanos_opt().is_some() && c.metadata.sealed_at.timestamp_nanos_opt().is_some()
}

fn emit_field_change(trace: &mut Trace, a: &Certificate, b: &Certificate, field: &str, predicted: Value, src: &str, st: &mut Stats) {
    let ha = a.try_compute_hash().unwrap();
    let hb = b.try_compute_hash().unwrap();
    let changed = changed_fields(a, b);
    let (ka, na) = entity_kind(a);
    let (kb, nb) = entity_kind(b);
    let same_beacon = na.iter().take(2).collect::<Vec<_>>() == nb.iter().take(2).collect::<Vec<_>>() && na.len().min(2) == nb.len().min(2);
    st.field_changes += 1;
    if changed.len() == 1 {
        st.single += 1;
        *st.by_field.entry(changed[0].to_string()).or_insert(0) += 1;
        if ha == hb {
            st.single_same_hash += 1;
        }
    }
    trace.emit(json!({
        "ev": "FieldChange", "src": src, "field": field, "changed": changed,
        "hash_differs": ha != hb, "predicted_differs": predicted,
        "from_kind": ka, "to_kind": kb, "same_beacon": same_beacon,
        "representable": timestamps_representable(a) && timestamps_representable(b),
    }));
}

// ------------------------------------------------------------------------------------------
// JSON re-serialisations
// ------------------------------------------------------------------------------------------
#[derive(Clone, Copy, PartialEq)]
enum Order {
    Sorted,
    Reversed,
    Shuffled(u64),
}

fn alt_number(n: &serde_json::Number) -> String {
    if n.is_f64() {
        let x = n.as_f64().unwrap();
        // exponent notation of the shortest round-tripping decimal, e.g. 0.65 -> 6.5e-1, 1.0 -> 1e0
        format!("{x:e}")
    } else {
        n.to_string()
    }
}

fn write_json(v: &Value, order: Order, spaced: bool, alt_numbers: bool, out: &mut String) {
    let sp = if spaced { " \n\t " } else { "" };
    match v {
        Value::Null | Value::Bool(_) | Value::String(_) => out.push_str(&serde_json::to_string(v).unwrap()),
        Value::Number(n) => out.push_str(&if alt_numbers { alt_number(n) } else { n.to_string() }),
        Value::Array(a) => {
            out.push('[');
            out.push_str(sp);
            for (i, x) in a.iter().enumerate() {
                if i > 0 {
                    out.push(',');
                    out.push_str(sp);
                }
                write_json(x, order, spaced, alt_numbers, out);
            }
            out.push_str(sp);
            out.push(']');
        }
        Value::Object(m) => {
            let mut keys: Vec<&String> = m.keys().collect();
            keys.sort();
            match order {
                Order::Sorted => {}
                Order::Reversed => keys.reverse(),
                Order::Shuffled(seed) => {
                    let mut r = rng(seed, keys.len() as u64);
                    for i in (1..keys.len()).rev() {
                        keys.swap(i, below(&mut r, i as u64 + 1) as usize);
                    }
                }
            }
            out.push('{');
            out.push_str(sp);
            for (i, k) in keys.iter().enumerate() {
                if i > 0 {
                    out.push(',');
                    out.push_str(sp);
                }
                out.push_str(&serde_json::to_string(k).unwrap());
                out.push_str(sp);
                out.push(':');
                out.push_str(sp);
                write_json(&m[*k], order, spaced, alt_numbers, out);
            }
            out.push_str(sp);
            out.push('}');
        }
    }
}

/// Certificate -> CertificateMessage -> JSON text (re-serialised as `variant` says) ->
/// CertificateMessage -> Certificate
fn round_trip(c: &Certificate, variant: &str, seed: u64) -> Result<Certificate, String> {
    let msg: CertificateMessage = c.clone().try_into().map_err(|e| format!("to message: {e:#}"))?;
    let plain = serde_json::to_string(&msg).map_err(|e| format!("to json: {e}"))?;
    let text = match variant {
        "plain" => plain,
        "pretty" => serde_json::to_string_pretty(&msg).map_err(|e| format!("to json: {e}"))?,
        _ => {
            let v: Value = serde_json::from_str(&plain).map_err(|e| format!("reparse: {e}"))?;
            let mut out = String::new();
            match variant {
                "sorted" => write_json(&v, Order::Sorted, false, false, &mut out),
                "reversed" => write_json(&v, Order::Reversed, false, false, &mut out),
                "shuffled" => write_json(&v, Order::Shuffled(seed), false, false, &mut out),
                "whitespace" => write_json(&v, Order::Sorted, true, false, &mut out),
                "numbers" => write_json(&v, Order::Reversed, false, true, &mut out),
                "all" => write_json(&v, Order::Shuffled(seed), true, true, &mut out),
                v => panic!("variant {v}"),
            }
            out
        }
    };
    let back: CertificateMessage = serde_json::from_str(&text).map_err(|e| format!("from json: {e}"))?;
    Certificate::try_from(back).map_err(|e| format!("from message: {e:#}"))
}

const VARIANTS: [&str; 8] = ["plain", "pretty", "sorted", "reversed", "shuffled", "whitespace", "numbers", "all"];

fn emit_round_trips(w: &World, trace: &mut Trace, c: &Certificate, variants: &[&str], with_verdict: bool, seed: u64, src: &str, st: &mut Stats) {
    // the stored hash is what travels: store the real one so that the verdict is meaningful
    let mut c = c.clone();
    c.hash = c.try_compute_hash().unwrap();
    let before = if with_verdict { w.verdict(&c) } else { "-".to_string() };
    if before == "ok" {
        st.verdict_ok += 1;
    }
    for variant in variants {
        st.round_trips += 1;
        match guarded(|| round_trip(&c, variant, seed)) {
            Guarded::Done(Ok(d)) => {
                let after = if with_verdict { w.verdict(&d) } else { "-".to_string() };
                trace.emit(json!({
                    "ev": "RoundTrip", "src": src, "variant": variant, "decode_ok": true, "err": "",
                    "hash_same": d.try_compute_hash().unwrap() == c.try_compute_hash().unwrap(),
                    "stored_hash_same": d.hash == c.hash,
                    "signed_message_same": d.signed_message == c.signed_message,
                    "all_fields_same": changed_fields(&c, &d).is_empty(),
                    "verdict_before": before, "verdict_after": after,
                    "representable": timestamps_representable(&c),
                }));
            }
            Guarded::Done(Err(e)) => {
                st.decode_failures += 1;
                trace.emit(json!({
                    "ev": "RoundTrip", "src": src, "variant": variant, "decode_ok": false,
                    "err": e.chars().take(160).collect::<String>(),
                    "hash_same": false, "stored_hash_same": false, "signed_message_same": false,
                    "all_fields_same": false, "verdict_before": before, "verdict_after": "-",
                    "representable": timestamps_representable(&c),
                }));
            }
            Guarded::Panic(m) => {
                st.decode_failures += 1;
                trace.emit(json!({
                    "ev": "RoundTrip", "src": src, "variant": variant, "decode_ok": false,
                    "err": format!("panic: {}", m.chars().take(140).collect::<String>()),
                    "hash_same": false, "stored_hash_same": false, "signed_message_same": false,
                    "all_fields_same": false, "verdict_before": before, "verdict_after": "-",
                    "representable": timestamps_representable(&c),
                }));
            }
        }
    }
}

#[derive(Default)]
struct Stats {
    field_changes: u64,
    single: u64,
    single_same_hash: u64,
    by_field: BTreeMap<String, u64>,
    round_trips: u64,
    decode_failures: u64,
    verdict_ok: u64,
    skipped_unrealisable: u64,
    msgs: u64,
}

// ------------------------------------------------------------------------------------------
// random driver
// ------------------------------------------------------------------------------------------
fn rand_u64(r: &mut ChaCha20Rng) -> u64 {
    match below(r, 8) {
        0 => 0,
        1 => 1,
        2 => u64::MAX,
        3 => u64::MAX - 1,
        4 => i64::MAX as u64,
        5 => (i64::MAX as u64) + 1,
        6 => below(r, 1 << 20),
        _ => r.next_u64(),
    }
}

fn rand_string(r: &mut ChaCha20Rng) -> String {
    const PIECES: [&str; 16] = [
        "", "a", "devnet", "0.1.0", "\"", "\\", "\n", "\u{0}", "é", "日本", "\u{1F600}", " ", "{\"a\":1}", "pool1xyz", "\u{7f}", "\t",
    ];
    let n = below(r, 4);
    (0..n).map(|_| PIECES[below(r, PIECES.len() as u64) as usize]).collect()
}

fn rand_time(r: &mut ChaCha20Rng) -> DateTime<Utc> {
    let ns = match below(r, 8) {
        0 => 0,
        1 => i64::MAX,
        2 => i64::MIN,
        3 => -1,
        4 => 1,
        5 => 999_999_999,
        6 => 1_700_000_000_123_456_789,
        _ => r.next_u64() as i64,
    };
    Utc.timestamp_nanos(ns)
}

fn rand_phi(r: &mut ChaCha20Rng) -> f64 {
    match below(r, 7) {
        0 => 0.0,
        1 => 1.0,
        2 => 0.65,
        3 => 0.65 + 1e-9,
        4 => 0.2 + 1.0 / (1u64 << 24) as f64,
        5 => 1.0 / (1u64 << 24) as f64,
        _ => (r.next_u64() >> 11) as f64 / (1u64 << 53) as f64,
    }
}

fn rand_signers(r: &mut ChaCha20Rng) -> Vec<StakeDistributionParty> {
    let n = match below(r, 5) {
        0 => 0,
        1 => 1,
        2 => 2,
        3 => 50,
        _ => 300,
    };
    (0..n)
        .map(|i| StakeDistributionParty {
            party_id: if below(r, 4) == 0 { rand_string(r) } else { format!("pool{i}") },
            stake: rand_u64(r),
        })
        .collect()
}

fn rand_entity(r: &mut ChaCha20Rng) -> SignedEntityType {
    let (a, b, c) = (rand_u64(r), rand_u64(r), rand_u64(r));
    match below(r, 5) {
        0 => SignedEntityType::MithrilStakeDistribution(Epoch(a)),
        1 => SignedEntityType::CardanoStakeDistribution(Epoch(a)),
        2 => SignedEntityType::CardanoDatabase(CardanoDbBeacon::new(a, b)),
        3 => SignedEntityType::CardanoTransactions(Epoch(a), BlockNumber(b)),
        _ => SignedEntityType::CardanoBlocksTransactions(Epoch(a), BlockNumber(b), BlockNumberOffset(c)),
    }
}

fn hexish(r: &mut ChaCha20Rng) -> String {
    let n = [0usize, 1, 8, 64][below(r, 4) as usize];
    (0..n).map(|_| char::from_digit(below(r, 16) as u32, 16).unwrap()).collect()
}

/// one random change of one field; returns the field's name
fn mutate(w: &World, r: &mut ChaCha20Rng, c: &mut Certificate) -> &'static str {
    match below(r, 14) {
        0 => {
            c.previous_hash = if below(r, 2) == 0 { hexish(r) } else { rand_string(r) };
            "previous_hash"
        }
        1 => {
            c.epoch = Epoch(rand_u64(r));
            "epoch"
        }
        2 => {
            c.metadata.network = rand_string(r);
            "network"
        }
        3 => {
            c.metadata.protocol_version = rand_string(r);
            "protocol_version"
        }
        4 => {
            c.metadata.protocol_parameters.k = rand_u64(r);
            "protocol_parameters"
        }
        5 => {
            c.metadata.protocol_parameters.m = rand_u64(r);
            "protocol_parameters"
        }
        6 => {
            c.metadata.protocol_parameters.phi_f = rand_phi(r);
            "protocol_parameters"
        }
        7 => {
            c.metadata.initiated_at = rand_time(r);
            "initiated_at"
        }
        8 => {
            c.metadata.sealed_at = rand_time(r);
            "sealed_at"
        }
        9 => {
            c.metadata.signers = rand_signers(r);
            "signers"
        }
        10 => {
            let k = KEYS[below(r, 12) as usize];
            if below(r, 4) == 0 {
                c.protocol_message.message_parts.remove(&k);
            } else {
                c.protocol_message.set_message_part(k, hexish(r));
            }
            "protocol_message"
        }
        11 => {
            c.signed_message = if below(r, 2) == 0 { hexish(r) } else { rand_string(r) };
            "signed_message"
        }
        12 => {
            c.aggregate_verification_key = w.avks[below(r, 2) as usize].clone();
            "aggregate_verification_key"
        }
        _ => {
            if let CertificateSignature::MultiSignature(_, s) = &c.signature {
                c.signature = CertificateSignature::MultiSignature(rand_entity(r), s.clone());
                "signed_entity_type"
            } else {
                c.signature = CertificateSignature::GenesisSignature(w.kit.genesis_signer.ed25519.sign(&r.next_u64().to_be_bytes()));
                "signature"
            }
        }
    }
}

fn main() {
    std::panic::set_hook(Box::new(|i| eprintln!("panic: {i}")));
    let args = Args::parse();
    let mode = args.req("mode");
    let seed = args.num("seed", 1);
    let mut trace = Trace::create(args.req("out"));
    let w = World::new();
    let mut st = Stats::default();
    trace.emit(json!({"ev": "Keys", "names": KEYS.iter().map(|k| k.to_string()).collect::<Vec<_>>()}));
    match mode.as_str() {
        "cases" => {
            let every = args.num("roundtrip-every", 1);
            let verdict_every = args.num("verdict-every", 4);
            let mut shapes_done: BTreeSet<String> = BTreeSet::new();
            for (n, case) in read_ndjson(args.req("cases")).iter().enumerate() {
                let c = &case["c"];
                let f = case["f"].as_str().unwrap();
                let d = set_field(c, f, &case["v"]);
                let (Some(a), Some(b)) = (realise(&w, c), realise(&w, &d)) else {
                    st.skipped_unrealisable += 1;
                    continue;
                };
                emit_field_change(&mut trace, &a, &b, f, case["hashDiffers"].clone(), "tlc", &mut st);
                if every > 0 && n as u64 % every == 0 {
                    let with_verdict = verdict_every > 0 && (n as u64 / every) % verdict_every == 0;
                    // (the verdict is the slow part: when it is sampled, it is taken on two variants only)
                    let vs: Vec<&str> = if with_verdict && verdict_every > 1 { vec!["plain", "all"] } else { VARIANTS.to_vec() };
                    emit_round_trips(&w, &mut trace, &b, &vs, with_verdict, seed + n as u64, "tlc", &mut st);
                }
                let key = serde_json::to_string(c).unwrap();
                if shapes_done.insert(key) {
                    emit_round_trips(&w, &mut trace, &a, &VARIANTS, true, seed + n as u64, "tlc-shape", &mut st);
                }
            }
        }
        "msgs" => {
            let msgs: Vec<ProtocolMessage> = read_ndjson(args.req("cases")).iter().map(|m| pm_tok(&m["pm"])).collect();
            let digests: Vec<String> = msgs.iter().map(|m| m.compute_hash()).collect();
            st.msgs = msgs.len() as u64;
            let distinct_msgs: BTreeSet<String> = msgs.iter().map(|m| serde_json::to_string(m).unwrap()).collect();
            let distinct_digests: BTreeSet<&String> = digests.iter().collect();
            trace.emit(json!({"ev": "MsgDigestSet", "n_msgs": msgs.len(), "n_distinct_msgs": distinct_msgs.len(),
                              "n_distinct_digests": distinct_digests.len()}));
            // explicit pairs: neighbours in digest order (where a collision would sit), neighbours in
            // generation order, and seeded random pairs
            let mut order: Vec<usize> = (0..msgs.len()).collect();
            order.sort_by(|a, b| digests[*a].cmp(&digests[*b]));
            let mut r = rng(seed, 0xC04);
            let mut pairs: Vec<(usize, usize)> = order.windows(2).map(|p| (p[0], p[1])).collect();
            pairs.extend((1..msgs.len()).map(|i| (i - 1, i)));
            for _ in 0..args.num("pairs", 2000) {
                pairs.push((below(&mut r, msgs.len() as u64) as usize, below(&mut r, msgs.len() as u64) as usize));
            }
            for (i, j) in pairs {
                trace.emit(json!({"ev": "MsgDigestPair", "equal_msgs": msgs[i] == msgs[j], "same_digest": digests[i] == digests[j]}));
            }
        }
        "random" => {
            // really signed, verifiable certificates: the honest chain, and the epoch-3 certificate
            // re-issued for every signed entity type
            let mut bases: Vec<Certificate> = w.chain.clone();
            let mut r0 = rng(seed, 1);
            for _ in 0..5 {
                let mut c = w.chain[2].clone();
                if let CertificateSignature::MultiSignature(_, s) = &c.signature {
                    c.signature = CertificateSignature::MultiSignature(rand_entity(&mut r0), s.clone());
                }
                bases.push(c);
            }
            for b in &bases {
                emit_round_trips(&w, &mut trace, b, &VARIANTS, true, seed, "base", &mut st);
            }
            let n = args.num("n", 500);
            for i in 0..n {
                let mut r = rng(seed, 0xC04_0000 + i);
                let base = bases[below(&mut r, bases.len() as u64) as usize].clone();
                // the change is applied to a base that may itself already be unusual
                let mut a = base.clone();
                for _ in 0..below(&mut r, 3) {
                    mutate(&w, &mut r, &mut a);
                }
                let mut b = a.clone();
                let f = mutate(&w, &mut r, &mut b);
                emit_field_change(&mut trace, &a, &b, f, json!("none"), "random", &mut st);
                let vs: Vec<&str> = if i % 3 == 0 { VARIANTS.to_vec() } else { vec!["plain", "all"] };
                emit_round_trips(&w, &mut trace, &b, &vs, i % 2 == 0, seed + i, "random", &mut st);
            }
        }
        m => panic!("unknown mode {m}"),
    }
    let total = trace.finish();
    println!(
        "{}",
        json!({"mode": mode, "events": total, "field_changes": st.field_changes, "single_field_changes": st.single,
               "single_field_same_hash": st.single_same_hash, "by_field": st.by_field,
               "round_trips": st.round_trips, "decode_failures": st.decode_failures,
               "verdict_ok_bases": st.verdict_ok, "skipped_unrealisable": st.skipped_unrealisable, "msgs": st.msgs})
    );
}
