//! C03 — certificate chain verification (mithril-common path).
//!
//! `--mode cases --cases <ndjson> --out <trace>`: every case is an abstract universe of
//! certificates, a start certificate and the sequence of answers of an untrusted provider
//! (spec/cert/CertChain.tla, printed by TLC). The certificates are realised with real keys and
//! real multi-signatures (`vh_common::certkit`), served through a harness `CertificateRetriever`
//! to the real `MithrilCertificateVerifier::verify_certificate_chain`.
//! `--mode random`: seeded random universes (stacks of alterations and forgeries of an honest
//! chain, random provider behaviour) widen the exploration.
//! Every run is logged as a `VerifyChain` event carrying the *projection of every real
//! certificate involved, recomputed from its real value*; TLC validates the trace against
//! spec/cert/CertChainTrace.tla (`accepted => ValidChain`).
use std::collections::VecDeque;
use std::sync::{Arc, Mutex};

use async_trait::async_trait;
use mithril_common::certificate_chain::{
    CertificateRetriever, CertificateRetrieverError, CertificateVerifier, MithrilCertificateVerifier,
};
use mithril_common::entities::Certificate;
use vh_common::certkit::{AbsCert, Kit};
use vh_common::certrand;
use vh_core::{Args, Guarded, Trace, Value, guarded, json, read_ndjson};

/// The untrusted provider: answers the n-th fetch with the n-th entry of `serve` (0 = not found,
/// i = the i-th certificate of the universe), whatever hash was asked for. When the script is
/// exhausted it answers honestly (the certificate of the universe that really owns the hash, or
/// not found).
struct Provider {
    certs: Vec<Certificate>,
    serve: Mutex<VecDeque<usize>>,
    honest_after: bool,
    log: Mutex<Vec<(String, usize)>>,
}

#[async_trait]
impl CertificateRetriever for Provider {
    async fn get_certificate_details(&self, hash: &str) -> Result<Certificate, CertificateRetrieverError> {
        let next = self.serve.lock().unwrap().pop_front();
        let idx = match next {
            Some(i) => i,
            // honest: the certificate that really owns this hash
            None if self.honest_after => self
                .certs
                .iter()
                .position(|c| c.hash == hash && c.try_compute_hash().map(|h| h == c.hash).unwrap_or(false))
                .map(|p| p + 1)
                .unwrap_or(0),
            None => 0,
        };
        self.log.lock().unwrap().push((hash.to_string(), idx));
        if idx == 0 {
            Err(CertificateRetrieverError(anyhow::anyhow!("not found")))
        } else {
            Ok(self.certs[idx - 1].clone())
        }
    }
}

fn run_case(kit: &Kit, rt: &tokio::runtime::Runtime, case: &Value, n: usize, trace: &mut Trace, stats: &mut Stats) {
    let abs: Vec<AbsCert> = case["certs"].as_array().unwrap().iter().map(AbsCert::from_json).collect();
    let certs = kit.realise_all(&abs);
    let start = case["start"].as_u64().unwrap() as usize;
    let serve: Vec<usize> = case["serve"].as_array().unwrap().iter().map(|v| v.as_u64().unwrap() as usize).collect();
    let provider = Arc::new(Provider {
        certs: certs.clone(),
        serve: Mutex::new(serve.iter().copied().collect()),
        // beyond the scripted answers the provider is honest, so that a verifier that wrongly
        // passes the step the model rejects can go on to the genesis certificate and accept
        honest_after: case["honest_after"].as_bool().unwrap_or(true),
        log: Mutex::new(vec![]),
    });
    let verifier = MithrilCertificateVerifier::new(
        slog::Logger::root(slog::Discard, slog::o!()),
        provider.clone(),
        Arc::new(kit.genesis_verifier.clone()),
    );
    let start_cert = certs[start - 1].clone();
    let res = guarded(|| rt.block_on(verifier.verify_certificate_chain(start_cert)));
    let (accepted, panicked, err) = match res {
        Guarded::Done(Ok(())) => (true, false, String::new()),
        Guarded::Done(Err(e)) => (false, false, format!("{e:#}").chars().take(120).collect()),
        Guarded::Panic(m) => (false, true, m.chars().take(120).collect()),
    };
    let walk = provider.log.lock().unwrap().clone();
    // deviation class of the *real* walk: was a certificate checked against a served predecessor
    // of a later epoch
    let mut cur = start;
    let mut following = false;
    for (_, idx) in &walk {
        if *idx == 0 {
            break;
        }
        if *certs[*idx - 1].epoch > *certs[cur - 1].epoch {
            following = true;
        }
        cur = *idx;
    }
    let dev_following = accepted && following;
    let proj: Vec<Value> = certs.iter().map(|c| kit.project(c)).collect();
    if accepted {
        stats.accepted += 1;
    }
    if panicked {
        stats.panics += 1;
    }
    if let Some(p) = case.get("impl").and_then(|v| v.as_bool()) {
        if p != accepted {
            stats.mismatch += 1;
        }
    }
    stats.max_walk = stats.max_walk.max(walk.len());
    trace.emit(json!({
        "ev": "VerifyChain", "path": "common", "case": n,
        "cls": case.get("cls").cloned().unwrap_or(json!("")),
        "certs": proj, "start": start,
        "walk": walk.iter().map(|(h, i)| json!([Kit::short(h), i])).collect::<Vec<_>>(),
        "accepted": accepted, "panicked": panicked, "err": err,
        "predicted": case.get("impl").cloned().unwrap_or(json!("none")),
        "dev_following": dev_following, "dev_cache_forged": false, "dev_cache_tainted": false, "dev_cache_jump": false, "cache_before_boundary": false,
    }));
}

#[derive(Default)]
struct Stats {
    accepted: u64,
    panics: u64,
    mismatch: u64,
    max_walk: usize,
}

fn main() {
    std::panic::set_hook(Box::new(|i| eprintln!("panic: {i}")));
    let args = Args::parse();
    let mode = args.req("mode");
    let seed = args.num("seed", 1);
    let mut trace = Trace::create(args.req("out"));
    let kit = Kit::standard();
    let rt = tokio::runtime::Builder::new_current_thread().build().unwrap();
    let mut stats = Stats::default();
    let cases: Vec<Value> = match mode.as_str() {
        "cases" => read_ndjson(args.req("cases")),
        "random" => certrand::random_cases(seed, args.num("n", 200) as usize, false),
        m => panic!("unknown mode {m}"),
    };
    for (n, case) in cases.iter().enumerate() {
        run_case(&kit, &rt, case, n + 1, &mut trace, &mut stats);
    }
    let total = trace.finish();
    println!(
        "{}",
        json!({"mode": mode, "events": total, "accepted": stats.accepted, "panics": stats.panics,
               "prediction_mismatches": stats.mismatch, "max_walk": stats.max_walk,
               "certificates_built": *kit.built.borrow()})
    );
}
