//! C05 -- decoding untrusted bytes never crashes the process and round-trips honest values.
//!
//! Every decode call runs in a child process (`--worker`, this same binary) under `catch_unwind`
//! and a counting global allocator that refuses single requests above `64*len + 1 MiB`; the
//! parent records `abort` when the worker dies and `timeout` when it does not answer.
//!
//! `--mode cases`   spec -> impl: class vectors enumerated by TLC (spec/wire/Wire.tla) are realised
//!                  as real legacy bytes (honest values, patched) and fed to every entry point of
//!                  the type through every outer form.
//! `--mode honest`  every honest value x every encoding x every entry point (round trip).
//! `--mode mutate`  seeded structure-aware mutation driver over all honest encodings.
//! `--mode probe`   one decode call, for reproduction outside the framework.
//! The trace (one `Decode` event per call) is validated by TLC against spec/wire/WireTrace.tla.
#[path = "c05/entries.rs"]
mod entries;
#[path = "c05/guard.rs"]
mod guard;
#[path = "c05/honest.rs"]
mod honest;
#[path = "c05/legacy.rs"]
mod legacy;
#[path = "c05/run.rs"]
mod run;

use vh_core::Args;

#[global_allocator]
static ALLOC: guard::Counting = guard::Counting;

fn main() {
    let args = Args::parse();
    let seed = args.num("seed", 1);
    guard::install_panic_hook();
    if args.flag("worker") {
        // fixed stack so that deep recursion behaves the same everywhere
        let t = std::thread::Builder::new()
            .stack_size(8 << 20)
            .spawn(move || {
                // the honest store is only needed for round-trip comparisons: built on first use so
                // that a worker restarted after an abort is ready at once
                let mut store: Option<honest::Store> = None;
                let es = entries::entries();
                guard::worker_loop(|e, input, h| {
                    if h >= 0 && store.is_none() {
                        store = Some(honest::build(seed));
                    }
                    let hv = if h >= 0 { Some(&*store.as_ref().unwrap().vals[h as usize]) } else { None };
                    guard::guarded_call(input, true, |i| (es[e].f)(i, hv))
                });
            })
            .unwrap();
        let _ = t.join();
        return;
    }
    match args.req("mode").as_str() {
        "probe" => run::probe(&args, seed),
        "list" => run::list(seed),
        "honest" => run::honest_mode(&args, seed),
        "cases" => run::cases_mode(&args, seed),
        "mutate" => run::mutate_mode(&args, seed),
        m => panic!("unknown mode {m}"),
    }
}
