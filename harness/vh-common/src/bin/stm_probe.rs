use mithril_stm::{Initializer, KeyRegistration, Parameters, VerificationKeyProofOfPossessionForConcatenation};
fn main() {
    let mut rng = vh_core::rng(1, 1);
    let params = Parameters { m: 6, k: 2, phi_f: 0.8 };
    let p = Initializer::new(params, 5, &mut rng);
    let vkpop = p.get_verification_key_proof_of_possession_for_concatenation();
    let mut j = serde_json::to_value(&vkpop).unwrap();
    println!("{}", j.to_string().chars().take(300).collect::<String>());
    for (f, i) in [("vk", 0), ("pop", 0), ("pop", 48)] { let b = j[f][i].as_u64().unwrap(); j[f][i] = serde_json::json!(b ^ 0x20); }
    let neg: Result<VerificationKeyProofOfPossessionForConcatenation, _> = serde_json::from_value(j);
    match neg {
        Ok(n) => {
            let mut reg = KeyRegistration::initialize();
            println!("orig {:?}", reg.register(5, &vkpop).is_ok());
            println!("neg  {:?}", reg.register(5, &n).map_err(|e| format!("{e:#}")));
        }
        Err(e) => println!("decode failed {e}"),
    }
}
