use mithril_stm::Parameters;
use vh_common::stmkit::World;
fn main() {
    let mut rng = vh_core::rng(1, 1);
    let params = Parameters { m: 6, k: 2, phi_f: 0.8 };
    let w = World::new(params, &[10, 20, 30], &mut rng);
    let msg = [7u8; 16];
    let sigs: Vec<_> = w.signers.iter().filter_map(|s| s.create_single_signature(&msg).ok()).collect();
    println!("SIG {}", serde_json::to_string(&sigs[0]).unwrap());
    let agg = w.aggregate(&sigs, &msg).unwrap();
    println!("AGG {}", serde_json::to_string(&agg).unwrap());
    println!("AVK {}", serde_json::to_string(w.avk.to_concatenation_aggregate_verification_key()).unwrap());
    println!("verify {:?}", w.verify(&agg, &msg, &params).is_ok());
}
