use mithril_common::crypto_helper::{MKMap, MKMapNode, MKTree, MKTreeNode, MKTreeStoreInMemory};
use mithril_common::entities::BlockRange;
fn main() {
    let leaves: Vec<MKTreeNode> = (0..5).map(|i| format!("leaf-{i}").into()).collect();
    let t = MKTree::<MKTreeStoreInMemory>::new(&leaves).unwrap();
    let p = t.compute_proof(&leaves[1..3]).unwrap();
    println!("MKPROOF {}", serde_json::to_string(&p).unwrap());
    let entries: Vec<(BlockRange, MKMapNode<BlockRange, MKTreeStoreInMemory>)> = (0..3u64)
        .map(|r| {
            let ls: Vec<MKTreeNode> = (0..3).map(|i| format!("r{r}-leaf-{i}").into()).collect();
            (BlockRange::from_block_number(mithril_common::entities::BlockNumber(r * 15)), MKTree::<MKTreeStoreInMemory>::new(&ls).unwrap().into())
        })
        .collect();
    let m = MKMap::<_, _, MKTreeStoreInMemory>::new(&entries).unwrap();
    let q: Vec<MKTreeNode> = vec!["r0-leaf-1".into(), "r2-leaf-0".into()];
    let mp = m.compute_proof(&q).unwrap();
    println!("MKMAPPROOF {}", serde_json::to_string(&mp).unwrap());
    println!("root {}", m.compute_root().unwrap().to_hex());
}
