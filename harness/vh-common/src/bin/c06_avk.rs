//! C06 — everyone derives the same aggregate verification key from the same registrations.
//! Registration sets and arrival orders enumerated by TLC (spec/keyreg) are realised with real
//! KES-certified fixture signers on several computation paths:
//!   stm            mithril-stm KeyRegistration in the given arrival order
//!   signer_builder mithril-common SignerBuilder::new with signers in the given order
//!   client_msg     signers through SignerWithStakeMessagePart -> JSON text -> back (what a client
//!                  recomputing a stake-distribution message does), in reverse order
//!   key_roundtrip  the resulting key through its json-hex encoding and back
//!   signer_view    every registered party restores its signer from its stored initializer over the
//!                  registrations in arrival order A (what the signer node does) and signs; the signature
//!                  carries the signer's OWN derivation of the registration commitment and must be
//!                  accepted by the multi-signer built over arrival order B (the aggregator node)
use std::collections::BTreeMap;

use mithril_common::crypto_helper::{ProtocolAggregateVerificationKey, ProtocolKey};
use mithril_common::entities::{ProtocolParameters, SignerWithStake};
use mithril_common::messages::SignerWithStakeMessagePart;
use mithril_common::protocol::SignerBuilder;
use mithril_common::test::builder::MithrilFixtureBuilder;
use mithril_stm::{Clerk, KeyRegistration, MithrilMembershipDigest, Parameters};
use vh_core::{Args, Guarded, Trace, Value, below, guarded, json, quiet_panics, read_ndjson, rng};

type D = MithrilMembershipDigest;

fn avk_hex(avk: &ProtocolAggregateVerificationKey) -> String {
    ProtocolKey::new(avk.to_concatenation_aggregate_verification_key().to_owned()).to_json_hex().unwrap()
}

fn set_id(sel: &[(usize, u64)]) -> String {
    let mut v: Vec<String> = sel.iter().map(|(k, s)| format!("k{}:{}", k + 1, s)).collect();
    v.sort();
    v.join(",")
}

struct Pool {
    params: ProtocolParameters,
    signers: Vec<SignerWithStake>, // sorted by verification key bytes: k1 < k2 < ...
    initializers: Vec<mithril_common::crypto_helper::ProtocolInitializer>, // same order
}

/// the stored initializer of a party, with the stake it is registered with in this set (the signer node restores
/// its initializer from its store and the stake comes from the stake distribution of the epoch)
fn initializer_with_stake(init: &mithril_common::crypto_helper::ProtocolInitializer, stake: u64) -> Option<mithril_common::crypto_helper::ProtocolInitializer> {
    let mut j = serde_json::to_value(init).ok()?;
    fn patch(v: &mut Value, stake: u64) -> bool {
        match v {
            Value::Object(m) => {
                let mut hit = false;
                for (k, x) in m.iter_mut() {
                    if k == "stake" && x.is_u64() {
                        *x = json!(stake);
                        hit = true;
                    } else {
                        hit |= patch(x, stake);
                    }
                }
                hit
            }
            _ => false,
        }
    }
    if !patch(&mut j, stake) {
        return None;
    }
    serde_json::from_value(j).ok()
}

fn with_stake(s: &SignerWithStake, stake: u64) -> SignerWithStake {
    let mut s = s.clone();
    s.stake = stake;
    s
}

fn emit(trace: &mut Trace, set: &str, path: &str, perm: &str, res: Guarded<Result<(String, u64, String), String>>) {
    match res {
        Guarded::Done(Ok((avk, total, slots))) => {
            trace.emit(json!({"ev":"Avk","set":set,"path":path,"perm":perm,"avk":avk,"total":total.to_string(),"slots":slots}))
        }
        Guarded::Done(Err(e)) => trace.emit(json!({"ev":"AvkError","set":set,"path":path,"perm":perm,"what":e})),
        Guarded::Panic(m) => trace.emit(json!({"ev":"Panic","set":set,"path":path,"what":m})),
    }
}

fn run_paths(trace: &mut Trace, pool: &Pool, sel: &[(usize, u64)], order_a: &[usize], order_b: &[usize]) {
    let set = set_id(sel);
    let stake_of: BTreeMap<usize, u64> = sel.iter().cloned().collect();
    let stm_params: Parameters = pool.params.clone().into();
    // --- stm path, arrival order A
    let res = guarded(|| -> Result<(String, u64, String), String> {
        let mut reg = KeyRegistration::initialize();
        for k in order_a {
            let s = &pool.signers[*k];
            reg.register(stake_of[k], &s.verification_key_for_concatenation.to_owned().into()).map_err(|e| format!("{e:#}"))?;
        }
        let closed = reg.close_registration(&stm_params).map_err(|e| format!("{e:#}"))?;
        let clerk = Clerk::<D>::new_clerk_from_closed_key_registration(&stm_params, &closed);
        let avk: ProtocolAggregateVerificationKey = clerk.compute_aggregate_verification_key().into();
        // slot of each key = its position in the closed registration
        let mut slots = vec![];
        for (k, _) in sel {
            let vk = mithril_stm::VerificationKeyProofOfPossessionForConcatenation::from(pool.signers[*k].verification_key_for_concatenation.to_owned()).vk;
            let pos = closed.closed_registration_entries.iter().position(|e| e.get_verification_key_for_concatenation() == vk).unwrap();
            slots.push(format!("k{}={}", k + 1, pos));
        }
        slots.sort();
        Ok((avk_hex(&avk), closed.total_stake, slots.join(",")))
    });
    emit(trace, &set, "stm", &format!("{order_a:?}"), res);
    // --- signer builder path, order B
    let signers_b: Vec<SignerWithStake> = order_b.iter().map(|k| with_stake(&pool.signers[*k], stake_of[k])).collect();
    let res = guarded(|| -> Result<(String, u64, String), String> {
        let b = SignerBuilder::new(&signers_b, &pool.params).map_err(|e| format!("{e:#}"))?;
        let avk = b.compute_aggregate_verification_key();
        let total = avk.to_concatenation_aggregate_verification_key().get_total_stake();
        Ok((avk_hex(&avk), total, "n/a".into()))
    });
    emit(trace, &set, "signer_builder", &format!("{order_b:?}"), res);
    // --- client message path: message parts -> JSON text -> back, reverse order
    let res = guarded(|| -> Result<(String, u64, String), String> {
        let mut parts = SignerWithStakeMessagePart::from_signers(signers_b.clone());
        parts.reverse();
        let text = serde_json::to_string(&parts).map_err(|e| e.to_string())?;
        let parts: Vec<SignerWithStakeMessagePart> = serde_json::from_str(&text).map_err(|e| e.to_string())?;
        let signers = SignerWithStakeMessagePart::try_into_signers(parts).map_err(|e| format!("{e:#}"))?;
        let params_text = serde_json::to_string(&pool.params).unwrap();
        let params: ProtocolParameters = serde_json::from_str(&params_text).unwrap();
        let b = SignerBuilder::new(&signers, &params).map_err(|e| format!("{e:#}"))?;
        let avk = b.compute_aggregate_verification_key();
        let total = avk.to_concatenation_aggregate_verification_key().get_total_stake();
        // key encoding round trip
        let hex = avk_hex(&avk);
        let back: ProtocolKey<mithril_stm::AggregateVerificationKeyForConcatenation<D>> = hex.clone().try_into().map_err(|e| format!("{e:#}"))?;
        let hex2 = back.to_json_hex().map_err(|e| format!("{e:#}"))?;
        if hex2 != hex {
            return Err("key json-hex round trip changed the key".into());
        }
        Ok((hex, total, "n/a".into()))
    });
    emit(trace, &set, "client_msg", "reverse", res);
    // --- client message path with ONE entry that does not decode (its key hex damaged): the served list is not the
    // list of the set without that entry -- it must not yield that set's key (an error is fine)
    if signers_b.len() >= 2 {
        let victim = signers_b.len() - 1;
        let res = guarded(|| -> Result<(String, u64, String), String> {
            let parts = SignerWithStakeMessagePart::from_signers(signers_b.clone());
            let mut j = serde_json::to_value(&parts).map_err(|e| e.to_string())?;
            let key = j[victim]["verification_key"].as_str().ok_or("no verification_key field")?.to_string();
            j[victim]["verification_key"] = json!(format!("{}zz", &key[..key.len() - 2]));
            let text = serde_json::to_string(&j).map_err(|e| e.to_string())?;
            let parts: Vec<SignerWithStakeMessagePart> = serde_json::from_str(&text).map_err(|e| e.to_string())?;
            let signers = SignerWithStakeMessagePart::try_into_signers(parts).map_err(|e| format!("{e:#}"))?;
            let b = SignerBuilder::new(&signers, &pool.params).map_err(|e| format!("{e:#}"))?;
            let avk = b.compute_aggregate_verification_key();
            let total = avk.to_concatenation_aggregate_verification_key().get_total_stake();
            Ok((avk_hex(&avk), total, "n/a".into()))
        });
        let damaged_set = format!("{set},damaged-entry:{}", signers_b[victim].party_id.chars().take(12).collect::<String>());
        emit(trace, &damaged_set, "client_msg_damaged_entry", "order-b", res);
    }
    // --- signer view: each party's own signer (registrations in order A) against the multi-signer over order B
    let signers_a: Vec<SignerWithStake> = order_a.iter().map(|k| with_stake(&pool.signers[*k], stake_of[k])).collect();
    for (k, stake) in sel {
        let res = guarded(|| -> Result<Option<bool>, String> {
            let at_signer = SignerBuilder::new(&signers_a, &pool.params).map_err(|e| format!("{e:#}"))?;
            let at_aggregator = SignerBuilder::new(&signers_b, &pool.params).map_err(|e| format!("{e:#}"))?.build_multi_signer();
            let init = initializer_with_stake(&pool.initializers[*k], *stake).ok_or("initializer stake not patchable")?;
            let single = at_signer.restore_signer_from_initializer(pool.signers[*k].party_id.clone(), init).map_err(|e| format!("{e:#}"))?;
            // the first of a few fixed messages on which this party wins a lottery (none: nothing to compare)
            for n in 0..40u32 {
                let msg = format!("c06-message-{n}");
                if let Some(sig) = single.sign(&msg).map_err(|e| format!("{e:#}"))? {
                    return Ok(Some(at_aggregator.verify_single_signature(&msg, &sig).is_ok()));
                }
            }
            Ok(None)
        });
        match res {
            Guarded::Done(Ok(Some(ok))) => trace.emit(json!({"ev":"SignerView","set":set,"key":format!("k{}", k + 1),"stake":stake.to_string(),"accepted": if ok { "yes" } else { "no" }})),
            Guarded::Done(Ok(None)) => trace.emit(json!({"ev":"SignerView","set":set,"key":format!("k{}", k + 1),"stake":stake.to_string(),"accepted":"no-win"})),
            Guarded::Done(Err(e)) => trace.emit(json!({"ev":"AvkError","set":set,"path":"signer_view","perm":format!("k{}", k + 1),"what":e})),
            Guarded::Panic(m) => trace.emit(json!({"ev":"Panic","set":set,"path":"signer_view","what":m})),
        }
    }
}

fn main() {
    quiet_panics();
    let args = Args::parse();
    let mut trace = Trace::create(args.req("out"));
    let seed = args.num("seed", 1);
    let mut r = rng(seed, 6);
    let params = ProtocolParameters { k: 2, m: 10, phi_f: 0.8 };
    let fixture = MithrilFixtureBuilder::default().with_signers(6).with_protocol_parameters(params.clone()).build();
    let mut fx = fixture.signers_fixture();
    fx.sort_by_key(|s| {
        let vk = mithril_stm::VerificationKeyProofOfPossessionForConcatenation::from(s.signer_with_stake.verification_key_for_concatenation.to_owned()).vk;
        vk
    });
    let signers: Vec<SignerWithStake> = fx.iter().map(|s| s.signer_with_stake.clone()).collect();
    let initializers = fx.iter().map(|s| s.protocol_initializer.clone()).collect();
    let pool = Pool { params, signers, initializers };
    let stake_val = |v: u64| match v { 0 => 0, 1 => 10, _ => 25 };
    let mut n = 0u64;
    for c in read_ndjson(args.req("cases")) {
        let target = c["target"].as_object().unwrap();
        let key_ix = |name: &str| name[1..].parse::<usize>().unwrap() - 1;
        let sel: Vec<(usize, u64)> = target.iter().map(|(k, v)| (key_ix(k), stake_val(v.as_u64().unwrap()))).collect();
        let ord = |node: &str| -> Vec<usize> { c["orders"][node].as_array().unwrap().iter().map(|k| key_ix(k.as_str().unwrap())).collect() };
        run_paths(&mut trace, &pool, &sel, &ord("signer"), &ord("aggregator"));
        // predicted slots (drift information)
        let mut pred: Vec<String> = c["slots"].as_object().unwrap().iter().map(|(k, v)| format!("{k}={v}")).collect();
        pred.sort();
        trace.emit(json!({"ev":"Predicted","set":set_id(&sel),"slots":pred.join(","),"total":c["total"]}));
        n += 1;
    }
    // seeded larger sets: 4-6 keys, stakes incl. equal stakes and extremes, random permutations
    for _ in 0..args.num("random", 40) {
        let nk = 2 + below(&mut r, 5) as usize;
        let mut keys: Vec<usize> = (0..6).collect();
        for i in (1..keys.len()).rev() {
            keys.swap(i, below(&mut r, i as u64 + 1) as usize);
        }
        keys.truncate(nk);
        let stakes = [0u64, 1, 7, 7, 1_000_000, u64::MAX / 8];
        let sel: Vec<(usize, u64)> = keys.iter().map(|k| (*k, stakes[below(&mut r, stakes.len() as u64) as usize])).collect();
        let mut a = keys.clone();
        let mut b = keys.clone();
        for i in (1..a.len()).rev() {
            a.swap(i, below(&mut r, i as u64 + 1) as usize);
            b.swap(i, below(&mut r, i as u64 + 1) as usize);
        }
        run_paths(&mut trace, &pool, &sel, &a, &b);
        n += 1;
    }
    // adversarial keys: a key and its negation (compressed encodings differ in the sign bit only; the
    // negated proof of possession is valid too). They are not KES-certified, so only the stm path.
    let vkpop = |s: &SignerWithStake| -> mithril_stm::VerificationKeyProofOfPossessionForConcatenation { s.verification_key_for_concatenation.to_owned().into() };
    let negate = |v: &mithril_stm::VerificationKeyProofOfPossessionForConcatenation| -> Option<mithril_stm::VerificationKeyProofOfPossessionForConcatenation> {
        let mut j = serde_json::to_value(v).ok()?;
        for (f, i) in [("vk", 0usize), ("pop", 0), ("pop", 48)] {
            let b = j[f][i].as_u64()?;
            j[f][i] = json!(b ^ 0x20);
        }
        serde_json::from_value(j).ok()
    };
    let stm_params: Parameters = pool.params.clone().into();
    let mut neg_sets = 0u64;
    for round in 0..args.num("negated", 12) {
        // members: (label, key, stake); kI and its negation nI share the stake
        let i = (round % 3) as usize;
        let Some(neg) = negate(&vkpop(&pool.signers[i])) else { continue };
        let stake = [7u64, 7, 1][(round % 3) as usize];
        let mut members = vec![(format!("k{}", i + 1), vkpop(&pool.signers[i]), stake), (format!("n{}", i + 1), neg, stake)];
        for extra in 0..(round % 3) as usize {
            let k = (i + 1 + extra) % 6;
            members.push((format!("k{}", k + 1), vkpop(&pool.signers[k]), [3u64, 7, 12][extra]));
        }
        let mut ids: Vec<String> = members.iter().map(|(l, _, s)| format!("{l}:{s}")).collect();
        ids.sort();
        let set = ids.join(",");
        for perm in 0..4 {
            let mut order: Vec<usize> = (0..members.len()).collect();
            if perm % 2 == 1 { order.reverse(); }
            if perm >= 2 { order.rotate_left(1); }
            let res = guarded(|| -> Result<(String, u64, String), String> {
                let mut reg = KeyRegistration::initialize();
                for o in &order {
                    reg.register(members[*o].2, &members[*o].1).map_err(|e| format!("{e:#}"))?;
                }
                let closed = reg.close_registration(&stm_params).map_err(|e| format!("{e:#}"))?;
                let clerk = Clerk::<D>::new_clerk_from_closed_key_registration(&stm_params, &closed);
                let avk: ProtocolAggregateVerificationKey = clerk.compute_aggregate_verification_key().into();
                let mut slots = vec![];
                for (l, v, _) in &members {
                    let pos = closed.closed_registration_entries.iter().position(|e| e.get_verification_key_for_concatenation() == v.vk);
                    slots.push(format!("{l}={}", pos.map(|p| p.to_string()).unwrap_or("absent".into())));
                }
                slots.sort();
                Ok((avk_hex(&avk), closed.total_stake, slots.join(",")))
            });
            emit(&mut trace, &set, "stm", &format!("{order:?}"), res);
        }
        neg_sets += 1;
    }
    n += neg_sets;
    let ev = trace.finish();
    println!("{}", json!({"events": ev, "sets": n}));
}

#[allow(dead_code)]
fn unused(_: Value) {}
