//! C18 — resource pool generations.
//!
//! Mode `replay`: schedules generated from the TLC state graph of `spec/pool/Pool.tla` are replayed
//! on the **real** `ResourcePool` with one OS thread per spec process. The `pool.y.*` hook points
//! (compiled in with `--cfg mithril_verif`) park a thread just before it takes a lock; the
//! controller releases exactly the thread the schedule names, so the real code follows the spec's
//! interleaving step by step.
//! Mode `stress`: free-running threads, events ordered by a global sequence number taken inside
//! the critical sections.
//! Both modes write an ndjson trace validated by TLC against `spec/pool/PoolTrace.tla`.
use std::cell::Cell;
use std::collections::BTreeMap;
use std::sync::atomic::{AtomicBool, AtomicU64, Ordering};
use std::sync::mpsc::{Receiver, Sender, channel};
use std::sync::{Arc, Condvar, Mutex};
use std::time::Duration;

use mithril_common::StdResult;
use mithril_common::verif_hooks::{self, Action};
use mithril_resource_pool::{Reset, ResourcePool, ResourcePoolItem};
use vh_core::{Args, Value, below, json, read_ndjson, rng};

// ------------------------------------------------------------------------------------------
// the pooled resource: carries its identity and its *true* generation
// ------------------------------------------------------------------------------------------
struct Res {
    rid: u64,
    genr: u64,
}
/// how long one `Res::reset` takes (stress mode: long enough for other threads to get in the way if the
/// pool lets them; under the real lock discipline they just wait)
static RESET_SLEEP_US: AtomicU64 = AtomicU64::new(0);
impl Reset for Res {
    fn reset(&mut self) -> StdResult<()> {
        let us = RESET_SLEEP_US.load(Ordering::Relaxed);
        if us > 0 {
            std::thread::sleep(Duration::from_micros(us));
        }
        Ok(())
    }
}

// ------------------------------------------------------------------------------------------
// shared recorder / scheduler
// ------------------------------------------------------------------------------------------
thread_local! {
    static PROC: Cell<usize> = const { Cell::new(usize::MAX) };
}

#[derive(Clone, Debug, PartialEq)]
enum PState {
    Idle,            // waiting for a command
    Running,         // executing between two hook points
    Parked(String),  // blocked at yield point `pool.y.<label>`
}

struct Sched {
    controlled: bool,
    state: Vec<PState>,
    permit: Vec<bool>,
}

struct Shared {
    names: Vec<String>,
    sched: Mutex<Sched>,
    cv: Condvar,
    events: Mutex<Vec<Value>>, // seq = position: pushes happen inside the hooked critical sections
}

impl Shared {
    fn log(&self, mut ev: Value) {
        let p = PROC.with(|p| p.get());
        let who = if p == usize::MAX { "main".to_string() } else { self.names[p].clone() };
        ev.as_object_mut().unwrap().insert("t".into(), json!(who));
        self.events.lock().unwrap().push(ev);
    }

    /// hook observer
    fn observe(&self, name: &str, args: &[(&str, String)]) -> Action {
        let p = PROC.with(|p| p.get());
        if p == usize::MAX {
            return Action::Continue; // controller / main thread calling count() etc.
        }
        if let Some(label) = name.strip_prefix("pool.y.") {
            let mut s = self.sched.lock().unwrap();
            if !s.controlled {
                return Action::Continue;
            }
            s.state[p] = PState::Parked(label.to_string());
            self.cv.notify_all();
            while !s.permit[p] {
                s = self.cv.wait(s).unwrap();
            }
            s.permit[p] = false;
            s.state[p] = PState::Running;
            return Action::Continue;
        }
        let num = |k: &str| -> u64 {
            args.iter().find(|(a, _)| *a == k).map(|(_, v)| v.parse().unwrap()).unwrap_or(0)
        };
        match name {
            "pool.pop" => self.log(json!({"ev":"Pop","tag":num("tag")})),
            "pool.push" => self.log(json!({"ev":"Push","d":num("d"),"len":num("len")})),
            "pool.stale_drop" => self.log(json!({"ev":"StaleDrop","d":num("d")})),
            "pool.full_drop" => self.log(json!({"ev":"FullDrop"})),
            "pool.clear" => self.log(json!({"ev":"Clear"})),
            "pool.set_disc" => self.log(json!({"ev":"SetDisc","d":num("d")})),
            "pool.set_disc_and_clear" => self.log(json!({"ev":"SetDiscAndClear","d":num("d")})),
            "pool.timeout" => self.log(json!({"ev":"Timeout"})),
            "pool.wait" => self.log(json!({"ev":"Wait"})),
            _ => {}
        }
        Action::Continue
    }
}

// ------------------------------------------------------------------------------------------
// worker threads
// ------------------------------------------------------------------------------------------
#[derive(Debug, Clone, Copy, PartialEq)]
enum Cmd {
    Acquire,
    Drop,
    GiveBackItem,
    Refresh,
    Reset,
    Exit,
}

struct World {
    pool: ResourcePool<Res>,
    size: usize,
    next_rid: AtomicU64,
    acquire_timeout: Duration,
}

/// the refresh exactly as `MithrilProverService::compute_cache` performs it on its pool
fn refresh(w: &World, sh: &Shared) {
    sh.log(json!({"ev":"RefreshBegin"}));
    let dnew = w.pool.discriminant().unwrap() + 1;
    w.pool.set_discriminant_and_clear(dnew).unwrap();
    for _ in 0..w.size {
        let rid = w.next_rid.fetch_add(1, Ordering::SeqCst);
        sh.log(json!({"ev":"GiveBack","rid":rid,"gen":dnew,"via":"refresh"}));
        w.pool.give_back_resource(Res { rid, genr: dnew }, dnew).unwrap();
    }
    sh.log(json!({"ev":"RefreshDone","gen":dnew}));
}

fn worker(idx: usize, w: Arc<World>, sh: Arc<Shared>, rx: Receiver<Cmd>) {
    PROC.with(|p| p.set(idx));
    let mut held: Option<ResourcePoolItem<'_, Res>> = None;
    // SAFETY-free trick: the item borrows the pool inside `w`, which this thread keeps alive.
    let wref: &World = unsafe { &*(Arc::as_ptr(&w)) };
    loop {
        let cmd = rx.recv().unwrap_or(Cmd::Exit);
        {
            let mut s = sh.sched.lock().unwrap();
            s.state[idx] = PState::Running;
        }
        match cmd {
            Cmd::Exit => {
                // never run the implicit give-back at exit: leak the item
                if let Some(it) = held.take() {
                    std::mem::forget(it);
                }
                let mut s = sh.sched.lock().unwrap();
                s.state[idx] = PState::Idle;
                sh.cv.notify_all();
                return;
            }
            Cmd::Acquire => match wref.pool.acquire_resource(wref.acquire_timeout) {
                Ok(item) => {
                    sh.log(json!({"ev":"Got","rid":item.rid,"gen":item.genr,"tag":item.discriminant()}));
                    held = Some(item);
                }
                Err(_) => sh.log(json!({"ev":"AcquireFailed"})),
            },
            Cmd::Drop => {
                if let Some(item) = held.take() {
                    sh.log(json!({"ev":"GiveBack","rid":item.rid,"gen":item.genr,"via":"drop"}));
                    drop(item);
                }
            }
            Cmd::GiveBackItem => {
                if let Some(item) = held.take() {
                    sh.log(json!({"ev":"GiveBack","rid":item.rid,"gen":item.genr,"via":"item"}));
                    wref.pool.give_back_resource_pool_item(item).unwrap();
                }
            }
            Cmd::Refresh => refresh(wref, &sh),
            Cmd::Reset => {
                wref.pool.reset_available_resources().unwrap();
                sh.log(json!({"ev":"ResetDone"}));
            }
        }
        let mut s = sh.sched.lock().unwrap();
        s.state[idx] = PState::Idle;
        sh.cv.notify_all();
    }
}

struct Run {
    w: Arc<World>,
    sh: Arc<Shared>,
    tx: Vec<Sender<Cmd>>,
    handles: Vec<std::thread::JoinHandle<()>>,
}

fn start(names: &[String], size: usize, controlled: bool, timeout_ms: u64) -> Run {
    let init: Vec<Res> = (1..=size as u64).map(|rid| Res { rid, genr: 0 }).collect();
    let w = Arc::new(World {
        pool: ResourcePool::new(size, init),
        size,
        next_rid: AtomicU64::new(size as u64 + 1),
        acquire_timeout: Duration::from_millis(timeout_ms),
    });
    let sh = Arc::new(Shared {
        names: names.to_vec(),
        sched: Mutex::new(Sched {
            controlled,
            state: vec![PState::Idle; names.len()],
            permit: vec![false; names.len()],
        }),
        cv: Condvar::new(),
        events: Mutex::new(vec![]),
    });
    let obs = sh.clone();
    verif_hooks::install(Some(Arc::new(move |n: &str, a: &[(&str, String)]| obs.observe(n, a))));
    let mut tx = vec![];
    let mut handles = vec![];
    for i in 0..names.len() {
        let (t, r) = channel();
        tx.push(t);
        let (w2, sh2) = (w.clone(), sh.clone());
        handles.push(std::thread::spawn(move || worker(i, w2, sh2, r)));
    }
    Run { w, sh, tx, handles }
}

impl Run {
    fn stop(self) -> Vec<Value> {
        let w = self.w.clone();
        {
            // release anybody still parked, then let everything finish freely
            let mut s = self.sh.sched.lock().unwrap();
            s.controlled = false;
            for p in s.permit.iter_mut() {
                *p = true;
            }
            self.sh.cv.notify_all();
        }
        for t in &self.tx {
            let _ = t.send(Cmd::Exit);
        }
        for h in self.handles {
            let _ = h.join();
        }
        verif_hooks::install(None);
        let mut ev = std::mem::take(&mut *self.sh.events.lock().unwrap());
        // every thread is done: how many resources the pool holds now
        ev.push(json!({"ev":"PoolLen","len": w.pool.count().unwrap_or(0),"t":"main"}));
        ev
    }

    /// wait until thread `p` is parked or idle; returns its state (None on timeout)
    fn settle(&self, p: usize) -> Option<PState> {
        let mut s = self.sh.sched.lock().unwrap();
        let deadline = std::time::Instant::now() + Duration::from_secs(5);
        loop {
            match &s.state[p] {
                PState::Running => {}
                st => return Some(st.clone()),
            }
            let now = std::time::Instant::now();
            if now >= deadline {
                return None;
            }
            s = self.sh.cv.wait_timeout(s, deadline - now).unwrap().0;
        }
    }

    fn command(&self, p: usize, c: Cmd) {
        {
            let mut s = self.sh.sched.lock().unwrap();
            s.state[p] = PState::Running;
        }
        self.tx[p].send(c).unwrap();
    }

    fn release(&self, p: usize) {
        let mut s = self.sh.sched.lock().unwrap();
        s.state[p] = PState::Running;
        s.permit[p] = true;
        self.sh.cv.notify_all();
    }
}

/// label the spec expects thread p to be parked at after a step (from the `pc` of the target state)
fn expected_state(pc: &str) -> PState {
    match pc {
        "idle" => PState::Idle,
        l => PState::Parked(l.trim_start_matches("y_").to_string()),
    }
}

fn main() {
    let args = Args::parse();
    let mode = args.req("mode");
    let out = args.req("out");
    let mut trace = vh_core::Trace::create(&out);
    let mut summary = BTreeMap::new();
    match mode.as_str() {
        "replay" => {
            let schedules = read_ndjson(args.req("schedules"));
            let mut steps_total = 0u64;
            let mut drift = 0u64;
            let mut drift_samples: Vec<Value> = vec![];
            for sc in &schedules {
                let procs: Vec<String> =
                    sc["procs"].as_array().unwrap().iter().map(|v| v.as_str().unwrap().to_string()).collect();
                let size = sc["size"].as_u64().unwrap() as usize;
                let run = start(&procs, size, true, 20);
                trace.emit(json!({"ev":"NewPool","size":size,"sched":sc["id"],"t":"main"}));
                let mut emitted = 0usize;
                let mut diverged = false;
                for (k, st) in sc["steps"].as_array().unwrap().iter().enumerate() {
                    let pname = st["p"].as_str().unwrap();
                    let p = procs.iter().position(|n| n == pname).unwrap();
                    let a = st["a"].as_str().unwrap();
                    match a {
                        "BeginAcquire" => run.command(p, Cmd::Acquire),
                        "BeginDrop" => run.command(p, Cmd::Drop),
                        "BeginGiveBackItem" => run.command(p, Cmd::GiveBackItem),
                        "RfBegin" => run.command(p, Cmd::Refresh),
                        "RsBegin" => run.command(p, Cmd::Reset),
                        _ => run.release(p),
                    }
                    steps_total += 1;
                    let got = run.settle(p);
                    // flush the events of this step, in order
                    {
                        let evs = run.sh.events.lock().unwrap();
                        for e in evs.iter().skip(emitted) {
                            trace.emit(e.clone());
                        }
                        emitted = evs.len();
                    }
                    // conformance of the implementation-shaped model: control point, pool length
                    // and discriminant after the step (a mismatch is SPEC-DRIFT, not a violation)
                    let want = expected_state(st["pc"].as_str().unwrap());
                    let real_len = run.w.pool.count().unwrap() as u64;
                    let real_disc = run.w.pool.discriminant().unwrap();
                    let ok = got.as_ref() == Some(&want)
                        && real_len == st["len"].as_u64().unwrap()
                        && real_disc == st["disc"].as_u64().unwrap();
                    if !ok {
                        drift += 1;
                        if drift_samples.len() < 5 {
                            drift_samples.push(json!({"sched":sc["id"],"step":k,"p":pname,"a":a,
                                "want_pc":st["pc"],"got":format!("{got:?}"),
                                "want_len":st["len"],"real_len":real_len,
                                "want_disc":st["disc"],"real_disc":real_disc}));
                        }
                        diverged = true;
                        break; // the rest of the schedule no longer means anything: finish freely
                    }
                }
                let evs = run.stop();
                for e in evs.iter().skip(emitted) {
                    trace.emit(e.clone());
                }
                let _ = diverged;
            }
            summary.insert("schedules", json!(schedules.len()));
            summary.insert("steps", json!(steps_total));
            summary.insert("drift", json!(drift));
            summary.insert("drift_samples", json!(drift_samples));
        }
        "stress" => {
            let seed = args.num("seed", 1);
            let rounds = args.num("rounds", 50);
            let users = args.num("users", 3) as usize;
            let mut ops_total = 0u64;
            let mut resets_total = 0u64;
            for round in 0..rounds {
                let size = 1 + (round % 3) as usize;
                let mut procs: Vec<String> = (1..=users).map(|i| format!("u{i}")).collect();
                procs.push("rf".into());
                procs.push("rs".into());
                RESET_SLEEP_US.store(args.num("reset-us", 250), Ordering::Relaxed);
                let run = start(&procs, size, false, 3);
                trace.emit(json!({"ev":"NewPool","size":size,"sched":format!("stress-{round}"),"t":"main"}));
                let stop = Arc::new(AtomicBool::new(false));
                // each process gets its own random program; commands are queued up front, the
                // threads run them concurrently at full speed
                let mut r = rng(seed, 1800 + round);
                let mut hold = vec![false; users];
                for _ in 0..args.num("ops", 60) {
                    let p = below(&mut r, users as u64 + 2) as usize;
                    if p == users + 1 {
                        // the resetter: reset_available_resources while everybody else is at work
                        if below(&mut r, 2) == 0 {
                            run.tx[p].send(Cmd::Reset).unwrap();
                            ops_total += 1;
                            resets_total += 1;
                        }
                        continue;
                    }
                    if p == users {
                        if below(&mut r, 4) == 0 {
                            run.tx[p].send(Cmd::Refresh).unwrap();
                            ops_total += 1;
                        }
                        continue;
                    }
                    let c = if !hold[p] {
                        hold[p] = true; // may fail (timeout): the following give-back is then a no-op
                        Cmd::Acquire
                    } else {
                        hold[p] = false;
                        if below(&mut r, 2) == 0 { Cmd::Drop } else { Cmd::GiveBackItem }
                    };
                    run.tx[p].send(c).unwrap();
                    ops_total += 1;
                }
                let _ = stop;
                let evs = run.stop();
                for e in evs {
                    trace.emit(e);
                }
            }
            summary.insert("rounds", json!(rounds));
            summary.insert("ops", json!(ops_total));
            summary.insert("resets", json!(resets_total));
            RESET_SLEEP_US.store(0, Ordering::Relaxed);
        }
        m => panic!("unknown mode {m}"),
    }
    let n = trace.finish();
    summary.insert("events", json!(n));
    println!("{}", serde_json::to_string(&summary).unwrap());
}
