//! Process-level guards for C05: counting global allocator, worker loop (child process),
//! worker pool (parent side) with abort / timeout detection.
use std::alloc::{GlobalAlloc, Layout, System};
use std::io::{BufRead, BufReader, Write};
use std::process::{Child, ChildStdin, Command, Stdio};
use std::sync::atomic::{AtomicBool, AtomicUsize, Ordering::SeqCst};
use std::sync::mpsc;
use std::time::Duration;

use vh_core::{Value, json};

// ------------------------------------------------------------------------------------------
// counting allocator: records the largest single request made while armed and refuses
// requests above the cap (the caller then gets a null pointer: `handle_alloc_error` aborts the
// process unless the code under test used a fallible allocation API).
// ------------------------------------------------------------------------------------------
pub struct Counting;

static ARMED: AtomicBool = AtomicBool::new(false);
static CAP: AtomicUsize = AtomicUsize::new(usize::MAX);
static PEAK: AtomicUsize = AtomicUsize::new(0);
static REPORT: AtomicBool = AtomicBool::new(false);

unsafe extern "C" {
    fn write(fd: i32, buf: *const u8, count: usize) -> isize;
}

/// `{"over":N}\n` on fd 1 without allocating (the worker never has a partial line pending)
fn report_over(size: usize) {
    let mut buf = [0u8; 40];
    let head = b"{\"over\":";
    buf[..head.len()].copy_from_slice(head);
    let mut n = head.len();
    let mut digits = [0u8; 20];
    let mut d = 0;
    let mut s = size;
    loop {
        digits[d] = b'0' + (s % 10) as u8;
        d += 1;
        s /= 10;
        if s == 0 {
            break;
        }
    }
    while d > 0 {
        d -= 1;
        buf[n] = digits[d];
        n += 1;
    }
    buf[n] = b'}';
    buf[n + 1] = b'\n';
    n += 2;
    unsafe {
        write(1, buf.as_ptr(), n);
    }
}

#[inline]
fn admit(size: usize) -> bool {
    if !ARMED.load(SeqCst) {
        return true;
    }
    if size > PEAK.load(SeqCst) {
        PEAK.store(size, SeqCst);
    }
    if size > CAP.load(SeqCst) {
        if REPORT.load(SeqCst) {
            report_over(size);
        }
        return false;
    }
    true
}

unsafe impl GlobalAlloc for Counting {
    unsafe fn alloc(&self, l: Layout) -> *mut u8 {
        if admit(l.size()) { unsafe { System.alloc(l) } } else { std::ptr::null_mut() }
    }
    unsafe fn alloc_zeroed(&self, l: Layout) -> *mut u8 {
        if admit(l.size()) { unsafe { System.alloc_zeroed(l) } } else { std::ptr::null_mut() }
    }
    unsafe fn realloc(&self, p: *mut u8, l: Layout, new_size: usize) -> *mut u8 {
        if admit(new_size) { unsafe { System.realloc(p, l, new_size) } } else { std::ptr::null_mut() }
    }
    unsafe fn dealloc(&self, p: *mut u8, l: Layout) {
        unsafe { System.dealloc(p, l) }
    }
}

pub fn alloc_cap(len: usize) -> usize {
    64usize.saturating_mul(len).saturating_add(1 << 20)
}

pub fn arm(len: usize, report: bool) {
    PEAK.store(0, SeqCst);
    CAP.store(alloc_cap(len), SeqCst);
    REPORT.store(report, SeqCst);
    ARMED.store(true, SeqCst);
}

pub fn disarm() -> usize {
    ARMED.store(false, SeqCst);
    PEAK.load(SeqCst)
}

// ------------------------------------------------------------------------------------------
// one guarded decode call (in the current process)
// ------------------------------------------------------------------------------------------
pub struct CallResult {
    pub outcome: &'static str, // ok | err | panic
    pub peak: usize,
    pub eq: Option<bool>,
    pub msg: String,
}

static LAST_PANIC_AT: std::sync::Mutex<String> = std::sync::Mutex::new(String::new());

pub fn install_panic_hook() {
    std::panic::set_hook(Box::new(|info| {
        let at = info
            .location()
            .map(|l| {
                let f = l.file();
                let f = f.rsplit('/').next().unwrap_or(f);
                format!("{f}:{}", l.line())
            })
            .unwrap_or_default();
        if let Ok(mut g) = LAST_PANIC_AT.lock() {
            *g = at;
        }
    }));
}

pub fn guarded_call(
    input: &[u8],
    report: bool,
    f: impl FnOnce(&[u8]) -> Result<Option<bool>, String>,
) -> CallResult {
    arm(input.len(), report);
    let r = vh_core::guarded(|| f(input));
    let peak = disarm();
    match r {
        vh_core::Guarded::Done(Ok(eq)) => CallResult { outcome: "ok", peak, eq, msg: String::new() },
        vh_core::Guarded::Done(Err(e)) => {
            let mut m = e;
            m.truncate(120);
            CallResult { outcome: "err", peak, eq: None, msg: m }
        }
        vh_core::Guarded::Panic(m) => {
            let at = LAST_PANIC_AT.lock().map(|g| g.clone()).unwrap_or_default();
            let mut m = format!("{m} @ {at}");
            m.truncate(160);
            CallResult { outcome: "panic", peak, eq: None, msg: m }
        }
    }
}

// ------------------------------------------------------------------------------------------
// worker side: requests on stdin, answers on stdout
//   request : {"e": entry index, "x": hex input, "h": honest index or -1}
//   answer  : {"o": outcome, "p": peak, "q": 0|1|2 (eq false / true / n.a.), "m": message}
// ------------------------------------------------------------------------------------------
pub fn worker_loop(mut exec: impl FnMut(usize, &[u8], i64) -> CallResult) {
    let stdin = std::io::stdin();
    let stdout = std::io::stdout();
    {
        let mut o = stdout.lock();
        writeln!(o, "{{\"ready\":true}}").unwrap();
        o.flush().unwrap();
    }
    for line in stdin.lock().lines() {
        let line = match line {
            Ok(l) => l,
            Err(_) => break,
        };
        if line.trim().is_empty() {
            continue;
        }
        let req: Value = serde_json::from_str(&line).expect("worker: bad request");
        let e = req["e"].as_u64().unwrap() as usize;
        let x = hex::decode(req["x"].as_str().unwrap()).expect("worker: bad hex");
        let h = req["h"].as_i64().unwrap_or(-1);
        let r = exec(e, &x, h);
        let q = match r.eq {
            Some(false) => 0,
            Some(true) => 1,
            None => 2,
        };
        let ans = json!({"o": r.outcome, "p": r.peak as u64, "q": q, "m": r.msg});
        let mut o = stdout.lock();
        writeln!(o, "{ans}").unwrap();
        o.flush().unwrap();
    }
}

// ------------------------------------------------------------------------------------------
// parent side
// ------------------------------------------------------------------------------------------
pub struct Worker {
    child: Child,
    stdin: ChildStdin,
    rx: mpsc::Receiver<String>,
    seed: u64,
    pub restarts: u64,
}

#[derive(Clone, Debug)]
pub struct Reply {
    pub outcome: String, // ok | err | panic | abort | timeout
    pub peak: u64,
    pub eq: Option<bool>,
    pub msg: String,
}

fn spawn(seed: u64) -> (Child, ChildStdin, mpsc::Receiver<String>) {
    let exe = std::env::current_exe().expect("current_exe");
    let mut child = Command::new(exe)
        .arg("--worker")
        .arg("--seed")
        .arg(seed.to_string())
        .env("RUST_BACKTRACE", "0")
        .stdin(Stdio::piped())
        .stdout(Stdio::piped())
        .stderr(Stdio::null())
        .spawn()
        .expect("spawn worker");
    let stdin = child.stdin.take().unwrap();
    let stdout = child.stdout.take().unwrap();
    let (tx, rx) = mpsc::channel();
    std::thread::spawn(move || {
        for l in BufReader::new(stdout).lines() {
            match l {
                Ok(l) => {
                    if tx.send(l).is_err() {
                        break;
                    }
                }
                Err(_) => break,
            }
        }
    });
    // wait until the worker has built its honest store
    match rx.recv_timeout(Duration::from_secs(300)) {
        Ok(l) if l.contains("ready") => {}
        other => panic!("worker did not start: {other:?}"),
    }
    (child, stdin, rx)
}

impl Worker {
    pub fn new(seed: u64) -> Worker {
        let (child, stdin, rx) = spawn(seed);
        Worker { child, stdin, rx, seed, restarts: 0 }
    }

    fn restart(&mut self) {
        let _ = self.child.kill();
        let _ = self.child.wait();
        let (child, stdin, rx) = spawn(self.seed);
        self.child = child;
        self.stdin = stdin;
        self.rx = rx;
        self.restarts += 1;
    }

    pub fn call(&mut self, entry: usize, input: &[u8], honest: i64, timeout: Duration) -> Reply {
        let req = json!({"e": entry, "x": hex::encode(input), "h": honest});
        let sent = writeln!(self.stdin, "{req}").and_then(|_| self.stdin.flush());
        let mut over: Option<u64> = None;
        if sent.is_ok() {
            loop {
                match self.rx.recv_timeout(timeout) {
                    Ok(l) => {
                        let v: Value = match serde_json::from_str(&l) {
                            Ok(v) => v,
                            Err(_) => continue,
                        };
                        if let Some(o) = v.get("over").and_then(|o| o.as_u64()) {
                            over = Some(over.map_or(o, |p: u64| p.max(o)));
                            continue;
                        }
                        let q = v["q"].as_u64().unwrap_or(2);
                        let mut peak = v["p"].as_u64().unwrap_or(0);
                        if let Some(o) = over {
                            peak = peak.max(o);
                        }
                        return Reply {
                            outcome: v["o"].as_str().unwrap_or("?").to_string(),
                            peak,
                            eq: match q {
                                0 => Some(false),
                                1 => Some(true),
                                _ => None,
                            },
                            msg: v["m"].as_str().unwrap_or("").to_string(),
                        };
                    }
                    Err(mpsc::RecvTimeoutError::Timeout) => {
                        self.restart();
                        return Reply { outcome: "timeout".into(), peak: over.unwrap_or(0), eq: None, msg: String::new() };
                    }
                    Err(mpsc::RecvTimeoutError::Disconnected) => break,
                }
            }
        }
        // the worker died while handling the request
        let status = self.child.wait().map(|s| format!("{s}")).unwrap_or_default();
        self.restart();
        Reply { outcome: "abort".into(), peak: over.unwrap_or(0), eq: None, msg: status }
    }
}

impl Drop for Worker {
    fn drop(&mut self) {
        let _ = self.child.kill();
        let _ = self.child.wait();
    }
}

/// Run `n` tasks on `jobs` workers; `make(i)` gives (entry, input, honest); results in task order.
pub fn run_pool<F>(n: usize, jobs: usize, seed: u64, timeout: Duration, make: F) -> (Vec<Reply>, u64)
where
    F: Fn(usize) -> (usize, Vec<u8>, i64) + Sync,
{
    let next = AtomicUsize::new(0);
    let results: std::sync::Mutex<Vec<Option<Reply>>> = std::sync::Mutex::new(vec![None; n]);
    let restarts = AtomicUsize::new(0);
    std::thread::scope(|s| {
        for _ in 0..jobs.max(1).min(n.max(1)) {
            s.spawn(|| {
                let mut w = Worker::new(seed);
                loop {
                    let i = next.fetch_add(1, SeqCst);
                    if i >= n {
                        break;
                    }
                    let (e, input, h) = make(i);
                    let r = w.call(e, &input, h, timeout);
                    results.lock().unwrap()[i] = Some(r);
                }
                restarts.fetch_add(w.restarts as usize, SeqCst);
            });
        }
    });
    let v = results.into_inner().unwrap().into_iter().map(|r| r.expect("task not run")).collect();
    (v, restarts.load(SeqCst) as u64)
}
