//! Every public decode entry point fed by C05, as a table shared by the parent and the workers.
use std::any::Any;

use mithril_common::crypto_helper::{
    MKProof, OpCert, ProtocolKey, ProtocolKeyCodec, ProtocolSingleSignature, TryFromBytes, TryToBytes,
    key_decode_hex,
};
use mithril_common::entities::{
    CardanoBlock, CardanoTransaction, CardanoTransactionsSetProof, Certificate, CertificateSignature, MkSetProof,
    SignedEntityType,
};
use mithril_common::messages::{
    CardanoBlocksProofsMessage, CardanoTransactionsProofsMessage, CardanoTransactionsProofsV2Message,
    CardanoTransactionsSetProofMessagePart, CertificateMessage, MkSetProofMessagePart, RegisterSignatureMessageDmq,
    RegisterSignatureMessageHttp, RegisterSignerMessage,
};
use mithril_stm::{
    Initializer, Parameters, SingleSignature, VerificationKeyForConcatenation,
    VerificationKeyProofOfPossessionForConcatenation,
};
use serde::Serialize;
use serde::de::DeserializeOwned;

use crate::honest::{Agg, Avk, BCommit, BPath, EdSignature, EdVerificationKey, MapProof, SigReg, Sum6KesSig, Tree};

/// what the entry takes
#[derive(Clone, Copy, PartialEq, Debug)]
pub enum Form {
    /// raw bytes of the type
    Raw,
    /// a `&str` argument (hex of bytes or hex of JSON)
    Str,
    /// a JSON document that is a single string literal
    JsonStr,
    /// the serde JSON form of the type itself
    JsonDoc,
    /// a JSON message document; the string field is set to the hex payload
    Msg(&'static str),
    /// binary envelope around the raw bytes
    Dmq,
}

pub type Honest<'a> = Option<&'a dyn Any>;
pub type DecFn = Box<dyn Fn(&[u8], Honest) -> Result<Option<bool>, String>>;

pub struct Entry {
    pub ty: &'static str,
    pub name: String,
    pub form: Form,
    /// honest binary encodings are accepted
    pub bin: bool,
    /// honest JSON(-hex) encodings are accepted
    pub json: bool,
    pub f: DecFn,
}

fn es<E: std::fmt::Display>(e: E) -> String {
    format!("{e:#}")
}

fn canon<T: Serialize>(v: &T) -> Vec<u8> {
    serde_json::to_vec(v).unwrap_or_else(|e| format!("<unserializable {e}>").into_bytes())
}

/// "decoding the encoding of an honest value returns an equal value": structural equality
fn judge<T: Serialize + 'static>(v: &T, h: Honest) -> Option<bool> {
    h.map(|h| {
        let hv = h.downcast_ref::<T>().expect("honest value of the entry's type");
        canon(v) == canon(hv)
    })
}

fn s(i: &[u8]) -> Result<&str, String> {
    std::str::from_utf8(i).map_err(|_| "harness: input is not utf-8".to_string())
}

fn push(v: &mut Vec<Entry>, ty: &'static str, name: String, form: Form, bin: bool, json: bool, f: DecFn) {
    v.push(Entry { ty, name, form, bin, json, f });
}

/// T: TryFromBytes (mithril-common binary codec) + serde
fn reg_bin<T>(v: &mut Vec<Entry>, ty: &'static str)
where
    T: Serialize + DeserializeOwned + TryFromBytes + TryToBytes + 'static,
{
    push(v, ty, format!("{ty}::try_from_bytes"), Form::Raw, true, false,
        Box::new(|i, h| T::try_from_bytes(i).map(|x| judge(&x, h)).map_err(es)));
    push(v, ty, format!("{ty}::try_from_bytes_hex"), Form::Str, true, false,
        Box::new(|i, h| T::try_from_bytes_hex(s(i)?).map(|x| judge(&x, h)).map_err(es)));
    push(v, ty, format!("ProtocolKey<{ty}>::from_bytes"), Form::Raw, true, false,
        Box::new(|i, h| ProtocolKey::<T>::from_bytes(i).map(|x| judge(&*x, h)).map_err(es)));
    push(v, ty, format!("ProtocolKey<{ty}>::from_bytes_hex"), Form::Str, true, false,
        Box::new(|i, h| ProtocolKey::<T>::from_bytes_hex(s(i)?).map(|x| judge(&*x, h)).map_err(es)));
    push(v, ty, format!("ProtocolKey<{ty}>::from_json_hex"), Form::Str, false, true,
        Box::new(|i, h| ProtocolKey::<T>::from_json_hex(s(i)?).map(|x| judge(&*x, h)).map_err(es)));
    push(v, ty, format!("key_decode_hex<{ty}>"), Form::Str, false, true,
        Box::new(|i, h| key_decode_hex::<T>(s(i)?).map(|x| judge(&x, h)).map_err(es)));
    push(v, ty, format!("{ty}::deserialize(json)"), Form::JsonDoc, false, true,
        Box::new(|i, h| serde_json::from_slice::<T>(i).map(|x| judge(&x, h)).map_err(es)));
}

/// additionally the ProtocolKey codec (TryFrom<&str>, TryFrom<String>, Deserialize)
fn reg_key<T>(v: &mut Vec<Entry>, ty: &'static str)
where
    T: Serialize + DeserializeOwned + TryFromBytes + TryToBytes + ProtocolKeyCodec<T> + 'static,
{
    reg_bin::<T>(v, ty);
    push(v, ty, format!("ProtocolKey<{ty}>::try_from(&str)"), Form::Str, true, true,
        Box::new(|i, h| ProtocolKey::<T>::try_from(s(i)?).map(|x| judge(&*x, h)).map_err(es)));
    push(v, ty, format!("ProtocolKey<{ty}>::try_from(String)"), Form::Str, true, true,
        Box::new(|i, h| ProtocolKey::<T>::try_from(s(i)?.to_string()).map(|x| judge(&*x, h)).map_err(es)));
    push(v, ty, format!("ProtocolKey<{ty}>::deserialize"), Form::JsonStr, true, true,
        Box::new(|i, h| serde_json::from_slice::<ProtocolKey<T>>(i).map(|x| judge(&*x, h)).map_err(es)));
}

macro_rules! reg_stm {
    ($v:expr, $ty:literal, $t:ty) => {
        push($v, $ty, format!("{}::from_bytes", $ty), Form::Raw, true, false,
            Box::new(|i, h| <$t>::from_bytes(i).map(|x| judge(&x, h)).map_err(es)));
    };
}

macro_rules! reg_stm_json {
    ($v:expr, $ty:literal, $t:ty) => {
        reg_stm!($v, $ty, $t);
        push($v, $ty, format!("{}::deserialize(json)", $ty), Form::JsonDoc, false, true,
            Box::new(|i, h| serde_json::from_slice::<$t>(i).map(|x| judge(&x, h)).map_err(es)));
    };
}

pub fn entries() -> Vec<Entry> {
    let mut v: Vec<Entry> = vec![];
    // ---- mithril-stm public from_bytes
    reg_stm!(&mut v, "AggregateSignature", Agg);
    push(&mut v, "SingleSignature", "SingleSignature::from_bytes".into(), Form::Raw, true, false,
        Box::new(|i, h| SingleSignature::from_bytes::<crate::honest::D>(i).map(|x| judge(&x, h)).map_err(es)));
    push(&mut v, "SingleSignatureWithRegisteredParty", "SingleSignatureWithRegisteredParty::from_bytes".into(),
        Form::Raw, true, false,
        Box::new(|i, h| SigReg::from_bytes::<crate::honest::D>(i).map(|x| judge(&x, h)).map_err(es)));
    reg_stm!(&mut v, "AggregateVerificationKeyForConcatenation", Avk);
    reg_stm!(&mut v, "Parameters", Parameters);
    reg_stm!(&mut v, "Initializer", Initializer);
    reg_stm!(&mut v, "VerificationKeyForConcatenation", VerificationKeyForConcatenation);
    reg_stm!(&mut v, "VerificationKeyProofOfPossessionForConcatenation", VerificationKeyProofOfPossessionForConcatenation);
    // membership commitment types (crate-private module, reached through mithril_stm::verif)
    reg_stm_json!(&mut v, "MerkleBatchPath", BPath);
    reg_stm_json!(&mut v, "MerkleTreeBatchCommitment", BCommit);
    reg_stm_json!(&mut v, "MerkleTree", Tree);
    // ---- mithril-common codecs
    reg_key::<Agg>(&mut v, "AggregateSignature");
    reg_key::<SingleSignature>(&mut v, "SingleSignature");
    reg_bin::<SigReg>(&mut v, "SingleSignatureWithRegisteredParty");
    reg_key::<Avk>(&mut v, "AggregateVerificationKeyForConcatenation");
    reg_bin::<Parameters>(&mut v, "Parameters");
    reg_bin::<Initializer>(&mut v, "Initializer");
    reg_bin::<VerificationKeyForConcatenation>(&mut v, "VerificationKeyForConcatenation");
    reg_key::<VerificationKeyProofOfPossessionForConcatenation>(&mut v, "VerificationKeyProofOfPossessionForConcatenation");
    reg_key::<MKProof>(&mut v, "MKProof");
    reg_bin::<MapProof>(&mut v, "MKMapProof");
    reg_key::<Sum6KesSig>(&mut v, "Sum6KesSig");
    reg_key::<OpCert>(&mut v, "OpCert");
    reg_key::<EdSignature>(&mut v, "Ed25519Signature");
    reg_key::<EdVerificationKey>(&mut v, "Ed25519VerificationKey");
    push(&mut v, "SignedEntityType", "SignedEntityType::try_from_bytes".into(), Form::Raw, true, false,
        Box::new(|i, h| SignedEntityType::try_from_bytes(i).map(|x| judge(&x, h)).map_err(es)));
    push(&mut v, "SignedEntityType", "SignedEntityType::try_from_bytes_hex".into(), Form::Str, true, false,
        Box::new(|i, h| SignedEntityType::try_from_bytes_hex(s(i)?).map(|x| judge(&x, h)).map_err(es)));
    push(&mut v, "MKProof", "MKProof::from_bytes".into(), Form::Raw, true, false,
        Box::new(|i, h| MKProof::from_bytes(i).map(|x| judge(&x, h)).map_err(es)));
    push(&mut v, "MKMapProof", "MKMapProof::from_bytes".into(), Form::Raw, true, false,
        Box::new(|i, h| MapProof::from_bytes(i).map(|x| judge(&x, h)).map_err(es)));

    // ---- messages
    push(&mut v, "AggregateSignature", "CertificateMessage->Certificate[multi_signature]".into(),
        Form::Msg("cert.multi_signature"), true, true,
        Box::new(|i, h| {
            let m: CertificateMessage = serde_json::from_slice(i).map_err(es)?;
            let c = Certificate::try_from(m).map_err(es)?;
            match &c.signature {
                CertificateSignature::MultiSignature(_, ms) => Ok(judge::<Agg>(ms, h)),
                _ => Ok(h.map(|_| false)),
            }
        }));
    push(&mut v, "AggregateVerificationKeyForConcatenation", "CertificateMessage->Certificate[aggregate_verification_key]".into(),
        Form::Msg("cert.aggregate_verification_key"), true, true,
        Box::new(|i, h| {
            let m: CertificateMessage = serde_json::from_slice(i).map_err(es)?;
            let c = Certificate::try_from(m).map_err(es)?;
            Ok(judge::<Avk>(&c.aggregate_verification_key, h))
        }));
    push(&mut v, "Ed25519Signature", "CertificateMessage->Certificate[genesis_signature]".into(),
        Form::Msg("cert.genesis_signature"), true, true,
        Box::new(|i, h| {
            let m: CertificateMessage = serde_json::from_slice(i).map_err(es)?;
            let c = Certificate::try_from(m).map_err(es)?;
            match &c.signature {
                CertificateSignature::GenesisSignature(g) => Ok(judge::<EdSignature>(g, h)),
                _ => Ok(h.map(|_| false)),
            }
        }));
    push(&mut v, "SingleSignature", "RegisterSignatureMessageHttp->signature".into(),
        Form::Msg("regsig.signature"), true, true,
        Box::new(|i, h| {
            let m: RegisterSignatureMessageHttp = serde_json::from_slice(i).map_err(es)?;
            let k: ProtocolSingleSignature = m.signature.try_into().map_err(es)?;
            Ok(judge::<SingleSignature>(&k, h))
        }));
    push(&mut v, "SingleSignature", "entities::SingleSignature::deserialize".into(),
        Form::Msg("entity_sig.signature"), true, true,
        Box::new(|i, h| {
            let m: mithril_common::entities::SingleSignature = serde_json::from_slice(i).map_err(es)?;
            Ok(judge::<SingleSignature>(&m.signature, h))
        }));
    push(&mut v, "SingleSignature", "RegisterSignatureMessageDmq::try_from_bytes_vec".into(), Form::Dmq, true, false,
        Box::new(|i, h| {
            let m = RegisterSignatureMessageDmq::try_from_bytes_vec(i).map_err(es)?;
            Ok(judge::<SingleSignature>(&m.signature, h))
        }));
    push(&mut v, "VerificationKeyProofOfPossessionForConcatenation", "RegisterSignerMessage->verification_key".into(),
        Form::Msg("regsigner.verification_key"), true, true,
        Box::new(|i, h| {
            let m: RegisterSignerMessage = serde_json::from_slice(i).map_err(es)?;
            let k: ProtocolKey<VerificationKeyProofOfPossessionForConcatenation> =
                m.verification_key_for_concatenation.try_into().map_err(es)?;
            Ok(judge::<VerificationKeyProofOfPossessionForConcatenation>(&k, h))
        }));
    push(&mut v, "Sum6KesSig", "RegisterSignerMessage->verification_key_signature".into(),
        Form::Msg("regsigner.verification_key_signature"), true, true,
        Box::new(|i, h| {
            let m: RegisterSignerMessage = serde_json::from_slice(i).map_err(es)?;
            let k: ProtocolKey<Sum6KesSig> = m
                .verification_key_signature_for_concatenation
                .ok_or("no signature".to_string())?
                .try_into()
                .map_err(es)?;
            Ok(judge::<Sum6KesSig>(&k, h))
        }));
    push(&mut v, "OpCert", "RegisterSignerMessage->operational_certificate".into(),
        Form::Msg("regsigner.operational_certificate"), true, true,
        Box::new(|i, h| {
            let m: RegisterSignerMessage = serde_json::from_slice(i).map_err(es)?;
            let k: ProtocolKey<OpCert> =
                m.operational_certificate.ok_or("no opcert".to_string())?.try_into().map_err(es)?;
            Ok(judge::<OpCert>(&k, h))
        }));
    // proof messages: the decoded entity is judged through its canonical re-encoding
    push(&mut v, "MKMapProof", "CardanoTransactionsProofsMessage->CardanoTransactionsSetProof".into(),
        Form::Msg("txproof.proof"), false, true,
        Box::new(|i, h| {
            let m: CardanoTransactionsProofsMessage = serde_json::from_slice(i).map_err(es)?;
            let mut eq = h.map(|_| true);
            for part in m.certified_transactions {
                let sp = CardanoTransactionsSetProof::try_from(part).map_err(es)?;
                let back = CardanoTransactionsSetProofMessagePart::try_from(sp).map_err(es)?;
                let p: MapProof = key_decode_hex(&back.proof).map_err(es)?;
                if let Some(j) = judge::<MapProof>(&p, h) {
                    eq = Some(eq.unwrap_or(true) && j);
                }
            }
            Ok(eq)
        }));
    push(&mut v, "MKMapProof", "CardanoTransactionsProofsV2Message->MkSetProof".into(),
        Form::Msg("txproof2.proof"), true, false,
        Box::new(|i, h| {
            let m: CardanoTransactionsProofsV2Message = serde_json::from_slice(i).map_err(es)?;
            let part = m.certified_transactions.ok_or("no certified transactions".to_string())?;
            let sp = MkSetProof::<CardanoTransaction>::try_from(part).map_err(es)?;
            let back: MkSetProofMessagePart<mithril_common::messages::CardanoTransactionMessagePart> =
                sp.try_into().map_err(es)?;
            let p = MapProof::try_from_bytes_hex(&back.proof).map_err(es)?;
            Ok(judge::<MapProof>(&p, h))
        }));
    push(&mut v, "MKMapProof", "CardanoBlocksProofsMessage->MkSetProof".into(),
        Form::Msg("blkproof.proof"), true, false,
        Box::new(|i, h| {
            let m: CardanoBlocksProofsMessage = serde_json::from_slice(i).map_err(es)?;
            let part = m.certified_blocks.ok_or("no certified blocks".to_string())?;
            let sp = MkSetProof::<CardanoBlock>::try_from(part).map_err(es)?;
            let back: MkSetProofMessagePart<mithril_common::messages::CardanoBlockMessagePart> =
                sp.try_into().map_err(es)?;
            let p = MapProof::try_from_bytes_hex(&back.proof).map_err(es)?;
            Ok(judge::<MapProof>(&p, h))
        }));
    v
}
