//! Parent side: payloads -> entry inputs -> worker pool -> `Decode` events.
use std::collections::BTreeMap;
use std::time::Duration;

use mithril_common::entities::{BlockNumber, CardanoTransactionsSetProof, Epoch, SignedEntityType};
use mithril_common::crypto_helper::TryToBytes;
use mithril_common::messages::{
    CardanoBlocksProofsMessage, CardanoTransactionsProofsMessage, CardanoTransactionsProofsV2Message,
    CertificateMessage, RegisterSignatureMessageHttp, RegisterSignerMessage,
};
use mithril_common::test::double::Dummy;
use vh_core::{Args, Trace, Value, json};

use crate::entries::{Entry, Form, entries};
use crate::guard::{self, Reply};
use crate::honest::{self, Store};
use crate::legacy::{self, Sizes};

#[path = "mutate.rs"]
mod mutate;

pub const CALL_TIMEOUT: Duration = Duration::from_secs(30);

// ------------------------------------------------------------------------------------------
// payloads and outer forms
// ------------------------------------------------------------------------------------------
#[derive(Clone, Debug)]
pub enum Payload {
    /// raw bytes of a binary encoding (cbor / legacy / bincode / fixed)
    Bin(Vec<u8>),
    /// JSON text of the type
    Json(Vec<u8>),
    /// an arbitrary string for the string-taking entries (e.g. corrupted hex)
    Text(String),
}

pub struct Docs {
    base: BTreeMap<&'static str, (Value, Vec<String>)>,
}

impl Docs {
    pub fn build() -> Docs {
        let mut base = BTreeMap::new();
        let p = |s: &[&str]| s.iter().map(|x| x.to_string()).collect::<Vec<_>>();
        let mut cert = serde_json::to_value(CertificateMessage::dummy()).unwrap();
        cert["genesis_signature"] = json!("");
        base.insert("cert.multi_signature", (cert.clone(), p(&["multi_signature"])));
        base.insert("cert.genesis_signature", (cert.clone(), p(&["genesis_signature"])));
        base.insert("cert.aggregate_verification_key", (cert, p(&["aggregate_verification_key"])));
        let rs = serde_json::to_value(RegisterSignatureMessageHttp::dummy()).unwrap();
        base.insert("regsig.signature", (rs, p(&["signature"])));
        base.insert(
            "entity_sig.signature",
            (json!({"party_id": "party", "signature": "", "indexes": [1, 3]}), p(&["signature"])),
        );
        let rg = serde_json::to_value(RegisterSignerMessage::dummy()).unwrap();
        base.insert("regsigner.verification_key", (rg.clone(), p(&["verification_key"])));
        base.insert("regsigner.verification_key_signature", (rg.clone(), p(&["verification_key_signature"])));
        base.insert("regsigner.operational_certificate", (rg, p(&["operational_certificate"])));
        let tp = CardanoTransactionsProofsMessage::new(
            "cert-hash",
            vec![CardanoTransactionsSetProof::dummy().try_into().unwrap()],
            vec![],
            BlockNumber(99),
        );
        base.insert(
            "txproof.proof",
            (serde_json::to_value(tp).unwrap(), p(&["certified_transactions", "0", "proof"])),
        );
        base.insert(
            "txproof2.proof",
            (
                serde_json::to_value(CardanoTransactionsProofsV2Message::dummy()).unwrap(),
                p(&["certified_transactions", "proof"]),
            ),
        );
        base.insert(
            "blkproof.proof",
            (serde_json::to_value(CardanoBlocksProofsMessage::dummy()).unwrap(), p(&["certified_blocks", "proof"])),
        );
        Docs { base }
    }

    pub fn with(&self, kind: &str, s: &str) -> String {
        let (doc, path) = &self.base[kind];
        let mut d = doc.clone();
        {
            let mut cur = &mut d;
            for seg in path {
                cur = match seg.parse::<usize>() {
                    Ok(i) if cur.is_array() => &mut cur[i],
                    _ => &mut cur[seg.as_str()],
                };
            }
            *cur = json!(s);
        }
        serde_json::to_string(&d).unwrap()
    }
}

fn dmq_envelope(sig_bytes: &[u8]) -> Vec<u8> {
    let set = SignedEntityType::MithrilStakeDistribution(Epoch(5)).to_bytes_vec().unwrap();
    let mut b = vec![];
    b.extend_from_slice(&(set.len() as u16).to_be_bytes());
    b.extend_from_slice(&set);
    b.extend_from_slice(&(sig_bytes.len() as u32).to_be_bytes());
    b.extend_from_slice(sig_bytes);
    b
}

pub fn wrap(docs: &Docs, e: &Entry, p: &Payload) -> Option<Vec<u8>> {
    let as_str = |p: &Payload| -> Option<String> {
        match p {
            Payload::Bin(b) => Some(hex::encode(b)),
            Payload::Json(t) => Some(hex::encode(t)),
            Payload::Text(s) => Some(s.clone()),
        }
    };
    match (e.form, p) {
        (Form::Raw, Payload::Bin(b)) => Some(b.clone()),
        (Form::Raw, _) => None,
        (Form::Dmq, Payload::Bin(b)) => Some(dmq_envelope(b)),
        (Form::Dmq, _) => None,
        (Form::Str, p) => as_str(p).map(|s| s.into_bytes()),
        (Form::JsonStr, p) => as_str(p).map(|s| serde_json::to_vec(&json!(s)).unwrap()),
        (Form::JsonDoc, Payload::Json(t)) => Some(t.clone()),
        (Form::JsonDoc, _) => None,
        (Form::Msg(k), p) => as_str(p).map(|s| docs.with(k, &s).into_bytes()),
    }
}

fn form_name(f: Form) -> String {
    match f {
        Form::Raw => "raw".into(),
        Form::Str => "str".into(),
        Form::JsonStr => "jsonstr".into(),
        Form::JsonDoc => "json".into(),
        Form::Dmq => "dmq".into(),
        Form::Msg(k) => format!("msg:{k}"),
    }
}

// ------------------------------------------------------------------------------------------
// tasks and events
// ------------------------------------------------------------------------------------------
pub struct Task {
    pub entry: usize,
    pub input: Vec<u8>,
    /// index of the honest value the input is an unmodified encoding of, or -1
    pub honest: i64,
    /// static part of the event
    pub ev: Value,
}

pub struct Ctx {
    pub store: Store,
    pub es: Vec<Entry>,
    pub docs: Docs,
    pub sizes: (u64, u64),
}

impl Ctx {
    pub fn new(seed: u64) -> Ctx {
        Ctx {
            store: honest::build(seed),
            es: entries(),
            docs: Docs::build(),
            sizes: (
                std::mem::size_of::<honest::SigReg>() as u64,
                std::mem::size_of::<Vec<u8>>() as u64,
            ),
        }
    }

    /// tasks for one payload of type `ty` through every compatible entry point
    #[allow(clippy::too_many_arguments)]
    pub fn tasks_for(
        &self,
        out: &mut Vec<Task>,
        case: u64,
        src: &str,
        ty: &str,
        p: &Payload,
        codec: &str,
        honest: Option<usize>,
        label: &Value,
        only_raw: bool,
    ) {
        for (ei, e) in self.es.iter().enumerate() {
            if e.ty != ty {
                continue;
            }
            if only_raw && e.form != Form::Raw {
                continue;
            }
            let Some(input) = wrap(&self.docs, e, p) else { continue };
            let is_honest = honest.is_some()
                && match codec {
                    "json" => e.json,
                    _ => e.bin,
                };
            let (bad, cls) = match p {
                Payload::Bin(b) => {
                    let sz = Sizes { sigreg: self.sizes.0, node: self.sizes.1, cap: guard::alloc_cap(input.len()) as u64 };
                    match legacy::walk(ty, b, &sz) {
                        Some(x) => (x.field, x.cls),
                        None => ("none", "fits"),
                    }
                }
                _ => ("none", "fits"),
            };
            let mut ev = json!({
                "ev": "Decode", "case": case, "src": src, "ty": ty, "entry": e.name, "form": form_name(e.form),
                "codec": codec, "len": input.len() as u64, "honest": is_honest, "bad": bad, "cls": cls,
            });
            for (k, v) in label.as_object().unwrap() {
                ev[k] = v.clone();
            }
            // the model's prediction is about the bytes codec: an entry that only parses JSON
            // never reaches it
            if matches!(p, Payload::Bin(_)) && !e.bin && ev.get("pred").is_some() {
                ev["pred"] = json!("err");
            }
            out.push(Task { entry: ei, input, honest: if is_honest { honest.unwrap() as i64 } else { -1 }, ev });
        }
    }
}

pub fn clamp(x: u64) -> u64 {
    x.min(2_000_000_000)
}

pub fn finish_event(mut ev: Value, r: &Reply) -> Value {
    ev["outcome"] = json!(r.outcome);
    ev["peak"] = json!(clamp(r.peak));
    ev["roundtrip"] = json!(r.eq == Some(true));
    ev["msg"] = json!(r.msg);
    ev
}

pub fn execute(tasks: &[Task], jobs: usize, seed: u64) -> (Vec<Reply>, u64) {
    guard::run_pool(tasks.len(), jobs, seed, CALL_TIMEOUT, |i| {
        (tasks[i].entry, tasks[i].input.clone(), tasks[i].honest)
    })
}

/// `chunk` > 0: at most that many events per file (`path`, `path.1`, `path.2`, ...; `seq` restarts)
pub fn write_trace(path: &str, tasks: Vec<Task>, replies: &[Reply], restarts: u64, extra: Value, chunk: u64) {
    let mut files = vec![path.to_string()];
    let mut total = 0u64;
    let mut t = Trace::create(path);
    let mut by_outcome: BTreeMap<String, u64> = BTreeMap::new();
    let mut by_entry: BTreeMap<String, u64> = BTreeMap::new();
    let mut by_mut: BTreeMap<String, u64> = BTreeMap::new();
    let mut honest = 0u64;
    let mut honest_rt = 0u64;
    let mut max_ratio = 0f64;
    for (task, r) in tasks.into_iter().zip(replies) {
        let ev = finish_event(task.ev, r);
        *by_outcome.entry(r.outcome.clone()).or_default() += 1;
        *by_entry.entry(ev["entry"].as_str().unwrap().to_string()).or_default() += 1;
        if let Some(m) = ev.get("mut").and_then(|m| m.as_str()) {
            *by_mut.entry(m.split(':').next().unwrap().to_string()).or_default() += 1;
        }
        if ev["honest"] == json!(true) {
            honest += 1;
            if r.eq == Some(true) {
                honest_rt += 1;
            }
        }
        let ratio = r.peak as f64 / (64.0 * ev["len"].as_u64().unwrap() as f64 + 1048576.0);
        if ratio > max_ratio {
            max_ratio = ratio;
        }
        if chunk > 0 && t.len() >= chunk {
            total += t.finish();
            let p = format!("{path}.{}", files.len());
            t = Trace::create(&p);
            files.push(p);
        }
        t.emit(ev);
    }
    total += t.finish();
    let n = total;
    let mut s = json!({
        "events": n, "files": files, "outcomes": by_outcome, "entries": by_entry.len(), "per_entry_min": by_entry.values().min(),
        "honest": honest, "honest_roundtrip": honest_rt, "worker_restarts": restarts,
        "max_peak_over_bound": (max_ratio * 1000.0).round() / 1000.0,
    });
    if !by_mut.is_empty() {
        s["mutations"] = json!(by_mut);
    }
    for (k, v) in extra.as_object().unwrap() {
        s[k] = v.clone();
    }
    println!("{s}");
}

// ------------------------------------------------------------------------------------------
// modes
// ------------------------------------------------------------------------------------------
pub fn list(seed: u64) {
    let c = Ctx::new(seed);
    for (i, e) in c.es.iter().enumerate() {
        println!("entry {i:3} {:50} {:12} {}", e.ty, form_name(e.form), e.name);
    }
    for (i, m) in c.store.meta.iter().enumerate() {
        let encs: Vec<String> = m.encs.iter().map(|e| format!("{}:{}", e.codec, e.bytes.len())).collect();
        println!("honest {i:3} {:50} {:24} {}", m.ty, m.name, encs.join(" "));
        if let Some(l) = m.encs.iter().find_map(|e| e.lay.as_ref()) {
            if m.name.starts_with("base:") {
                println!("        fields {:?}", l.fields);
            }
        }
    }
    println!("size_of SigReg = {}, Vec<u8> = {}", c.sizes.0, c.sizes.1);
}

/// `--mode probe --entry <name> (--hex <bytes> | --text <string> | --nest <depth> [--as-hex]) [--inproc]`
pub fn probe(args: &Args, seed: u64) {
    let es = entries();
    let name = args.req("entry");
    let ei = es.iter().position(|e| e.name == name).unwrap_or_else(|| panic!("no entry {name}"));
    let input = if let Some(d) = args.get("nest") {
        // a Merkle map proof nested d times (bincode bytes, or their hex with --as-hex)
        let b = mutate::nested_map_proof(&Ctx::new(seed), d.parse().unwrap()).unwrap();
        if args.flag("as-hex") { hex::encode(b).into_bytes() } else { b }
    } else {
        match args.get("hex") {
            Some(h) => hex::decode(h).expect("hex"),
            None => args.req("text").into_bytes(),
        }
    };
    if args.flag("inproc") {
        // no guards at all: the process itself shows what happens
        let r = (es[ei].f)(&input, None);
        println!("in-process result: {:?}", r.map(|_| "ok"));
        return;
    }
    let mut w = guard::Worker::new(seed);
    let r = w.call(ei, &input, -1, CALL_TIMEOUT);
    println!(
        "{}",
        json!({"entry": name, "len": input.len(), "outcome": r.outcome, "peak": r.peak, "msg": r.msg,
               "bound": guard::alloc_cap(input.len())})
    );
}

pub fn honest_mode(args: &Args, seed: u64) {
    let c = Ctx::new(seed);
    let mut tasks = vec![];
    let mut case = 0;
    for (hi, m) in c.store.meta.iter().enumerate() {
        for enc in &m.encs {
            case += 1;
            let p = if enc.codec == "json" { Payload::Json(enc.bytes.clone()) } else { Payload::Bin(enc.bytes.clone()) };
            let label = json!({"mut": "none", "pred": "ok", "name": m.name});
            c.tasks_for(&mut tasks, case, "honest", m.ty, &p, enc.codec, Some(hi), &label, false);
        }
    }
    let (replies, restarts) = execute(&tasks, args.num("jobs", 8) as usize, seed);
    write_trace(&args.req("out"), tasks, &replies, restarts, json!({"honest_values": c.store.meta.len()}), args.num("chunk", 0));
}

pub fn cases_mode(args: &Args, seed: u64) {
    let c = Ctx::new(seed);
    let cases = vh_core::read_ndjson(args.req("cases"));
    let forms_every = args.num("forms-every", 1).max(1);
    let mut tasks = vec![];
    let mut mism_off = 0;
    for (ci, case) in cases.iter().enumerate() {
        let ty = case["ty"].as_str().unwrap();
        let base = case["base"].as_str().unwrap();
        let hi = c.store.find(&format!("base:{base}")).unwrap_or_else(|| panic!("no honest base {base}"));
        let m = &c.store.meta[hi];
        let enc = m.encs.iter().find(|e| e.codec == "legacy").expect("legacy encoding of the base");
        let lay = enc.lay.as_ref().unwrap();
        assert_eq!(
            lay.b.len() as u64,
            case["hlen"].as_u64().unwrap(),
            "model and harness disagree on the honest length of {base}"
        );
        let mut b = lay.b.clone();
        let muts = case["muts"].as_array().unwrap();
        for mu in muts {
            let f = mu["f"].as_str().unwrap();
            let off = lay.offset_of(f).unwrap_or_else(|| panic!("no field {f} in {base}"));
            if off as u64 != mu["off"].as_u64().unwrap() {
                mism_off += 1;
            }
            let val = class_value(mu["cls"].as_str().unwrap(), u64::from_be_bytes(b[off..off + 8].try_into().unwrap()));
            b[off..off + 8].copy_from_slice(&val.to_be_bytes());
        }
        let cut = case["cut"].as_i64().unwrap();
        if cut >= 0 {
            if (cut as usize) <= b.len() {
                b.truncate(cut as usize);
            } else {
                b.resize(cut as usize, 0xAB);
            }
        }
        let is_honest = muts.is_empty() && cut < 0;
        let mutl: Vec<String> =
            muts.iter().map(|m| format!("{}={}", m["f"].as_str().unwrap(), m["cls"].as_str().unwrap())).collect();
        let label = json!({
            "mut": if is_honest { "none".to_string() } else { format!("gen:{}{}", mutl.join(","), if cut >= 0 { format!("@{cut}") } else { String::new() }) },
            "pred": case["pred"], "pbad": case["bad"], "pcls": case["cls"], "name": base,
        });
        let only_raw = (ci as u64) % forms_every != 0 && !is_honest;
        let id = case["id"].as_u64().unwrap();
        c.tasks_for(&mut tasks, id, "gen", m.ty, &Payload::Bin(b.clone()), "legacy", is_honest.then_some(hi), &label, only_raw);
        // the same legacy bytes nested in the current CBOR format: an aggregate signature envelope
        // around a concatenation proof envelope whose byte strings go to the same versioned decoders
        if (ty == "sigreg" || ty == "bpath") && !only_raw {
            let cbor_of = |name: &str| {
                let i = c.store.find(name).unwrap();
                c.store.meta[i].encs.iter().find(|e| e.codec == "cbor").unwrap().bytes.clone()
            };
            let wrapped = if ty == "sigreg" {
                legacy::wrap_in_cbor_aggregate(&[b], &cbor_of("base:bpath.p12"))
            } else {
                legacy::wrap_in_cbor_aggregate(&[cbor_of("base:sigreg.r2")], &b)
            };
            let mut l2 = label.clone();
            l2["env"] = json!("cbor_envelope");
            let k1 = c.store.find("base:agg.k1").unwrap();
            c.tasks_for(&mut tasks, id, "gen", "AggregateSignature", &Payload::Bin(wrapped), "cbor+legacy", is_honest.then_some(k1), &l2, false);
        }
    }
    assert_eq!(mism_off, 0, "model and harness disagree on field offsets");
    let (replies, restarts) = execute(&tasks, args.num("jobs", 8) as usize, seed);
    write_trace(&args.req("out"), tasks, &replies, restarts, json!({"cases": cases.len()}), args.num("chunk", 0));
}

/// real value of an abstract length class (spec/wire/Wire.tla); `exact` is the honest value
pub fn class_value(cls: &str, exact: u64) -> u64 {
    match cls {
        "exact" => exact,
        "minus1" => exact.wrapping_sub(1),
        "plus1" => exact + 1,
        "zero" => 0,
        "big" => 1 << 40,
        "hi1" => 1 << 56,
        c if c.starts_with("maxu-") => u64::MAX - c[5..].parse::<u64>().expect("maxu-j"),
        c => panic!("unknown class {c}"),
    }
}

pub fn mutate_mode(args: &Args, seed: u64) {
    let c = Ctx::new(seed);
    let tasks = mutate::generate(&c, args, seed);
    let (replies, restarts) = execute(&tasks, args.num("jobs", 8) as usize, seed);
    write_trace(&args.req("out"), tasks, &replies, restarts, json!({}), args.num("chunk", 0));
}
