//! Legacy fixed layouts of mithril-stm (the current tree only *decodes* them): an encoder with a
//! field map (used to realise TLC class vectors and for structure-aware length inflation) and an
//! independent walker that classifies the length fields of real (mutated) bytes.
use vh_core::Value;

#[derive(Clone, Debug, Default)]
pub struct Lay {
    pub b: Vec<u8>,
    /// (name, offset) of every u64 length / count field, in decoder order
    pub fields: Vec<(String, usize)>,
}

impl Lay {
    fn f(&mut self, name: String, v: u64) {
        self.fields.push((name, self.b.len()));
        self.b.extend_from_slice(&v.to_be_bytes());
    }
    fn raw(&mut self, bytes: &[u8]) {
        self.b.extend_from_slice(bytes);
    }
    pub fn offset_of(&self, name: &str) -> Option<usize> {
        self.fields.iter().find(|(n, _)| n == name).map(|(_, o)| *o)
    }
}

pub fn bytes_of(v: &Value) -> Vec<u8> {
    v.as_array().expect("byte array").iter().map(|b| b.as_u64().expect("byte") as u8).collect()
}

fn sig_len(sig: &Value) -> u64 {
    8 + 8 * sig["indexes"].as_array().unwrap().len() as u64 + 48 + 8
}

fn lay_sig(l: &mut Lay, pfx: &str, sig: &Value) {
    let idx = sig["indexes"].as_array().unwrap();
    l.f(format!("{pfx}nidx"), idx.len() as u64);
    for i in idx {
        l.raw(&i.as_u64().unwrap().to_be_bytes());
    }
    let sigma = bytes_of(&sig["sigma"]);
    assert_eq!(sigma.len(), 48);
    l.raw(&sigma);
    l.raw(&sig["signer_index"].as_u64().unwrap().to_be_bytes());
}

fn lay_reg(l: &mut Lay, reg: &Value) {
    let vk = bytes_of(&reg[0]);
    assert_eq!(vk.len(), 96);
    l.raw(&vk);
    l.raw(&reg[1].as_u64().unwrap().to_be_bytes());
}

fn lay_sigreg(l: &mut Lay, pfx: &str, e: &Value) {
    l.f(format!("{pfx}size_reg"), 104);
    lay_reg(l, &e[1]);
    l.f(format!("{pfx}size_sig"), sig_len(&e[0]));
    lay_sig(l, pfx, &e[0]);
}

fn lay_bpath(l: &mut Lay, bp: &Value) {
    let values = bp["values"].as_array().unwrap();
    let indices = bp["indices"].as_array().unwrap();
    l.f("lenv".into(), values.len() as u64);
    l.f("leni".into(), indices.len() as u64);
    for v in values {
        l.raw(&bytes_of(v));
    }
    for i in indices {
        l.raw(&i.as_u64().unwrap().to_be_bytes());
    }
}

/// JSON form of the honest value -> legacy bytes. `ty` as in the entry table.
pub fn encode(ty: &str, v: &Value) -> Option<Lay> {
    let mut l = Lay::default();
    match ty {
        "AggregateSignature" => {
            l.raw(&[0]);
            let sigs = v["signatures"].as_array()?;
            l.f("nsigs".into(), sigs.len() as u64);
            for (k, e) in sigs.iter().enumerate() {
                let pfx = format!("s{}.", k + 1);
                l.f(format!("{pfx}size"), 8 + 104 + 8 + sig_len(&e[0]));
                lay_sigreg(&mut l, &pfx, e);
            }
            lay_bpath(&mut l, &v["batch_proof"]);
        }
        "SingleSignatureWithRegisteredParty" => lay_sigreg(&mut l, "", v),
        "SingleSignature" => lay_sig(&mut l, "", v),
        "MerkleBatchPath" => lay_bpath(&mut l, v),
        "MerkleTreeBatchCommitment" => {
            l.f("nr_leaves".into(), v["nr_leaves"].as_u64()?);
            l.raw(&bytes_of(&v["root"]));
        }
        "AggregateVerificationKeyForConcatenation" => {
            l.f("nr_leaves".into(), v["mt_commitment"]["nr_leaves"].as_u64()?);
            l.raw(&bytes_of(&v["mt_commitment"]["root"]));
            l.raw(&v["total_stake"].as_u64()?.to_be_bytes());
        }
        "MerkleTree" => {
            l.f("n".into(), v["n"].as_u64()?);
            for node in v["nodes"].as_array()? {
                l.raw(&bytes_of(node));
            }
        }
        "Parameters" => {
            l.raw(&v["m"].as_u64()?.to_be_bytes());
            l.raw(&v["k"].as_u64()?.to_be_bytes());
            l.raw(&v["phi_f"].as_f64()?.to_be_bytes());
        }
        _ => return None,
    }
    Some(l)
}

// ------------------------------------------------------------------------------------------
// walker: first length / count field (in decoder order) whose value the decoder cannot honour
// ------------------------------------------------------------------------------------------
#[derive(Clone, Debug, PartialEq)]
pub struct Bad {
    pub field: &'static str,
    pub cls: &'static str, // huge (arithmetic / capacity overflow) | alloc (pre-allocation above the cap) | big (exceeds the remaining input)
}

pub struct Sizes {
    /// size_of::<SingleSignatureWithRegisteredParty>()
    pub sigreg: u64,
    /// size_of::<Vec<u8>>()
    pub node: u64,
    /// allocator cap of this call
    pub cap: u64,
}

fn u64_at(b: &[u8], o: usize) -> Option<u64> {
    b.get(o..o.checked_add(8)?).map(|s| u64::from_be_bytes(s.try_into().unwrap()))
}

fn bad(field: &'static str, cls: &'static str) -> Option<Bad> {
    Some(Bad { field, cls })
}

fn count_class(n: u64, elem: u64, sz: &Sizes) -> &'static str {
    match n.checked_mul(elem) {
        None => "huge",
        Some(bytes) if bytes > isize::MAX as u64 => "huge",
        Some(bytes) if bytes > sz.cap => "alloc",
        _ => "fits",
    }
}

pub fn walk_sig(b: &[u8]) -> Option<Bad> {
    if b.first() == Some(&1) {
        return None;
    }
    let n = u64_at(b, 0)?;
    // 8 + n * 8 + 56 must fit
    match n.checked_mul(8).and_then(|x| x.checked_add(8)) {
        Some(end) if end <= b.len() as u64 => None,
        _ => bad("sig.nr_indexes", "big"),
    }
}

pub fn walk_sigreg(b: &[u8]) -> Option<Bad> {
    if b.first() == Some(&1) {
        return None;
    }
    let sr = u64_at(b, 0)?;
    let e1 = match 8u64.checked_add(sr) {
        None => return bad("sigreg.size_reg_party", "huge"),
        Some(e) => e,
    };
    if e1 > b.len() as u64 {
        return bad("sigreg.size_reg_party", "big");
    }
    let so = e1 as usize;
    let ss = u64_at(b, so)?;
    let e2 = match (so as u64 + 8).checked_add(ss) {
        None => return bad("sigreg.size_sig", "huge"),
        Some(e) => e,
    };
    if e2 > b.len() as u64 {
        return bad("sigreg.size_sig", "big");
    }
    walk_sig(&b[so + 8..e2 as usize])
}

pub fn walk_bpath(b: &[u8]) -> Option<Bad> {
    if b.first() == Some(&1) {
        return None;
    }
    let lv = u64_at(b, 0)?;
    let li = u64_at(b, 8)?;
    let off = match lv.checked_mul(32).and_then(|x| x.checked_add(16)) {
        Some(o) if o <= b.len() as u64 => o,
        _ => return bad("bpath.len_v", "big"),
    };
    match li.checked_mul(8).and_then(|x| x.checked_add(off)) {
        Some(e) if e <= b.len() as u64 => None,
        _ => bad("bpath.len_i", "big"),
    }
}

pub fn walk_concat(b: &[u8], sz: &Sizes) -> Option<Bad> {
    if b.first() == Some(&1) {
        return None;
    }
    let total = u64_at(b, 0)?;
    match count_class(total, sz.sigreg, sz) {
        "fits" => {}
        c => return bad("agg.total_sigs", c),
    }
    let mut bi: usize = 8;
    for _ in 0..total {
        let s = u64_at(b, bi)?;
        let end = match (bi as u64 + 8).checked_add(s) {
            None => return bad("agg.sig_reg_size", "huge"),
            Some(e) => e,
        };
        if end > b.len() as u64 {
            return bad("agg.sig_reg_size", "big");
        }
        if let Some(x) = walk_sigreg(&b[bi + 8..end as usize]) {
            return Some(x);
        }
        bi = end as usize;
    }
    walk_bpath(b.get(bi..)?)
}

pub fn walk_tree(b: &[u8], sz: &Sizes) -> Option<Bad> {
    if b.first() == Some(&1) {
        return None;
    }
    let n = u64_at(b, 0)?;
    let npt = match n.checked_next_power_of_two() {
        None => return bad("tree.n", "huge"),
        Some(p) => p,
    };
    let num = match n.checked_add(npt) {
        None => return bad("tree.n", "huge"),
        Some(x) => x - 1,
    };
    match count_class(num, sz.node, sz) {
        "fits" => {}
        c => return bad("tree.n", c),
    }
    match num.checked_mul(32).and_then(|x| x.checked_add(8)) {
        Some(e) if e <= b.len() as u64 => None,
        _ => bad("tree.n", "big"),
    }
}

/// classify raw bytes destined for a decoder of type `ty`
pub fn walk(ty: &str, b: &[u8], sz: &Sizes) -> Option<Bad> {
    match ty {
        "AggregateSignature" => match b.first() {
            Some(0) => walk_concat(&b[1..], sz),
            _ => None,
        },
        "SingleSignatureWithRegisteredParty" => walk_sigreg(b),
        "SingleSignature" => walk_sig(b),
        "MerkleBatchPath" => walk_bpath(b),
        "MerkleTree" => walk_tree(b, sz),
        _ => None,
    }
}
