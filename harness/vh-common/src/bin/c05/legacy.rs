//! Legacy fixed layouts of mithril-stm (the current tree only *decodes* them): an encoder with a
//! field map (used to realise TLC class vectors and for structure-aware length inflation) and an
//! independent walker that classifies the length fields of real (mutated) bytes.
use vh_core::Value;

#[derive(Clone, Debug, Default)]
pub struct Lay {
    pub b: Vec<u8>,
    /// (name, offset) of every u64 length / count field, in decoder order
    pub fields: Vec<(String, usize)>,
}

impl Lay {
    fn f(&mut self, name: String, v: u64) {
        self.fields.push((name, self.b.len()));
        self.b.extend_from_slice(&v.to_be_bytes());
    }
    fn raw(&mut self, bytes: &[u8]) {
        self.b.extend_from_slice(bytes);
    }
    pub fn offset_of(&self, name: &str) -> Option<usize> {
        self.fields.iter().find(|(n, _)| n == name).map(|(_, o)| *o)
    }
}

pub fn bytes_of(v: &Value) -> Vec<u8> {
    v.as_array().expect("byte array").iter().map(|b| b.as_u64().expect("byte") as u8).collect()
}

fn sig_len(sig: &Value) -> u64 {
    8 + 8 * sig["indexes"].as_array().unwrap().len() as u64 + 48 + 8
}

fn lay_sig(l: &mut Lay, pfx: &str, sig: &Value) {
    let idx = sig["indexes"].as_array().unwrap();
    l.f(format!("{pfx}nidx"), idx.len() as u64);
    for i in idx {
        l.raw(&i.as_u64().unwrap().to_be_bytes());
    }
    let sigma = bytes_of(&sig["sigma"]);
    assert_eq!(sigma.len(), 48);
    l.raw(&sigma);
    l.raw(&sig["signer_index"].as_u64().unwrap().to_be_bytes());
}

fn lay_reg(l: &mut Lay, reg: &Value) {
    let vk = bytes_of(&reg[0]);
    assert_eq!(vk.len(), 96);
    l.raw(&vk);
    l.raw(&reg[1].as_u64().unwrap().to_be_bytes());
}

fn lay_sigreg(l: &mut Lay, pfx: &str, e: &Value) {
    l.f(format!("{pfx}size_reg"), 104);
    lay_reg(l, &e[1]);
    l.f(format!("{pfx}size_sig"), sig_len(&e[0]));
    lay_sig(l, pfx, &e[0]);
}

fn lay_bpath(l: &mut Lay, bp: &Value) {
    let values = bp["values"].as_array().unwrap();
    let indices = bp["indices"].as_array().unwrap();
    l.f("lenv".into(), values.len() as u64);
    l.f("leni".into(), indices.len() as u64);
    for v in values {
        l.raw(&bytes_of(v));
    }
    for i in indices {
        l.raw(&i.as_u64().unwrap().to_be_bytes());
    }
}

/// JSON form of the honest value -> legacy bytes. `ty` as in the entry table.
pub fn encode(ty: &str, v: &Value) -> Option<Lay> {
    let mut l = Lay::default();
    match ty {
        "AggregateSignature" => {
            l.raw(&[0]);
            let sigs = v["signatures"].as_array()?;
            l.f("nsigs".into(), sigs.len() as u64);
            for (k, e) in sigs.iter().enumerate() {
                let pfx = format!("s{}.", k + 1);
                l.f(format!("{pfx}size"), 8 + 104 + 8 + sig_len(&e[0]));
                lay_sigreg(&mut l, &pfx, e);
            }
            lay_bpath(&mut l, &v["batch_proof"]);
        }
        "SingleSignatureWithRegisteredParty" => lay_sigreg(&mut l, "", v),
        "SingleSignature" => lay_sig(&mut l, "", v),
        "MerkleBatchPath" => lay_bpath(&mut l, v),
        "MerkleTreeBatchCommitment" => {
            l.f("nr_leaves".into(), v["nr_leaves"].as_u64()?);
            l.raw(&bytes_of(&v["root"]));
        }
        "AggregateVerificationKeyForConcatenation" => {
            l.f("nr_leaves".into(), v["mt_commitment"]["nr_leaves"].as_u64()?);
            l.raw(&bytes_of(&v["mt_commitment"]["root"]));
            l.raw(&v["total_stake"].as_u64()?.to_be_bytes());
        }
        "MerkleTree" => {
            l.f("n".into(), v["n"].as_u64()?);
            for node in v["nodes"].as_array()? {
                l.raw(&bytes_of(node));
            }
        }
        "Parameters" => {
            l.raw(&v["m"].as_u64()?.to_be_bytes());
            l.raw(&v["k"].as_u64()?.to_be_bytes());
            l.raw(&v["phi_f"].as_f64()?.to_be_bytes());
        }
        _ => return None,
    }
    Some(l)
}

// ------------------------------------------------------------------------------------------
// walker: first length / count field (in decoder order) whose value the decoder cannot honour
// ------------------------------------------------------------------------------------------
#[derive(Clone, Debug, PartialEq)]
pub struct Bad {
    pub field: &'static str,
    pub cls: &'static str, // huge (arithmetic / capacity overflow) | alloc (pre-allocation above the cap) | big (exceeds the remaining input)
}

pub struct Sizes {
    /// size_of::<SingleSignatureWithRegisteredParty>()
    pub sigreg: u64,
    /// size_of::<Vec<u8>>()
    pub node: u64,
    /// allocator cap of this call
    pub cap: u64,
}

fn u64_at(b: &[u8], o: usize) -> Option<u64> {
    b.get(o..o.checked_add(8)?).map(|s| u64::from_be_bytes(s.try_into().unwrap()))
}

fn bad(field: &'static str, cls: &'static str) -> Option<Bad> {
    Some(Bad { field, cls })
}

fn count_class(n: u64, elem: u64, sz: &Sizes) -> &'static str {
    match n.checked_mul(elem) {
        None => "huge",
        Some(bytes) if bytes > isize::MAX as u64 => "huge",
        Some(bytes) if bytes > sz.cap => "alloc",
        _ => "fits",
    }
}

pub fn walk_sig(b: &[u8]) -> Option<Bad> {
    if b.first() == Some(&1) {
        return None;
    }
    let n = u64_at(b, 0)?;
    // 8 + n * 8 + 56 must fit
    match n.checked_mul(8).and_then(|x| x.checked_add(8)) {
        Some(end) if end <= b.len() as u64 => None,
        _ => bad("sig.nr_indexes", "big"),
    }
}

pub fn walk_sigreg(b: &[u8]) -> Option<Bad> {
    if b.first() == Some(&1) {
        return None;
    }
    let sr = u64_at(b, 0)?;
    let e1 = match 8u64.checked_add(sr) {
        None => return bad("sigreg.size_reg_party", "huge"),
        Some(e) => e,
    };
    if e1 > b.len() as u64 {
        return bad("sigreg.size_reg_party", "big");
    }
    let so = e1 as usize;
    let ss = u64_at(b, so)?;
    let e2 = match (so as u64 + 8).checked_add(ss) {
        None => return bad("sigreg.size_sig", "huge"),
        Some(e) => e,
    };
    if e2 > b.len() as u64 {
        return bad("sigreg.size_sig", "big");
    }
    walk_sig(&b[so + 8..e2 as usize])
}

pub fn walk_bpath(b: &[u8]) -> Option<Bad> {
    if b.first() == Some(&1) {
        return None;
    }
    let lv = u64_at(b, 0)?;
    let li = u64_at(b, 8)?;
    let off = match lv.checked_mul(32).and_then(|x| x.checked_add(16)) {
        Some(o) if o <= b.len() as u64 => o,
        _ => return bad("bpath.len_v", "big"),
    };
    match li.checked_mul(8).and_then(|x| x.checked_add(off)) {
        Some(e) if e <= b.len() as u64 => None,
        _ => bad("bpath.len_i", "big"),
    }
}

pub fn walk_concat(b: &[u8], sz: &Sizes) -> Option<Bad> {
    if b.first() == Some(&1) {
        return None;
    }
    let total = u64_at(b, 0)?;
    match count_class(total, sz.sigreg, sz) {
        "fits" => {}
        c => return bad("agg.total_sigs", c),
    }
    let mut bi: usize = 8;
    for _ in 0..total {
        let s = u64_at(b, bi)?;
        let end = match (bi as u64 + 8).checked_add(s) {
            None => return bad("agg.sig_reg_size", "huge"),
            Some(e) => e,
        };
        if end > b.len() as u64 {
            return bad("agg.sig_reg_size", "big");
        }
        if let Some(x) = walk_sigreg(&b[bi + 8..end as usize]) {
            return Some(x);
        }
        bi = end as usize;
    }
    walk_bpath(b.get(bi..)?)
}

pub fn walk_tree(b: &[u8], sz: &Sizes) -> Option<Bad> {
    if b.first() == Some(&1) {
        return None;
    }
    let n = u64_at(b, 0)?;
    let npt = match n.checked_next_power_of_two() {
        None => return bad("tree.n", "huge"),
        Some(p) => p,
    };
    let num = match n.checked_add(npt) {
        None => return bad("tree.n", "huge"),
        Some(x) => x - 1,
    };
    match count_class(num, sz.node, sz) {
        "fits" => {}
        c => return bad("tree.n", c),
    }
    match num.checked_mul(32).and_then(|x| x.checked_add(8)) {
        Some(e) if e <= b.len() as u64 => None,
        _ => bad("tree.n", "big"),
    }
}

/// classify raw bytes destined for a decoder of type `ty`
pub fn walk(ty: &str, b: &[u8], sz: &Sizes) -> Option<Bad> {
    match ty {
        "AggregateSignature" => walk_agg_any(b, sz),
        "SingleSignatureWithRegisteredParty" => walk_sigreg_any(b),
        "SingleSignature" => walk_sig(b),
        "MerkleBatchPath" => walk_bpath(b),
        "MerkleTree" => walk_tree(b, sz),
        "MKMapProof" => (mkmap_depth(b) >= DEEP).then_some(Bad { field: "mkmap.sub_proofs_depth", cls: "deep" }),
        _ => None,
    }
}

// ------------------------------------------------------------------------------------------
// bincode (standard config) walker for MKMapProof<BlockRange>: nesting depth of `sub_proofs`
// (iterative; stops at the first thing it cannot parse)
// ------------------------------------------------------------------------------------------
fn varint(b: &[u8], pos: &mut usize) -> Option<u64> {
    let t = *b.get(*pos)?;
    *pos += 1;
    let take = |pos: &mut usize, n: usize| -> Option<u64> {
        let s = b.get(*pos..*pos + n)?;
        *pos += n;
        let mut x = [0u8; 8];
        x[..n].copy_from_slice(s);
        Some(u64::from_le_bytes(x))
    };
    match t {
        0..=250 => Some(t as u64),
        251 => take(pos, 2),
        252 => take(pos, 4),
        253 => take(pos, 8),
        _ => None,
    }
}

fn skip_node(b: &[u8], pos: &mut usize) -> Option<()> {
    let n = varint(b, pos)? as usize;
    if n > b.len().saturating_sub(*pos) {
        return None;
    }
    *pos += n;
    Some(())
}

fn skip_mkproof(b: &[u8], pos: &mut usize) -> Option<()> {
    skip_node(b, pos)?; // inner_root
    let leaves = varint(b, pos)?;
    for _ in 0..leaves {
        varint(b, pos)?;
        skip_node(b, pos)?;
    }
    varint(b, pos)?; // inner_proof_size
    let items = varint(b, pos)?;
    for _ in 0..items {
        skip_node(b, pos)?;
    }
    Some(())
}

pub fn mkmap_depth(b: &[u8]) -> usize {
    let mut pos = 0usize;
    let mut stack: Vec<u64> = vec![];
    let mut max_depth = 0usize;
    let open = |pos: &mut usize, stack: &mut Vec<u64>| -> Option<()> {
        skip_mkproof(b, pos)?;
        let n = varint(b, pos)?;
        stack.push(n);
        Some(())
    };
    if open(&mut pos, &mut stack).is_none() {
        return 0;
    }
    while let Some(top) = stack.last_mut() {
        if *top == 0 {
            stack.pop();
            continue;
        }
        *top -= 1;
        // key: BlockRange = two varints
        if varint(b, &mut pos).is_none() || varint(b, &mut pos).is_none() {
            break;
        }
        if open(&mut pos, &mut stack).is_none() {
            break;
        }
        max_depth = max_depth.max(stack.len() - 1);
    }
    max_depth
}

/// depth from which the recursive bincode decoder is considered unable to honour the nesting
pub const DEEP: usize = 4096;

// ------------------------------------------------------------------------------------------
// The CBOR envelopes of mithril-stm carry nested byte strings (serialised as arrays of small
// integers) that are handed to the same versioned decoders, so a legacy layout can sit inside
// the current format. Minimal writer (to realise such inputs) and reader (so that the walker
// classifies what is really inside).
// ------------------------------------------------------------------------------------------
pub mod cbor {
    fn head(out: &mut Vec<u8>, major: u8, n: u64) {
        let m = major << 5;
        if n < 24 {
            out.push(m | n as u8);
        } else if n < 256 {
            out.push(m | 24);
            out.push(n as u8);
        } else if n < 65536 {
            out.push(m | 25);
            out.extend_from_slice(&(n as u16).to_be_bytes());
        } else if n < (1 << 32) {
            out.push(m | 26);
            out.extend_from_slice(&(n as u32).to_be_bytes());
        } else {
            out.push(m | 27);
            out.extend_from_slice(&n.to_be_bytes());
        }
    }
    pub fn text(out: &mut Vec<u8>, s: &str) {
        head(out, 3, s.len() as u64);
        out.extend_from_slice(s.as_bytes());
    }
    pub fn uint(out: &mut Vec<u8>, n: u64) {
        head(out, 0, n);
    }
    /// `Vec<u8>` as serde / ciborium writes it: an array of unsigned integers
    pub fn byte_array(out: &mut Vec<u8>, b: &[u8]) {
        head(out, 4, b.len() as u64);
        for x in b {
            uint(out, *x as u64);
        }
    }
    pub fn array(out: &mut Vec<u8>, n: u64) {
        head(out, 4, n);
    }
    pub fn map(out: &mut Vec<u8>, n: u64) {
        head(out, 5, n);
    }

    pub struct Rd<'a> {
        pub b: &'a [u8],
        pub p: usize,
    }
    impl Rd<'_> {
        pub fn head(&mut self) -> Option<(u8, u64)> {
            let t = *self.b.get(self.p)?;
            self.p += 1;
            let (major, a) = (t >> 5, t & 0x1f);
            let n = match a {
                0..=23 => a as u64,
                24..=27 => {
                    let k = 1usize << (a - 24);
                    let s = self.b.get(self.p..self.p + k)?;
                    self.p += k;
                    s.iter().fold(0u64, |acc, x| (acc << 8) | *x as u64)
                }
                _ => return None,
            };
            Some((major, n))
        }
        pub fn text(&mut self) -> Option<String> {
            let (m, n) = self.head()?;
            if m != 3 {
                return None;
            }
            let s = self.b.get(self.p..self.p.checked_add(n as usize)?)?;
            self.p += n as usize;
            String::from_utf8(s.to_vec()).ok()
        }
        pub fn byte_array(&mut self) -> Option<Vec<u8>> {
            let (m, n) = self.head()?;
            if m != 4 || n as usize > self.b.len() {
                return None;
            }
            let mut v = Vec::with_capacity(n as usize);
            for _ in 0..n {
                let (m, x) = self.head()?;
                if m != 0 || x > 255 {
                    return None;
                }
                v.push(x as u8);
            }
            Some(v)
        }
    }
}

/// aggregate CBOR envelope around a concatenation CBOR envelope around the given parts
pub fn wrap_in_cbor_aggregate(sig_regs: &[Vec<u8>], batch_path: &[u8]) -> Vec<u8> {
    let mut inner = vec![1u8];
    cbor::map(&mut inner, 2);
    cbor::text(&mut inner, "signature_bytes");
    cbor::array(&mut inner, sig_regs.len() as u64);
    for s in sig_regs {
        cbor::byte_array(&mut inner, s);
    }
    cbor::text(&mut inner, "batch_proof_bytes");
    cbor::byte_array(&mut inner, batch_path);
    let mut out = vec![1u8];
    cbor::map(&mut out, 2);
    cbor::text(&mut out, "signature_type");
    cbor::uint(&mut out, 0);
    cbor::text(&mut out, "proof_bytes");
    cbor::byte_array(&mut out, &inner);
    out
}

fn walk_sigreg_any(b: &[u8]) -> Option<Bad> {
    if b.first() != Some(&1) {
        return walk_sigreg(b);
    }
    // {signature_bytes, registration_entry_bytes}
    let mut r = cbor::Rd { b, p: 1 };
    let (m, n) = r.head()?;
    if m != 5 {
        return None;
    }
    for _ in 0..n {
        let k = r.text()?;
        let v = r.byte_array()?;
        if k == "signature_bytes" {
            if let Some(x) = walk_sig(&v) {
                return Some(x);
            }
        }
    }
    None
}

fn walk_concat_any(b: &[u8], sz: &Sizes) -> Option<Bad> {
    if b.first() != Some(&1) {
        return walk_concat(b, sz);
    }
    let mut r = cbor::Rd { b, p: 1 };
    let (m, n) = r.head()?;
    if m != 5 {
        return None;
    }
    let mut path: Option<Vec<u8>> = None;
    for _ in 0..n {
        match r.text()?.as_str() {
            "signature_bytes" => {
                let (m, k) = r.head()?;
                if m != 4 {
                    return None;
                }
                for _ in 0..k {
                    let s = r.byte_array()?;
                    if let Some(x) = walk_sigreg_any(&s) {
                        return Some(x);
                    }
                }
            }
            "batch_proof_bytes" => path = Some(r.byte_array()?),
            _ => return None,
        }
    }
    walk_bpath(&path?)
}

/// AggregateSignature bytes in either format
pub fn walk_agg_any(b: &[u8], sz: &Sizes) -> Option<Bad> {
    match b.first() {
        Some(0) => walk_concat_any(&b[1..], sz),
        Some(1) => {
            let mut r = cbor::Rd { b, p: 1 };
            let (m, n) = r.head()?;
            if m != 5 {
                return None;
            }
            let mut ty = None;
            let mut proof = None;
            for _ in 0..n {
                match r.text()?.as_str() {
                    "signature_type" => ty = Some(r.head()?.1),
                    "proof_bytes" => proof = Some(r.byte_array()?),
                    _ => return None,
                }
            }
            if ty? != 0 {
                return None;
            }
            walk_concat_any(&proof?, sz)
        }
        _ => None,
    }
}
