//! Honest values of every wire type (deterministic from the seed; the parent and every worker
//! build the same store) with their encodings.
use std::any::Any;

use mithril_common::crypto_helper::{
    MKMap, MKMapNode, MKMapProof, MKProof, MKTree, MKTreeStoreInMemory, OpCert, ProtocolKey, TryToBytes,
};
use mithril_common::entities::{BlockRange, Epoch, SignedEntityType};
use mithril_common::test::double::fake_keys;
use mithril_stm::verif as sv;
use mithril_stm::{
    AggregateSignature, AggregateVerificationKeyForConcatenation, Initializer, MembershipDigest, Parameters,
    SingleSignature, SingleSignatureWithRegisteredParty, VerificationKeyForConcatenation,
    VerificationKeyProofOfPossessionForConcatenation,
};
use serde::Serialize;
pub use vh_common::stmkit::D;
use vh_common::stmkit::World;
use vh_core::{Value, json};

use crate::legacy::{self, Lay};

pub type H = <D as MembershipDigest>::ConcatenationHash;
pub type Leaf = sv::MerkleTreeConcatenationLeaf;
pub type BPath = sv::MerkleBatchPath<H>;
pub type BCommit = sv::MerkleTreeBatchCommitment<H, Leaf>;
pub type Tree = sv::MerkleTree<H, Leaf>;
pub type Avk = AggregateVerificationKeyForConcatenation<D>;
pub type Agg = AggregateSignature<D>;
pub type SigReg = SingleSignatureWithRegisteredParty;
pub type MapProof = MKMapProof<BlockRange>;

/// names the key type wrapped by a `ProtocolKey` alias (kes-summed-ed25519 is not a direct dependency)
pub trait Inner {
    type T;
}
impl<T: Serialize + serde::de::DeserializeOwned> Inner for ProtocolKey<T> {
    type T = T;
}
pub type EdSignature = <mithril_common::crypto_helper::ed25519::Ed25519Signature as Inner>::T;
pub type EdVerificationKey = <mithril_common::crypto_helper::ed25519::Ed25519VerificationKey as Inner>::T;
pub type Sum6KesSig =
    <mithril_common::crypto_helper::ProtocolSignerVerificationKeySignatureForConcatenation as Inner>::T;

/// one encoding of an honest value
#[derive(Clone)]
pub struct Enc {
    /// cbor | legacy | bincode | fixed | json
    pub codec: &'static str,
    pub bytes: Vec<u8>,
    /// field map (legacy encodings only)
    pub lay: Option<Lay>,
}

#[derive(Clone)]
pub struct Meta {
    pub ty: &'static str,
    pub name: String,
    pub encs: Vec<Enc>,
    pub json: Value,
}

pub struct Store {
    pub vals: Vec<Box<dyn Any>>,
    pub meta: Vec<Meta>,
}

impl Store {
    fn add<T: Serialize + 'static>(&mut self, ty: &'static str, name: String, v: T, bin: Option<(&'static str, Vec<u8>)>) -> usize {
        let json = serde_json::to_value(&v).expect("honest value to json");
        let mut encs = vec![];
        if let Some((codec, bytes)) = bin {
            encs.push(Enc { codec, bytes, lay: None });
        }
        if let Some(l) = legacy::encode(ty, &json) {
            encs.push(Enc { codec: "legacy", bytes: l.b.clone(), lay: Some(l) });
        }
        encs.push(Enc { codec: "json", bytes: serde_json::to_vec(&v).unwrap(), lay: None });
        self.vals.push(Box::new(v));
        self.meta.push(Meta { ty, name, encs, json });
        self.vals.len() - 1
    }

    pub fn find(&self, name: &str) -> Option<usize> {
        self.meta.iter().position(|m| m.name == name)
    }
}

fn craft_sig(sig: &Value, idx: &[u64]) -> Value {
    let mut s = sig.clone();
    s["indexes"] = json!(idx);
    s
}

pub fn build(seed: u64) -> Store {
    let mut st = Store { vals: vec![], meta: vec![] };
    let mut rng = vh_core::rng(seed, 505);
    // (stakes, m, k, phi_f): the last two worlds need several signers to reach the quorum
    let worlds: Vec<(Vec<u64>, u64, u64, f64)> = vec![
        (vec![1, 1], 4, 3, 1.0),
        (vec![3, 5, 2], 8, 5, 1.0),
        (vec![10, 1, 1, 7], 12, 9, 1.0),
        (vec![5, 5, 5, 5], 40, 12, 0.5),
        (vec![9, 3, 4, 8, 6], 60, 20, 0.6),
    ];
    let mut first_agg_json: Option<Value> = None;
    for (wi, (stakes, m, k, phi_f)) in worlds.iter().enumerate() {
        let params = Parameters { m: *m, k: *k, phi_f: *phi_f };
        let w = World::new(params, stakes, &mut rng);
        // first message (deterministic order) on which the honest signers reach the quorum
        let (sigs, agg) = (0..200u32)
            .find_map(|t| {
                let msg = format!("c05 honest message {wi}/{t}").into_bytes();
                let sigs: Vec<SingleSignature> =
                    w.signers.iter().filter_map(|s| s.create_single_signature(&msg).ok()).collect();
                w.aggregate(&sigs, &msg).ok().map(|a| (sigs, a))
            })
            .expect("honest aggregate");
        let aj = serde_json::to_value(&agg).unwrap();
        if first_agg_json.is_none() {
            first_agg_json = Some(aj.clone());
        }
        for (i, e) in aj["signatures"].as_array().unwrap().iter().enumerate() {
            let sr: SigReg = serde_json::from_value(e.clone()).expect("sigreg from json");
            let b = sr.to_bytes().unwrap();
            st.add("SingleSignatureWithRegisteredParty", format!("w{wi}.sigreg{i}"), sr, Some(("cbor", b)));
        }
        let bp: BPath = serde_json::from_value(aj["batch_proof"].clone()).expect("batch path from json");
        let b = bp.to_bytes().unwrap();
        st.add("MerkleBatchPath", format!("w{wi}.bpath"), bp, Some(("cbor", b)));
        let b = agg.to_bytes().unwrap();
        st.add("AggregateSignature", format!("w{wi}.agg"), agg, Some(("cbor", b)));
        for (i, s) in sigs.into_iter().enumerate() {
            let b = s.to_bytes().unwrap();
            st.add("SingleSignature", format!("w{wi}.sig{i}"), s, Some(("cbor", b)));
        }
        let avk: Avk = w.avk.to_concatenation_aggregate_verification_key().clone();
        let b = avk.to_bytes().unwrap();
        st.add("AggregateVerificationKeyForConcatenation", format!("w{wi}.avk"), avk, Some(("cbor", b)));
        let leaves: Vec<Leaf> = w.parties.iter().map(|(vk, s)| sv::MerkleTreeConcatenationLeaf(*vk, *s)).collect();
        let tree: Tree = sv::merkle_tree_new::<H, Leaf>(&leaves);
        let commit: BCommit = sv::merkle_tree_batch_commitment(&tree);
        let b = commit.to_bytes().unwrap();
        st.add("MerkleTreeBatchCommitment", format!("w{wi}.bcommit"), commit, Some(("cbor", b)));
        let b = tree.to_bytes().unwrap();
        st.add("MerkleTree", format!("w{wi}.tree"), tree, Some(("cbor", b)));
        let b = params.to_bytes().unwrap();
        st.add("Parameters", format!("w{wi}.params"), params, Some(("cbor", b)));
        let vk: VerificationKeyForConcatenation = w.parties[0].0;
        st.add("VerificationKeyForConcatenation", format!("w{wi}.vk"), vk, Some(("fixed", vk.to_bytes().to_vec())));
        let vkpop: VerificationKeyProofOfPossessionForConcatenation =
            w.initializers[0].get_verification_key_proof_of_possession_for_concatenation();
        st.add(
            "VerificationKeyProofOfPossessionForConcatenation",
            format!("w{wi}.vkpop"),
            vkpop,
            Some(("fixed", vkpop.to_bytes().to_vec())),
        );
        let init: Initializer = w.initializers[0].clone();
        let b = init.to_bytes().unwrap();
        st.add("Initializer", format!("w{wi}.initializer"), init, Some(("cbor", b)));
    }

    // crafted values with the exact structure of the base layouts of spec/wire/Wire.tla
    let aj = first_agg_json.unwrap();
    let es = aj["signatures"].as_array().unwrap();
    let e1 = &es[0];
    let e2 = &es[es.len() - 1];
    let v32: Vec<u8> = (0..32u8).map(|i| i.wrapping_mul(7).wrapping_add(3)).collect();
    let path12 = json!({"values": [v32], "indices": [0, 1], "hasher": null});
    let path00 = json!({"values": [], "indices": [], "hasher": null});
    let mk = |sigs: Vec<Value>, path: &Value| json!({"signatures": sigs, "batch_proof": path});
    let sr1 = json!([craft_sig(&e1[0], &[1, 4]), e1[1]]);
    let sr2a = json!([craft_sig(&e1[0], &[2]), e1[1]]);
    let sr2b = json!([craft_sig(&e2[0], &[0, 3]), e2[1]]);
    for (name, j) in [
        ("base:agg.k0", mk(vec![], &path00)),
        ("base:agg.k1", mk(vec![sr1.clone()], &path12)),
        ("base:agg.k2", mk(vec![sr2a, sr2b], &path12)),
    ] {
        let a: Agg = serde_json::from_value(j).expect("crafted aggregate");
        let b = a.to_bytes().unwrap();
        st.add("AggregateSignature", name.to_string(), a, Some(("cbor", b)));
    }
    let sr: SigReg = serde_json::from_value(sr1.clone()).unwrap();
    let b = sr.to_bytes().unwrap();
    st.add("SingleSignatureWithRegisteredParty", "base:sigreg.r2".into(), sr, Some(("cbor", b)));
    let s: SingleSignature = serde_json::from_value(sr1[0].clone()).unwrap();
    let b = s.to_bytes().unwrap();
    st.add("SingleSignature", "base:sig.s2".into(), s, Some(("cbor", b)));
    let bp: BPath = serde_json::from_value(path12.clone()).unwrap();
    let b = bp.to_bytes().unwrap();
    st.add("MerkleBatchPath", "base:bpath.p12".into(), bp, Some(("cbor", b)));
    {
        // tree with 2 leaves (3 nodes) and its commitment / aggregate key
        let i = st.find("w0.tree").unwrap();
        let t = st.vals[i].downcast_ref::<Tree>().unwrap().clone();
        let b = t.to_bytes().unwrap();
        st.add("MerkleTree", "base:tree.t2".into(), t, Some(("cbor", b)));
        let i = st.find("w0.bcommit").unwrap();
        let c = st.vals[i].downcast_ref::<BCommit>().unwrap().clone();
        let b = c.to_bytes().unwrap();
        st.add("MerkleTreeBatchCommitment", "base:bcommit.c".into(), c, Some(("cbor", b)));
        let i = st.find("w0.avk").unwrap();
        let a = st.vals[i].downcast_ref::<Avk>().unwrap().clone();
        let b = a.to_bytes().unwrap();
        st.add("AggregateVerificationKeyForConcatenation", "base:avk.a".into(), a, Some(("cbor", b)));
    }

    // Merkle proofs (internal/mithril-merkle-tree, bincode)
    for (pi, n) in [1usize, 3, 8].iter().enumerate() {
        let leaves: Vec<String> = (0..*n).map(|i| format!("c05-leaf-{pi}-{i}")).collect();
        let tree = MKTree::<MKTreeStoreInMemory>::new(&leaves).expect("mktree");
        let sel: Vec<mithril_common::crypto_helper::MKTreeNode> =
            leaves.iter().step_by(2).map(|l| l.to_owned().into()).collect();
        let p: MKProof = tree.compute_proof(&sel).expect("mkproof");
        let b = p.to_bytes().unwrap();
        st.add("MKProof", format!("mkproof{pi}"), p, Some(("bincode", b)));
    }
    for (pi, ranges) in [1u64, 3].iter().enumerate() {
        let entries: Vec<(BlockRange, MKMapNode<BlockRange, MKTreeStoreInMemory>)> = (0..*ranges)
            .map(|r| {
                let leaves: Vec<String> = (0..4).map(|i| format!("c05-tx-{pi}-{r}-{i}")).collect();
                (
                    BlockRange::from_block_number(mithril_common::entities::BlockNumber(r * 15)),
                    MKTree::<MKTreeStoreInMemory>::new(&leaves).unwrap().into(),
                )
            })
            .collect();
        let map: MKMap<BlockRange, MKMapNode<BlockRange, MKTreeStoreInMemory>, MKTreeStoreInMemory> =
            MKMap::new(&entries).expect("mkmap");
        let sel = vec![format!("c05-tx-{pi}-0-1"), format!("c05-tx-{pi}-{}-2", ranges - 1)];
        let p: MapProof = map.compute_proof(&sel).expect("mkmap proof");
        let b = p.to_bytes().unwrap();
        st.add("MKMapProof", format!("mkmapproof{pi}"), p, Some(("bincode", b)));
    }

    // other key material decoded from peers
    for (i, set) in [
        SignedEntityType::MithrilStakeDistribution(Epoch(5)),
        SignedEntityType::CardanoTransactions(Epoch(7), mithril_common::entities::BlockNumber(4500)),
    ]
    .into_iter()
    .enumerate()
    {
        let b = set.to_bytes_vec().unwrap();
        st.add("SignedEntityType", format!("set{i}"), set, Some(("bincode", b)));
    }
    {
        let k: ProtocolKey<Sum6KesSig> =
            ProtocolKey::from_json_hex(fake_keys::signer_verification_key_signature()[0]).expect("kes sig");
        let k = k.into_inner();
        let b = k.to_bytes_vec().unwrap();
        st.add("Sum6KesSig", "kessig0".into(), k, Some(("fixed", b)));
        let k: ProtocolKey<OpCert> = ProtocolKey::from_json_hex(fake_keys::operational_certificate()[0]).expect("opcert");
        let k = k.into_inner();
        let b = k.to_bytes_vec().unwrap();
        st.add("OpCert", "opcert0".into(), k, Some(("cbor", b)));
    }
    {
        use mithril_common::crypto_helper::ed25519::Ed25519Signer;
        let signer = Ed25519Signer::create_deterministic_signer();
        let sig: EdSignature = signer.sign(b"c05 genesis message").into_inner();
        let b = sig.to_bytes_vec().unwrap();
        st.add("Ed25519Signature", "edsig0".into(), sig, Some(("fixed", b)));
        let vk: EdVerificationKey = signer.verification_key().into_inner();
        let b = vk.to_bytes_vec().unwrap();
        st.add("Ed25519VerificationKey", "edvk0".into(), vk, Some(("fixed", b)));
    }
    st
}
