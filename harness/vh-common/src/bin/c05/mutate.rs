//! Seeded structure-aware mutation driver (stub)
use vh_core::Args;

use super::{Ctx, Task};

pub fn generate(_c: &Ctx, _args: &Args, _seed: u64) -> Vec<Task> {
    vec![]
}
