//! Seeded structure-aware mutation driver over the honest encodings of every wire type:
//! bit flips, byte sets, truncation, extension, length inflation (legacy field map, CBOR
//! headers, bincode varints, raw u64 windows), splices, over-long / short serde sequences
//! (CBOR and JSON), JSON type / range / nesting changes, hex-level corruption, message
//! document mutations, deeply nested Merkle map proofs.
use mithril_common::crypto_helper::{MKProof, TryToBytes};
use vh_core::{Args, ChaCha20Rng, RngCore, Value, below, json};

use super::{Ctx, Payload, Task};
use crate::honest::{MapProof, Meta};

const HUGE: [u64; 14] = [
    1 << 16,
    (1 << 32) - 1,
    1 << 32,
    1 << 40,
    1 << 48,
    1 << 56,
    (1 << 56) + 1,
    1 << 62,
    (1 << 63) - 1,
    1 << 63,
    (1 << 63) + 1,
    u64::MAX - 16,
    u64::MAX - 8,
    u64::MAX,
];

fn pick_huge(r: &mut ChaCha20Rng, len: usize) -> u64 {
    match below(r, 6) {
        0 => len as u64 + below(r, 3),
        1 => u64::MAX - below(r, 40),
        2 => (len as u64).wrapping_mul(1 + below(r, 8)),
        _ => HUGE[below(r, HUGE.len() as u64) as usize],
    }
}

fn bin_mutation(r: &mut ChaCha20Rng, cls: &str, enc: &crate::honest::Enc, pool: &[Vec<u8>]) -> Option<Vec<u8>> {
    let mut b = enc.bytes.clone();
    let n = b.len();
    if n == 0 {
        return None;
    }
    match cls {
        "bitflip" => {
            for _ in 0..1 + below(r, 3) {
                let p = below(r, n as u64) as usize;
                b[p] ^= 1 << below(r, 8);
            }
        }
        "byteset" => {
            let p = below(r, n as u64) as usize;
            b[p] = [0u8, 1, 0xff, 0x7f, 0x80, 0x9b, 0xfd][below(r, 7) as usize];
        }
        "truncate" => b.truncate(below(r, n as u64) as usize),
        "extend" => {
            for _ in 0..1 + below(r, 16) {
                b.push(r.next_u32() as u8);
            }
        }
        "inflate_field" => {
            // structure-aware: a real length / count field of the legacy layout
            let lay = enc.lay.as_ref()?;
            if lay.fields.is_empty() {
                return None;
            }
            for _ in 0..1 + below(r, 2) {
                let (_, off) = &lay.fields[below(r, lay.fields.len() as u64) as usize];
                let v = pick_huge(r, n);
                b[*off..*off + 8].copy_from_slice(&v.to_be_bytes());
            }
        }
        "inflate_u64" => {
            if n < 8 {
                return None;
            }
            let p = below(r, (n - 7) as u64) as usize;
            let v = pick_huge(r, n);
            let w = if below(r, 2) == 0 { v.to_be_bytes() } else { v.to_le_bytes() };
            b[p..p + 8].copy_from_slice(&w);
        }
        "inflate_cbor" => {
            // a CBOR array / bytes / text / map header gets an 8-byte (or 4-byte) huge length
            let heads: Vec<usize> = (0..n)
                .filter(|&i| {
                    let m = b[i] >> 5;
                    let a = b[i] & 0x1f;
                    (2..=5).contains(&m) && a <= 27
                })
                .collect();
            if heads.is_empty() {
                return None;
            }
            let p = heads[below(r, heads.len() as u64) as usize];
            let major = b[p] & 0xe0;
            let extra = match b[p] & 0x1f {
                24 => 1,
                25 => 2,
                26 => 4,
                27 => 8,
                _ => 0,
            };
            let mut nb = b[..p].to_vec();
            if below(r, 3) == 0 {
                nb.push(major | 26);
                nb.extend_from_slice(&(pick_huge(r, n) as u32).to_be_bytes());
            } else {
                nb.push(major | 27);
                nb.extend_from_slice(&pick_huge(r, n).to_be_bytes());
            }
            nb.extend_from_slice(&b[(p + 1 + extra).min(n)..]);
            b = nb;
        }
        "inflate_bincode" => {
            // bincode varint: 0xfd = u64 follows, 0xfc = u32 follows, 0xfb = u16 follows
            let p = below(r, n as u64) as usize;
            let mut nb = b[..p].to_vec();
            match below(r, 3) {
                0 => {
                    nb.push(0xfd);
                    nb.extend_from_slice(&pick_huge(r, n).to_le_bytes());
                }
                1 => {
                    nb.push(0xfc);
                    nb.extend_from_slice(&(pick_huge(r, n) as u32).to_le_bytes());
                }
                _ => {
                    nb.push(0xfb);
                    nb.extend_from_slice(&(pick_huge(r, n) as u16).to_le_bytes());
                }
            }
            nb.extend_from_slice(&b[p + 1..]);
            b = nb;
        }
        "overlong_cbor" | "short_cbor" => {
            // serde sequences of fixed size (sigma 48, keys 96, hashes 32 ...): one element more / less
            let heads: Vec<usize> =
                (0..n.saturating_sub(1)).filter(|&i| b[i] == 0x98 && [32u8, 48, 96, 64, 192].contains(&b[i + 1])).collect();
            if heads.is_empty() {
                return None;
            }
            let p = heads[below(r, heads.len() as u64) as usize];
            if cls == "overlong_cbor" {
                let extra = 1 + below(r, 3) as u8;
                b[p + 1] += extra;
                for _ in 0..extra {
                    b.insert(p + 2, 0);
                }
            } else {
                b[p + 1] -= 1;
                let rm = if b[p + 2] == 0x18 { 2 } else { 1 };
                for _ in 0..rm {
                    b.remove(p + 2);
                }
            }
        }
        "splice" => {
            let other = &pool[below(r, pool.len() as u64) as usize];
            let a = below(r, n as u64 + 1) as usize;
            let c = below(r, other.len() as u64 + 1) as usize;
            b.truncate(a);
            b.extend_from_slice(&other[c..]);
        }
        "chunk" => {
            let l = 1 + below(r, 16.min(n as u64)) as usize;
            let s = below(r, (n - l + 1) as u64) as usize;
            let d = below(r, (n - l + 1) as u64) as usize;
            let chunk = b[s..s + l].to_vec();
            b[d..d + l].copy_from_slice(&chunk);
        }
        _ => return None,
    }
    (b != enc.bytes).then_some(b)
}

// ---- JSON ---------------------------------------------------------------------------------
fn paths(v: &Value, cur: &mut Vec<String>, out: &mut Vec<Vec<String>>) {
    out.push(cur.clone());
    match v {
        Value::Array(a) => {
            // byte arrays: visit a few elements only
            let numeric = a.len() > 8 && a.iter().all(|x| x.is_number());
            for (i, x) in a.iter().enumerate() {
                if numeric && i % 17 != 0 {
                    continue;
                }
                cur.push(i.to_string());
                paths(x, cur, out);
                cur.pop();
            }
        }
        Value::Object(o) => {
            for (k, x) in o {
                cur.push(k.clone());
                paths(x, cur, out);
                cur.pop();
            }
        }
        _ => {}
    }
}

fn at<'a>(v: &'a mut Value, p: &[String]) -> &'a mut Value {
    let mut cur = v;
    for seg in p {
        cur = match seg.parse::<usize>() {
            Ok(i) if cur.is_array() => &mut cur[i],
            _ => &mut cur[seg.as_str()],
        };
    }
    cur
}

fn nest(depth: usize) -> Value {
    let mut v = json!(0);
    for _ in 0..depth {
        v = json!([v]);
    }
    v
}

fn json_mutation(r: &mut ChaCha20Rng, cls: &str, doc: &Value) -> Option<String> {
    let mut d = doc.clone();
    let mut all = vec![];
    paths(doc, &mut vec![], &mut all);
    let arrays: Vec<&Vec<String>> = all
        .iter()
        .filter(|p| {
            let mut c = doc;
            for s in p.iter() {
                c = match s.parse::<usize>() {
                    Ok(i) if c.is_array() => &c[i],
                    _ => &c[s.as_str()],
                };
            }
            c.as_array().map(|a| !a.is_empty() && a.iter().all(|x| x.is_number())).unwrap_or(false)
        })
        .collect();
    let pick = |r: &mut ChaCha20Rng, v: &Vec<Vec<String>>| v[below(r, v.len() as u64) as usize].clone();
    match cls {
        "overlong_seq" => {
            if arrays.is_empty() {
                return None;
            }
            let p = arrays[below(r, arrays.len() as u64) as usize].clone();
            let a = at(&mut d, &p).as_array_mut().unwrap();
            let extra = [1usize, 1, 2, 1000][below(r, 4) as usize];
            for _ in 0..extra {
                a.push(json!(0));
            }
        }
        "short_seq" => {
            if arrays.is_empty() {
                return None;
            }
            let p = arrays[below(r, arrays.len() as u64) as usize].clone();
            let a = at(&mut d, &p).as_array_mut().unwrap();
            a.pop();
        }
        "byte_range" => {
            if arrays.is_empty() {
                return None;
            }
            let p = arrays[below(r, arrays.len() as u64) as usize].clone();
            let a = at(&mut d, &p).as_array_mut().unwrap();
            let i = below(r, a.len() as u64) as usize;
            a[i] = [json!(256), json!(-1), json!(1.5), json!(u64::MAX), json!("7")][below(r, 5) as usize].clone();
        }
        "num_huge" => {
            let nums: Vec<Vec<String>> = all
                .iter()
                .filter(|p| {
                    let mut c = doc;
                    for s in p.iter() {
                        c = match s.parse::<usize>() {
                            Ok(i) if c.is_array() => &c[i],
                            _ => &c[s.as_str()],
                        };
                    }
                    c.is_number()
                })
                .cloned()
                .collect();
            if nums.is_empty() {
                return None;
            }
            let p = pick(r, &nums);
            *at(&mut d, &p) = json!("__NUM__");
            let lit = ["18446744073709551616", "-1", "1e400", "1.5", "18446744073709551615", "9223372036854775808", "-9223372036854775809"]
                [below(r, 7) as usize];
            return Some(serde_json::to_string(&d).unwrap().replacen("\"__NUM__\"", lit, 1));
        }
        "type_swap" => {
            let p = pick(r, &all);
            *at(&mut d, &p) =
                [json!(null), json!("str"), json!({}), json!([]), json!(true), json!(0), json!([[]]), json!({"a": {"b": []}})]
                    [below(r, 8) as usize]
                    .clone();
        }
        "drop_key" => {
            let objs: Vec<Vec<String>> = all.iter().filter(|p| !p.is_empty() && p.last().unwrap().parse::<usize>().is_err()).cloned().collect();
            if objs.is_empty() {
                return None;
            }
            let p = pick(r, &objs);
            let (last, parent) = p.split_last().unwrap();
            at(&mut d, parent).as_object_mut()?.remove(last);
        }
        "deep_nest" => {
            let p = pick(r, &all);
            *at(&mut d, &p) = nest([100usize, 127, 128, 129, 1000][below(r, 5) as usize]);
        }
        "long_array" => {
            let p = pick(r, &all);
            *at(&mut d, &p) = json!(vec![0u8; [1000usize, 65536, 300000][below(r, 3) as usize]]);
        }
        "json_text" => {
            let mut t = serde_json::to_string(&d).unwrap().into_bytes();
            match below(r, 3) {
                0 => t.truncate(below(r, t.len() as u64) as usize),
                1 => {
                    let p = below(r, t.len() as u64) as usize;
                    t[p] = b"{}[],:\"0e-x"[below(r, 11) as usize];
                }
                _ => {
                    let p = below(r, t.len() as u64) as usize;
                    t.insert(p, b"{}[],:\"0"[below(r, 8) as usize]);
                }
            }
            return String::from_utf8(t).ok();
        }
        _ => return None,
    }
    (d != *doc).then(|| serde_json::to_string(&d).unwrap())
}


// ---- special group element encodings --------------------------------------------------------
/// well-formed-looking encodings of group elements nobody produces honestly: the point at infinity (compressed and
/// with the uncompressed flag), flag combinations, x = 0, all ones -- for a 48 byte (G1) or 96 byte (G2) field
fn special_points(len: usize) -> Vec<Vec<u8>> {
    let mut out = vec![];
    for first in [0xc0u8, 0x40, 0xe0, 0x80, 0xa0, 0x00] {
        let mut b = vec![0u8; len];
        b[0] = first;
        out.push(b);
    }
    let mut b = vec![0u8; len];
    b[0] = 0xc0;
    b[len - 1] = 1; // infinity flag with a non-zero coordinate
    out.push(b);
    out.push(vec![0xff; len]);
    out
}

/// byte strings of 48 / 96 numbers found in the honest JSON documents (signature values and verification keys)
fn group_element_needles(metas: &[Meta]) -> Vec<Vec<u8>> {
    fn walk(v: &Value, out: &mut Vec<Vec<u8>>) {
        match v {
            Value::Array(a) => {
                if (a.len() == 48 || a.len() == 96) && a.iter().all(|x| x.as_u64().is_some_and(|n| n < 256)) {
                    let b: Vec<u8> = a.iter().map(|x| x.as_u64().unwrap() as u8).collect();
                    if b[0] & 0x80 != 0 && !out.contains(&b) {
                        out.push(b);
                    }
                } else {
                    a.iter().for_each(|x| walk(x, out));
                }
            }
            Value::Object(o) => o.values().for_each(|x| walk(x, out)),
            _ => {}
        }
    }
    let mut out = vec![];
    for m in metas {
        walk(&m.json, &mut out);
    }
    out
}

/// one honest group element inside a binary encoding replaced, in place, by a special encoding of the same length
fn special_point_bin(r: &mut ChaCha20Rng, bytes: &[u8], needles: &[Vec<u8>]) -> Option<Vec<u8>> {
    let mut hits = vec![];
    for nd in needles {
        if nd.len() > bytes.len() {
            continue;
        }
        for p in 0..=(bytes.len() - nd.len()) {
            if bytes[p] == nd[0] && bytes[p..p + nd.len()] == nd[..] {
                hits.push((p, nd.len()));
            }
        }
    }
    if hits.is_empty() {
        return None;
    }
    let (p, l) = hits[below(r, hits.len() as u64) as usize];
    let sp = special_points(l);
    let mut b = bytes.to_vec();
    b[p..p + l].copy_from_slice(&sp[below(r, sp.len() as u64) as usize]);
    Some(b)
}

/// the same inside a JSON document (arrays of 48 / 96 byte values)
fn special_point_json(r: &mut ChaCha20Rng, doc: &Value) -> Option<String> {
    let mut all = vec![];
    paths(doc, &mut vec![], &mut all);
    let mut d = doc.clone();
    let cands: Vec<Vec<String>> = all
        .into_iter()
        .filter(|p| {
            let mut c = doc;
            for s in p.iter() {
                c = match s.parse::<usize>() {
                    Ok(i) if c.is_array() => &c[i],
                    _ => &c[s.as_str()],
                };
            }
            c.as_array().is_some_and(|a| (a.len() == 48 || a.len() == 96) && a.iter().all(|x| x.is_number()))
        })
        .collect();
    if cands.is_empty() {
        return None;
    }
    let p = cands[below(r, cands.len() as u64) as usize].clone();
    let len = at(&mut d, &p).as_array().unwrap().len();
    let sp = special_points(len);
    *at(&mut d, &p) = json!(sp[below(r, sp.len() as u64) as usize]);
    Some(d.to_string())
}

fn text_mutation(r: &mut ChaCha20Rng, s: &str) -> String {
    let mut t = s.to_string();
    match below(r, 9) {
        0 => {
            t.pop();
        }
        1 => {
            let p = below(r, t.len().max(1) as u64) as usize;
            t.replace_range(p..(p + 1).min(t.len()), ["g", "Z", " ", "\"", "\\", "é"][below(r, 6) as usize]);
        }
        2 => t = t.to_uppercase(),
        3 => t = format!(" {t}\n"),
        4 => t = format!("0x{t}"),
        5 => t = String::new(),
        6 => t = "0".repeat([1usize, 7, 100_001][below(r, 3) as usize]),
        7 => t.push_str("00"),
        _ => t = t.chars().rev().collect(),
    }
    t
}

/// bincode bytes of a Merkle map proof nested `depth` times inside (minimal) map proofs
pub fn nested_map_proof(c: &Ctx, depth: usize) -> Option<Vec<u8>> {
    let hi = c.store.find("mkmapproof0")?;
    let m: &Meta = &c.store.meta[hi];
    let honest = &m.encs.iter().find(|e| e.codec == "bincode")?.bytes;
    // honest = M0 ++ [1] ++ K ++ SUB where M0 ++ [0] encodes the master proof alone
    let master: MKProof = serde_json::from_value(m.json["master_proof"].clone()).ok()?;
    let m0 = MapProof::from(master).to_bytes_vec().ok()?;
    let sub: MapProof = serde_json::from_value(m.json["sub_proofs"][0][1].clone()).ok()?;
    let sub = sub.to_bytes_vec().ok()?;
    let k = honest[m0.len()..honest.len() - sub.len()].to_vec();
    // minimal master proof: empty root, no leaves, size 0, no items
    let minimal = vec![0u8, 0, 0, 0];
    let mut out = vec![];
    for _ in 0..depth {
        out.extend_from_slice(&minimal);
        out.push(1);
        out.extend_from_slice(&k);
    }
    out.extend_from_slice(honest);
    Some(out)
}

pub fn generate(c: &Ctx, args: &Args, seed: u64) -> Vec<Task> {
    let per = args.num("per", 2);
    let mut r = vh_core::rng(seed, 5050);
    let mut tasks = vec![];
    let mut case = 0u64;
    let pool: Vec<Vec<u8>> =
        c.store.meta.iter().flat_map(|m| m.encs.iter().filter(|e| e.codec != "json").map(|e| e.bytes.clone())).collect();
    let bin_classes = [
        "bitflip", "byteset", "truncate", "extend", "inflate_field", "inflate_u64", "inflate_cbor", "inflate_bincode",
        "overlong_cbor", "short_cbor", "splice", "chunk",
    ];
    let json_classes = [
        "overlong_seq", "short_seq", "byte_range", "num_huge", "type_swap", "drop_key", "deep_nest", "long_array", "json_text",
    ];
    let needles = group_element_needles(&c.store.meta);
    for m in &c.store.meta {
        for enc in &m.encs {
            // special group element encodings at the place of an honest signature value / verification key
            for _ in 0..(3 * per) {
                let (payload, codec) = if enc.codec == "json" {
                    let Some(t) = special_point_json(&mut r, &m.json) else { break };
                    (Payload::Json(t.into_bytes()), "json")
                } else {
                    let Some(b) = special_point_bin(&mut r, &enc.bytes, &needles) else { break };
                    (Payload::Bin(b), enc.codec)
                };
                case += 1;
                let label = json!({"mut": "special_point", "pred": "na", "name": m.name});
                c.tasks_for(&mut tasks, case, "mut", m.ty, &payload, codec, None, &label, false);
            }
            if enc.codec == "json" {
                for cls in json_classes {
                    for _ in 0..per {
                        let Some(t) = json_mutation(&mut r, cls, &m.json) else { continue };
                        case += 1;
                        let label = json!({"mut": cls, "pred": "na", "name": m.name});
                        c.tasks_for(&mut tasks, case, "mut", m.ty, &Payload::Json(t.into_bytes()), "json", None, &label, false);
                    }
                }
                // hex-level corruption of both string forms
                for _ in 0..per {
                    for src in [hex::encode(&enc.bytes), m.encs.first().map(|e| hex::encode(&e.bytes)).unwrap_or_default()] {
                        case += 1;
                        let t = text_mutation(&mut r, &src);
                        let label = json!({"mut": "hex_text", "pred": "na", "name": m.name});
                        c.tasks_for(&mut tasks, case, "mut", m.ty, &Payload::Text(t), "text", None, &label, false);
                    }
                }
                continue;
            }
            for cls in bin_classes {
                let applicable = match cls {
                    "inflate_cbor" | "overlong_cbor" | "short_cbor" => enc.codec == "cbor",
                    "inflate_bincode" => enc.codec == "bincode",
                    "inflate_field" => enc.codec == "legacy",
                    _ => true,
                };
                if !applicable {
                    continue;
                }
                for _ in 0..per {
                    let Some(b) = bin_mutation(&mut r, cls, enc, &pool) else { continue };
                    case += 1;
                    let label = json!({"mut": cls, "pred": "na", "name": m.name});
                    c.tasks_for(&mut tasks, case, "mut", m.ty, &Payload::Bin(b), enc.codec, None, &label, false);
                }
            }
        }
    }
    // message documents: mutate the whole document around an honest payload
    for (ei, e) in c.es.iter().enumerate() {
        let crate::entries::Form::Msg(kind) = e.form else { continue };
        let Some(m) = c.store.meta.iter().find(|m| m.ty == e.ty) else { continue };
        let enc = if e.json { m.encs.iter().find(|x| x.codec == "json") } else { m.encs.first() };
        let Some(enc) = enc else { continue };
        let doc: Value = serde_json::from_str(&c.docs.with(kind, &hex::encode(&enc.bytes))).unwrap();
        for cls in json_classes {
            for _ in 0..per {
                let Some(t) = json_mutation(&mut r, cls, &doc) else { continue };
                case += 1;
                let input = t.into_bytes();
                let ev = json!({
                    "ev": "Decode", "case": case, "src": "mut", "ty": e.ty, "entry": e.name, "form": format!("msg:{kind}"),
                    "codec": "doc", "len": input.len() as u64, "honest": false, "bad": "none", "cls": "fits",
                    "mut": format!("doc_{cls}"), "pred": "na", "name": m.name,
                });
                tasks.push(Task { entry: ei, input, honest: -1, ev });
            }
        }
    }
    // deeply nested Merkle map proofs
    let depths: Vec<usize> = args
        .get("nest")
        .map(|s| s.split(',').map(|x| x.parse().unwrap()).collect())
        .unwrap_or_else(|| vec![1, 64, 2000, 10_000, 200_000]);
    for d in depths {
        if let Some(b) = nested_map_proof(c, d) {
            case += 1;
            let label = json!({"mut": "nest", "depth": d as u64, "pred": "na", "name": "mkmapproof0"});
            c.tasks_for(&mut tasks, case, "mut", "MKMapProof", &Payload::Bin(b), "bincode", None, &label, d > 100_000);
        }
    }
    tasks
}
