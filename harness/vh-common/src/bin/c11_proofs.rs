//! C11 — certified transaction / block / stake sets: the aggregator side of the harness.
//!
//! Builds REAL Merkle maps / trees over real `CardanoTransaction` / `CardanoBlock` leaf nodes with
//! the same calls as the aggregator's provers (`mithril-aggregator/src/services/prover.rs`,
//! `prover_legacy.rs`: block-range roots through the real `(Legacy)BlockRangeRootRetriever::
//! compute_merkle_map_from_block_range_roots`, `MKTree::new(_from_iter)`, `MKMap::replace`,
//! `MKMap::compute_proof`, `MkSetProof::new` / `CardanoTransactionsSetProof::new`, the real
//! `TryFrom` conversions to the wire message parts) over an in-memory chain store: the trees are
//! needed here to forge proofs. `MithrilProverService` itself with its sqlite repository runs in
//! vh-aggregator/c11_prover; its output is the base of the wire-level tampering (`--honest-from`)
//! and the reference the in-memory calls are compared with. The signed protocol messages come from the real
//! `CardanoTransactionsSignableBuilder`, `CardanoBlocksTransactionsSignableBuilder` and
//! `CardanoStakeDistributionSignableBuilder`.
//!
//! Output (`--out`): ndjson of `world` records (certificates + ground truth of the certified chain /
//! stake distribution) and `proof` / `stake` records (one possibly altered aggregator response each,
//! as wire JSON) for `vh-client/c11_client`, which runs the real client-side verification.
//!
//! `--tx-cases`    TLC-generated abstract responses (MC_Proofs GEN) realised as real messages: every
//!                 abstract Merkle proof [root, leaves] becomes a real `MKProof` (computed by the real
//!                 tree when the model says it is valid, forged through serde otherwise), assembled
//!                 into a real `MKMapProof` through its `Deserialize`, encoded by the real codecs.
//! `--sd-cases`, `--collisions`  TLC-generated stake distributions / colliding leaf pairs.
//! `--honest-from` honest responses of the REAL `MithrilProverService` / `LegacyMithrilProverService` over
//!                 a real sqlite repository (written by vh-aggregator/c11_prover for seeded random
//!                 realistic chains: 64-hex hashes, several ranges, partial last range): cross-checked
//!                 against the in-memory prover calls of this file, then altered at the JSON level and
//!                 inside the hex-encoded proof (real decode -> serde mutation -> real encode).
//! `--sd-rounds`   seeded random stake distributions (bech32-like pool ids) and their edits.
use std::collections::{BTreeMap, BTreeSet};
use std::ops::Range;
use std::sync::Arc;

use async_trait::async_trait;
use mithril_common::StdResult;
use mithril_common::crypto_helper::{MKMap, MKMapNode, MKMapProof, MKTree, MKTreeNode, MKTreeStoreInMemory, ProtocolMkProof};
use mithril_common::entities::{
    BlockNumber, BlockNumberOffset, BlockRange, CardanoBlock, CardanoBlockTransactionMkTreeNode,
    CardanoTransaction, CardanoTransactionsSetProof, Epoch, MkSetProof, ProtocolMessage, ProtocolMessagePartKey, SignedEntityType,
    SlotNumber, StakeDistribution,
};
use mithril_common::messages::{
    CardanoBlockMessagePart, CardanoBlocksProofsMessage, CardanoStakeDistributionMessage, CardanoTransactionMessagePart,
    CardanoTransactionsProofsMessage, CardanoTransactionsProofsV2Message, CardanoTransactionsSetProofMessagePart, CertificateMessage,
    MkSetProofMessagePart,
};
use mithril_common::signable_builder::{
    BlockRangeRootRetriever, BlocksTransactionsImporter, CardanoBlocksTransactionsSignableBuilder,
    CardanoStakeDistributionSignableBuilder, CardanoTransactionsSignableBuilder, LegacyBlockRangeRootRetriever, SignableBuilder,
    StakeDistributionRetriever, TransactionsImporter,
};
use mithril_common::test::double::Dummy;
use sha2::{Digest, Sha256};
use vh_core::{Args, ChaCha20Rng, Trace, Value, below, json, read_ndjson, rng};

type Store = MKTreeStoreInMemory;
type Map = MKMap<BlockRange, MKMapNode<BlockRange, Store>, Store>;

// ------------------------------------------------------------------------------------------
// the chain store (stands for the aggregator's sqlite repository)
// ------------------------------------------------------------------------------------------
#[derive(Clone, Debug)]
struct Blk {
    bh: String,
    bn: u64,
    slot: u64,
    txs: Vec<String>,
}

#[derive(Clone, Debug)]
struct Chain {
    blocks: Vec<Blk>,
}

impl Chain {
    fn from_json(v: &Value) -> Chain {
        Chain {
            blocks: v
                .as_array()
                .unwrap()
                .iter()
                .map(|b| Blk {
                    bh: b["bh"].as_str().unwrap().to_string(),
                    bn: b["bn"].as_u64().unwrap(),
                    slot: b["slot"].as_u64().unwrap(),
                    txs: b["txs"].as_array().unwrap().iter().map(|t| t.as_str().unwrap().to_string()).collect(),
                })
                .collect(),
        }
    }
    /// in the repository's order (`order by cardano_block.block_number, cardano_tx.transaction_hash`)
    fn transactions(&self) -> Vec<CardanoTransaction> {
        let mut v: Vec<CardanoTransaction> = self
            .blocks
            .iter()
            .flat_map(|b| b.txs.iter().map(|t| CardanoTransaction::new(t.clone(), BlockNumber(b.bn), SlotNumber(b.slot), b.bh.clone())))
            .collect();
        v.sort_by(|a, b| (a.block_number, &a.transaction_hash).cmp(&(b.block_number, &b.transaction_hash)));
        v
    }
    fn block_entities(&self) -> Vec<CardanoBlock> {
        self.blocks.iter().map(|b| CardanoBlock::new(b.bh.clone(), BlockNumber(b.bn), SlotNumber(b.slot))).collect()
    }
    fn txs_in(&self, r: &Range<BlockNumber>) -> Vec<CardanoTransaction> {
        self.transactions().into_iter().filter(|t| r.contains(&t.block_number)).collect()
    }
    /// what the repository's `get_blocks_with_transactions_in_range_blocks(..)` +
    /// `CardanoBlockTransactionsRecord::into_mk_tree_nodes` (mithril-persistence) yield: one Block node
    /// and one Transaction node per transaction, here through the entities' own `From` conversions
    fn nodes_in(&self, r: &Range<BlockNumber>) -> BTreeSet<CardanoBlockTransactionMkTreeNode> {
        let blocks = self.block_entities().into_iter().filter(|b| r.contains(&b.block_number)).map(CardanoBlockTransactionMkTreeNode::from);
        let txs = self.txs_in(r).into_iter().map(CardanoBlockTransactionMkTreeNode::from);
        blocks.chain(txs).collect()
    }
}

struct LegacyView(Chain);
struct V2View(Chain);
struct NoImport;

#[async_trait]
impl TransactionsImporter for NoImport {
    async fn import(&self, _up_to_beacon: BlockNumber) -> StdResult<()> {
        Ok(())
    }
}
#[async_trait]
impl BlocksTransactionsImporter for NoImport {
    async fn import(&self, _up_to_beacon: BlockNumber) -> StdResult<()> {
        Ok(())
    }
}

/// roots of the COMPLETE block ranges up to the beacon, as `BlockRangeImporter::run_legacy` stores them
#[async_trait]
impl LegacyBlockRangeRootRetriever<Store> for LegacyView {
    async fn retrieve_block_range_roots<'a>(
        &'a self,
        up_to_beacon: BlockNumber,
    ) -> StdResult<Box<dyn Iterator<Item = (BlockRange, MKTreeNode)> + 'a>> {
        let mut out = vec![];
        for range in BlockRange::all_block_ranges_in(BlockNumber(0)..=up_to_beacon) {
            let txs = self.0.txs_in(&(range.start..range.end));
            if txs.is_empty() {
                continue;
            }
            out.push((range, MKTree::<Store>::new_from_iter(txs)?.compute_root()?));
        }
        Ok(Box::new(out.into_iter()))
    }
}

/// as `BlockRangeImporter::run` stores them (+ the nodes of the partial last range on demand)
#[async_trait]
impl BlockRangeRootRetriever<Store> for V2View {
    async fn retrieve_block_range_roots<'a>(
        &'a self,
        up_to_beacon: BlockNumber,
    ) -> StdResult<Box<dyn Iterator<Item = (BlockRange, MKTreeNode)> + 'a>> {
        let mut out = vec![];
        for range in BlockRange::all_block_ranges_in(BlockNumber(0)..=up_to_beacon) {
            let nodes = self.0.nodes_in(&(range.start..range.end));
            if nodes.is_empty() {
                continue;
            }
            out.push((range, MKTree::<Store>::new_from_iter(nodes)?.compute_root()?));
        }
        Ok(Box::new(out.into_iter()))
    }
    async fn retrieve_block_ranges_nodes(&self, range: Range<BlockNumber>) -> StdResult<BTreeSet<CardanoBlockTransactionMkTreeNode>> {
        Ok(self.0.nodes_in(&range))
    }
}

struct SdRetr(StakeDistribution);
#[async_trait]
impl StakeDistributionRetriever for SdRetr {
    async fn retrieve(&self, _epoch: Epoch) -> StdResult<Option<StakeDistribution>> {
        Ok(Some(self.0.clone()))
    }
}

// ------------------------------------------------------------------------------------------
// forests: the Merkle map of a chain for one tree kind, with the full tree of every range
// ------------------------------------------------------------------------------------------
struct Forest {
    map: Map,
    trees: BTreeMap<BlockRange, MKTree<Store>>,
    signed: ProtocolMessage,
    up_to: u64,
}

fn rt() -> tokio::runtime::Runtime {
    tokio::runtime::Builder::new_current_thread().build().unwrap()
}

/// `kind` = "legacy" | "v2". None when the chain has nothing to sign for that kind.
fn forest(chain: &Chain, kind: &str, up_to: u64, offset: u64) -> Option<Forest> {
    let rt = rt();
    let beacon = BlockNumber(up_to);
    let (mut map, signed): (Map, ProtocolMessage) = if kind == "legacy" {
        let view = Arc::new(LegacyView(chain.clone()));
        let map = rt.block_on(view.compute_merkle_map_from_block_range_roots(beacon)).ok()?;
        let signed = rt
            .block_on(CardanoTransactionsSignableBuilder::<Store>::new(Arc::new(NoImport), view.clone()).compute_protocol_message(beacon))
            .ok()?;
        (map, signed)
    } else {
        let view = Arc::new(V2View(chain.clone()));
        let map = rt.block_on(view.compute_merkle_map_from_block_range_roots(beacon)).ok()?;
        let signed = rt
            .block_on(
                CardanoBlocksTransactionsSignableBuilder::<Store>::new(Arc::new(NoImport), view.clone())
                    .compute_protocol_message((beacon, BlockNumberOffset(offset))),
            )
            .ok()?;
        (map, signed)
    };
    // prover step "enrich the Merkle map with the block ranges Merkle trees" -- here for every range
    let keys: Vec<BlockRange> = map.keys().cloned().collect();
    let mut trees = BTreeMap::new();
    for range in keys {
        let hi = range.end.min(beacon + 1);
        let tree: MKTree<Store> = if kind == "legacy" {
            MKTree::new(&chain.txs_in(&(range.start..range.end))).unwrap()
        } else {
            MKTree::new_from_iter(chain.nodes_in(&(range.start..hi))).unwrap()
        };
        map.replace(range.clone(), tree.clone().into()).expect("the tree of a range has the stored root");
        trees.insert(range, tree);
    }
    let key = if kind == "legacy" { ProtocolMessagePartKey::CardanoTransactionsMerkleRoot } else { ProtocolMessagePartKey::CardanoBlocksTransactionsMerkleRoot };
    assert_eq!(signed.get_message_part(&key).unwrap(), &map.compute_root().unwrap().to_hex(), "harness: forest root differs from the signed root");
    Some(Forest { map, trees, signed, up_to })
}

/// what the aggregator's signable builder service adds before signing, and the certificate around it
fn certificate(signed: &ProtocolMessage, entity: SignedEntityType, hash: &str) -> CertificateMessage {
    let mut pm = signed.clone();
    pm.set_message_part(ProtocolMessagePartKey::NextAggregateVerificationKey, "7b226e6578745f61766b223a312c7d".to_string());
    pm.set_message_part(ProtocolMessagePartKey::NextProtocolParameters, "a1b2c3d4".to_string());
    pm.set_message_part(ProtocolMessagePartKey::CurrentEpoch, "12".to_string());
    let mut cert = CertificateMessage::dummy();
    cert.hash = hash.to_string();
    cert.epoch = Epoch(12);
    cert.signed_entity_type = entity.into();
    cert.signed_message = pm.compute_hash();
    cert.protocol_message = pm;
    // the chain of signatures is C03's subject: keep the record small
    cert.multi_signature = String::new();
    cert.aggregate_verification_key = "00".to_string();
    cert
}

// ------------------------------------------------------------------------------------------
// the prover calls (honest responses)
// ------------------------------------------------------------------------------------------
/// prover_legacy.rs compute_transactions_proofs
fn prove_legacy(f: &Forest, hashes: &[String]) -> Vec<CardanoTransactionsSetProof> {
    match f.map.compute_proof(hashes) {
        Ok(mk_proof) => {
            let leaves = mk_proof.leaves();
            let certified: Vec<String> = hashes.iter().filter(|h| leaves.contains(&h.as_str().into())).cloned().collect();
            vec![CardanoTransactionsSetProof::new(certified, mk_proof)]
        }
        _ => vec![],
    }
}

fn msg_legacy(cert_hash: &str, f: &Forest, hashes: &[String]) -> Value {
    let proofs = prove_legacy(f, hashes);
    let certified: Vec<String> = proofs.iter().flat_map(|p| p.transactions_hashes().to_vec()).collect();
    let parts: Vec<CardanoTransactionsSetProofMessagePart> = proofs.into_iter().map(|p| p.try_into().unwrap()).collect();
    let not: Vec<String> = hashes.iter().filter(|h| !certified.contains(h)).cloned().collect();
    serde_json::to_value(CardanoTransactionsProofsMessage::new(cert_hash, parts, not, BlockNumber(f.up_to))).unwrap()
}

/// prover.rs compute_proof for transactions / blocks
fn msg_v2_tx(cert_hash: &str, chain: &Chain, f: &Forest, hashes: &[String], offset: u64) -> Value {
    let items: Vec<CardanoTransaction> =
        chain.transactions().into_iter().filter(|t| *t.block_number <= f.up_to && hashes.contains(&t.transaction_hash)).collect();
    let certified: Vec<String> = items.iter().map(|t| t.transaction_hash.clone()).collect();
    let part: Option<MkSetProofMessagePart<CardanoTransactionMessagePart>> = if items.is_empty() {
        None
    } else {
        let nodes: Vec<CardanoBlockTransactionMkTreeNode> = items.iter().cloned().map(Into::into).collect();
        let mk_proof = f.map.compute_proof(&nodes).unwrap();
        Some(MkSetProof::<CardanoTransaction>::new(items, mk_proof).try_into().unwrap())
    };
    let not: Vec<String> = hashes.iter().filter(|h| !certified.contains(h)).cloned().collect();
    serde_json::to_value(CardanoTransactionsProofsV2Message::new(cert_hash, part, not, BlockNumber(f.up_to), BlockNumberOffset(offset))).unwrap()
}

fn msg_v2_blk(cert_hash: &str, chain: &Chain, f: &Forest, hashes: &[String], offset: u64) -> Value {
    let items: Vec<CardanoBlock> = chain.block_entities().into_iter().filter(|b| *b.block_number <= f.up_to && hashes.contains(&b.block_hash)).collect();
    let certified: Vec<String> = items.iter().map(|t| t.block_hash.clone()).collect();
    let part: Option<MkSetProofMessagePart<CardanoBlockMessagePart>> = if items.is_empty() {
        None
    } else {
        let nodes: Vec<CardanoBlockTransactionMkTreeNode> = items.iter().cloned().map(Into::into).collect();
        let mk_proof = f.map.compute_proof(&nodes).unwrap();
        Some(MkSetProof::<CardanoBlock>::new(items, mk_proof).try_into().unwrap())
    };
    let not: Vec<String> = hashes.iter().filter(|h| !certified.contains(h)).cloned().collect();
    serde_json::to_value(CardanoBlocksProofsMessage::new(cert_hash, part, not, BlockNumber(f.up_to), BlockNumberOffset(offset))).unwrap()
}

// ------------------------------------------------------------------------------------------
// proof codecs (the real ones)
// ------------------------------------------------------------------------------------------
fn encode_proof(fmt: &str, proof_json: &Value) -> Option<String> {
    let p: MKMapProof<BlockRange> = serde_json::from_value(proof_json.clone()).ok()?;
    let key = ProtocolMkProof::new(p);
    if fmt == "legacy" { key.to_json_hex().ok() } else { key.to_bytes_hex().ok() }
}

fn decode_proof(fmt: &str, hex: &str) -> Value {
    let key = if fmt == "legacy" { ProtocolMkProof::from_json_hex(hex).unwrap() } else { ProtocolMkProof::from_bytes_hex(hex).unwrap() };
    let p: MKMapProof<BlockRange> = key.into_inner();
    serde_json::to_value(&p).unwrap()
}

fn node_json(n: &MKTreeNode) -> Value {
    serde_json::to_value(n).unwrap()
}

fn range_key(r: u64) -> BlockRange {
    BlockRange::from_block_number(BlockNumber(r * 15))
}

// ------------------------------------------------------------------------------------------
// ground truth of a world, for the client-side harness
// ------------------------------------------------------------------------------------------
fn truth(chain: &Chain, legacy_up_to: Option<u64>, v2_up_to: Option<u64>, offset: u64) -> Value {
    let tx: Vec<Value> = chain
        .transactions()
        .iter()
        .filter(|t| v2_up_to.is_some_and(|u| *t.block_number <= u))
        .map(|t| json!([t.transaction_hash, t.block_hash, *t.block_number, *t.slot_number]))
        .collect();
    let blk: Vec<Value> = chain
        .block_entities()
        .iter()
        .filter(|b| v2_up_to.is_some_and(|u| *b.block_number <= u))
        .map(|b| json!([b.block_hash, *b.block_number, *b.slot_number]))
        .collect();
    // legacy certifies the transactions of the complete block ranges up to the beacon
    let legacy: Vec<Value> = match legacy_up_to {
        Some(u) => {
            let end = *BlockRange::all_block_ranges_in(BlockNumber(0)..=BlockNumber(u)).end();
            chain.transactions().iter().filter(|t| *t.block_number < end).map(|t| json!(t.transaction_hash)).collect()
        }
        None => vec![],
    };
    json!({"tx": tx, "blk": blk, "legacy": legacy, "lbn_legacy": legacy_up_to, "lbn_v2": v2_up_to, "off": offset})
}

struct WorldOut {
    id: u64,
}

fn emit_world(out: &mut Trace, id: u64, chain: &Chain, legacy: Option<(&ProtocolMessage, u64)>, v2: Option<(&ProtocolMessage, u64)>, offset: u64) -> WorldOut {
    let cert_l = legacy.map(|(pm, up_to)| certificate(pm, SignedEntityType::CardanoTransactions(Epoch(12), BlockNumber(up_to)), &format!("cert-legacy-{id}")));
    let cert_v = v2.map(|(pm, up_to)| {
        certificate(pm, SignedEntityType::CardanoBlocksTransactions(Epoch(12), BlockNumber(up_to), BlockNumberOffset(offset)), &format!("cert-v2-{id}"))
    });
    out.emit(json!({"kind": "world", "id": id,
        "cert_legacy": cert_l.map(|c| serde_json::to_string(&c).unwrap()),
        "cert_v2": cert_v.map(|c| serde_json::to_string(&c).unwrap()),
        "truth": truth(chain, legacy.map(|l| l.1), v2.map(|l| l.1), offset)}));
    WorldOut { id }
}

// ------------------------------------------------------------------------------------------
// realiser: abstract response (TLC) -> real wire message
// ------------------------------------------------------------------------------------------
/// `l` is the leaf `c` with bytes cut off at one end
fn is_cut(l: &MKTreeNode, c: &MKTreeNode) -> bool {
    l != c && !l.is_empty() && (c.starts_with(l) || c.ends_with(l))
}

/// In the MKProof (serde value) `v`, present the leaf `orig` as `cut` and move the bytes cut off into
/// the sibling node of the proof (the real `MKProof::verify` tells which proof item that is).
/// Returns false when no proof item can absorb them (the leaf then is simply replaced: invalid proof).
fn apply_cut(v: &mut Value, orig: &MKTreeNode, cut: &MKTreeNode) -> bool {
    let ob = node_json(orig);
    let Some(j) = v["inner_leaves"].as_array().unwrap().iter().position(|e| e[1] == ob) else { return false };
    v["inner_leaves"][j][1] = node_json(cut);
    let prefix_kept = orig.starts_with(cut);
    let moved: Vec<u8> = if prefix_kept { orig[cut.len()..].to_vec() } else { orig[..orig.len() - cut.len()].to_vec() };
    let n_items = v["inner_proof_items"].as_array().unwrap().len();
    for k in 0..n_items {
        let mut cand = v.clone();
        let mut item: Vec<u8> = serde_json::from_value(cand["inner_proof_items"][k]["hash"].clone()).unwrap();
        if prefix_kept {
            item.splice(0..0, moved.iter().copied());
        } else {
            item.extend_from_slice(&moved);
        }
        cand["inner_proof_items"][k]["hash"] = json!(item);
        let ok = serde_json::from_value::<mithril_common::crypto_helper::MKProof>(cand.clone()).map(|p| p.verify().is_ok()).unwrap_or(false);
        if ok {
            *v = cand;
            return true;
        }
    }
    false
}

struct Pair<'a> {
    w: &'a Forest,
    f: &'a Forest,
}

impl Pair<'_> {
    fn forest(&self, x: &str) -> &Forest {
        if x == "W" { self.w } else { self.f }
    }
    fn master_tree(&self, x: &str) -> &MKTree<Store> {
        (&self.forest(x).map).into()
    }
    fn tree_of(&self, r: &Value) -> Option<&MKTree<Store>> {
        let a = r.as_array().unwrap();
        match a[0].as_str().unwrap() {
            "R" => self.forest(a[1].as_str().unwrap()).trees.get(&range_key(a[2].as_u64().unwrap())),
            "M" => Some(self.master_tree(a[1].as_str().unwrap())),
            _ => None,
        }
    }
    fn root_of(&self, r: &Value) -> MKTreeNode {
        match self.tree_of(r) {
            Some(t) => t.compute_root().unwrap(),
            None => MKTreeNode::new(Sha256::digest(format!("junk-root-{r}")).to_vec()),
        }
    }
    fn node_of(&self, l: &Value) -> MKTreeNode {
        let a = l.as_array().unwrap();
        match a[0].as_str().unwrap() {
            "I" => MKTreeNode::new(a[1].as_str().unwrap().as_bytes().to_vec()),
            "K" => {
                let key: MKTreeNode = range_key(a[1].as_u64().unwrap()).into();
                key + self.root_of(&a[2])
            }
            k => panic!("unknown leaf kind {k}"),
        }
    }
    fn all_trees(&self) -> Vec<&MKTree<Store>> {
        let mut v: Vec<&MKTree<Store>> = vec![];
        for x in ["W", "F"] {
            v.extend(self.forest(x).trees.values());
            v.push(self.master_tree(x));
        }
        v
    }

    /// abstract [root, leaves] -> real MKProof (as its serde value). Valid in the model
    /// (leaves non-empty and all in the tree `root` stands for) => computed by the real tree.
    /// A leaf that is a tree leaf with characters cut off => the real proof of that leaf with the
    /// characters moved into the sibling node. Otherwise forged: a real proof for the leaves that do
    /// exist, the others injected through serde, the root overwritten when it is not the tree's.
    fn realise_mk(&self, p: &Value, forged: &mut u64) -> Value {
        let leaves: Vec<MKTreeNode> = p["leaves"].as_array().unwrap().iter().map(|l| self.node_of(l)).collect();
        let named = self.tree_of(&p["root"]);
        let tree = named
            .or_else(|| self.all_trees().into_iter().find(|t| leaves.iter().any(|l| t.contains(l))))
            .unwrap_or_else(|| self.master_tree("W"));
        let tl = tree.leaves();
        let (valid, invalid): (Vec<MKTreeNode>, Vec<MKTreeNode>) = leaves.into_iter().partition(|l| tree.contains(l));
        let mut cuts: Vec<(MKTreeNode, MKTreeNode)> = vec![];
        let mut rest: Vec<MKTreeNode> = vec![];
        for l in invalid {
            match tl.iter().find(|c| is_cut(&l, c) && !valid.contains(c) && !cuts.iter().any(|(o, _)| o == *c)) {
                Some(c) => cuts.push((c.clone(), l)),
                None => rest.push(l),
            }
        }
        let mut seed: Vec<MKTreeNode> = valid.clone();
        seed.extend(cuts.iter().map(|(o, _)| o.clone()));
        let nothing_real = seed.is_empty();
        if nothing_real {
            seed.push(tl[0].clone());
        }
        let mut v = serde_json::to_value(tree.compute_proof(&seed).unwrap()).unwrap();
        for (orig, cut) in &cuts {
            *forged += 1;
            apply_cut(&mut v, orig, cut);
        }
        let mut inv = rest.into_iter();
        if nothing_real {
            *forged += 1;
            match inv.next() {
                Some(first) => v["inner_leaves"][0][1] = node_json(&first),
                None => v["inner_leaves"] = json!([]),
            }
        }
        let mut pos = v["inner_proof_size"].as_u64().unwrap();
        for extra in inv {
            *forged += 1;
            v["inner_leaves"].as_array_mut().unwrap().push(json!([pos, node_json(&extra)]));
            pos += 1;
        }
        if named.is_none() {
            *forged += 1;
            v["inner_root"] = node_json(&self.root_of(&p["root"]));
        }
        v
    }

    fn realise_map(&self, part: &Value, forged: &mut u64) -> Value {
        let subs: Vec<Value> = part["subs"]
            .as_array()
            .unwrap()
            .iter()
            .map(|s| {
                json!([serde_json::to_value(range_key(s["key"].as_u64().unwrap())).unwrap(),
                       {"master_proof": self.realise_mk(&s["p"], forged), "sub_proofs": []}])
            })
            .collect();
        json!({"master_proof": self.realise_mk(&part["master"], forged), "sub_proofs": subs})
    }
}

fn item_json(fmt: &str, it: &Value) -> Value {
    match fmt {
        "legacy" => it["th"].clone(),
        "tx" => json!({"transaction_hash": it["th"], "block_number": it["bn"], "slot_number": it["slot"], "block_hash": it["bh"]}),
        _ => json!({"block_hash": it["bh"], "block_number": it["bn"], "slot_number": it["slot"]}),
    }
}

/// the wire message from format, parts = [(items, hex proof)], block number, offset — through the
/// real message structs whenever the values fit them
fn assemble(fmt: &str, cert_hash: &str, parts: &[(Vec<Value>, String)], lbn: u64, off: u64) -> Value {
    match fmt {
        "legacy" => {
            let ps: Vec<CardanoTransactionsSetProofMessagePart> = parts
                .iter()
                .map(|(items, proof)| CardanoTransactionsSetProofMessagePart {
                    transactions_hashes: items.iter().map(|i| i.as_str().unwrap().to_string()).collect(),
                    proof: proof.clone(),
                })
                .collect();
            serde_json::to_value(CardanoTransactionsProofsMessage::new(cert_hash, ps, vec![], BlockNumber(lbn))).unwrap()
        }
        "tx" => {
            let part = parts.first().map(|(items, proof)| MkSetProofMessagePart::<CardanoTransactionMessagePart> {
                items: items.iter().map(|i| serde_json::from_value(i.clone()).unwrap()).collect(),
                proof: proof.clone(),
            });
            serde_json::to_value(CardanoTransactionsProofsV2Message::new(cert_hash, part, vec![], BlockNumber(lbn), BlockNumberOffset(off))).unwrap()
        }
        _ => {
            let part = parts.first().map(|(items, proof)| MkSetProofMessagePart::<CardanoBlockMessagePart> {
                items: items.iter().map(|i| serde_json::from_value(i.clone()).unwrap()).collect(),
                proof: proof.clone(),
            });
            serde_json::to_value(CardanoBlocksProofsMessage::new(cert_hash, part, vec![], BlockNumber(lbn), BlockNumberOffset(off))).unwrap()
        }
    }
}

fn run_tx_cases(path: &str, out: &mut Trace, summary: &mut BTreeMap<String, u64>, next_world: &mut u64) {
    let cases = read_ndjson(path);
    let mut worlds: BTreeMap<String, (u64, Forest, Forest, Forest, Forest, Chain)> = BTreeMap::new();
    for (n, c) in cases.iter().enumerate() {
        let key = c["w"].to_string();
        let up_to = c["L"].as_u64().unwrap();
        let offset = c["O"].as_u64().unwrap();
        if !worlds.contains_key(&key) {
            let w = Chain::from_json(&c["w"]);
            let f = Chain::from_json(&c["f"]);
            let (wl, wv) = (forest(&w, "legacy", up_to, offset), forest(&w, "v2", up_to, offset));
            let (fl, fv) = (forest(&f, "legacy", up_to, offset), forest(&f, "v2", up_to, offset));
            let (Some(wl), Some(wv), Some(fl), Some(fv)) = (wl, wv, fl, fv) else {
                panic!("harness: a GEN world has nothing to sign for one tree kind: {key}");
            };
            *next_world += 1;
            emit_world(out, *next_world, &w, Some((&wl.signed, wl.up_to)), Some((&wv.signed, wv.up_to)), offset);
            worlds.insert(key.clone(), (*next_world, wl, wv, fl, fv, w));
        }
        let (wid, wl, wv, fl, fv, chain) = worlds.get(&key).unwrap();
        let fmt = c["fmt"].as_str().unwrap();
        let pair = if fmt == "legacy" { Pair { w: wl, f: fl } } else { Pair { w: wv, f: fv } };
        let cert_kind = c["certKind"].as_str().unwrap();
        let cert_hash = format!("cert-{cert_kind}-{wid}");
        let mut forged = 0u64;
        let mut parts: Vec<(Vec<Value>, String)> = vec![];
        let mut unencodable = false;
        for part in c["parts"].as_array().unwrap() {
            let items: Vec<Value> = part["items"].as_array().unwrap().iter().map(|i| item_json(fmt, i)).collect();
            let proof = pair.realise_map(part, &mut forged);
            match encode_proof(fmt, &proof) {
                Some(hex) => parts.push((items, hex)),
                None => unencodable = true,
            }
        }
        if unencodable {
            *summary.entry("tlc_unencodable".into()).or_default() += 1;
            continue;
        }
        let lbn = c["lbn"].as_u64().unwrap();
        let off = c["off"].as_i64().unwrap().max(0) as u64;
        let msg = assemble(fmt, &cert_hash, &parts, lbn, off);
        // conformance of the realiser: the unaltered response is the message the prover calls produce
        if c["ops"].as_array().unwrap().is_empty() && !parts.is_empty() {
            let hashes: Vec<String> = c["parts"][0]["items"]
                .as_array()
                .unwrap()
                .iter()
                .map(|i| if fmt == "blk" { i["bh"].as_str().unwrap().to_string() } else { i["th"].as_str().unwrap().to_string() })
                .collect();
            let honest = match fmt {
                "legacy" => msg_legacy(&cert_hash, wl, &hashes),
                "tx" => msg_v2_tx(&cert_hash, chain, wv, &hashes, offset),
                _ => msg_v2_blk(&cert_hash, chain, wv, &hashes, offset),
            };
            let same = decode_all(fmt, &honest) == decode_all(fmt, &msg);
            *summary.entry(if same { "realiser_eq_prover".into() } else { "realiser_ne_prover".into() }).or_default() += 1;
        }
        if forged > 0 {
            *summary.entry("tlc_cases_with_forged_proof_objects".into()).or_default() += 1;
        }
        *summary.entry("tlc_tx_cases".into()).or_default() += 1;
        out.emit(json!({"kind": "proof", "case": format!("tlc-{n}"), "src": "tlc", "world": wid, "fmt": fmt, "cert_kind": cert_kind,
            "ops": c["ops"], "predicted": c["impl"], "predicted_verify": c["verify"], "msg": msg.to_string()}));
    }
}

/// the message with every hex proof decoded (for comparisons that must not depend on map order)
fn decode_all(fmt: &str, msg: &Value) -> Value {
    let mut m = msg.clone();
    match fmt {
        "legacy" => {
            for p in m["certified_transactions"].as_array_mut().unwrap() {
                p["proof"] = decode_proof(fmt, p["proof"].as_str().unwrap());
            }
        }
        "tx" => {
            if !m["certified_transactions"].is_null() {
                m["certified_transactions"]["proof"] = decode_proof(fmt, m["certified_transactions"]["proof"].as_str().unwrap());
            }
        }
        _ => {
            if !m["certified_blocks"].is_null() {
                m["certified_blocks"]["proof"] = decode_proof(fmt, m["certified_blocks"]["proof"].as_str().unwrap());
            }
        }
    }
    m
}

// ------------------------------------------------------------------------------------------
// random realistic worlds, wire-level tampering
// ------------------------------------------------------------------------------------------
fn hex_hash(tag: &str, r: &mut ChaCha20Rng) -> String {
    hex::encode(Sha256::digest(format!("{tag}-{}", below(r, u64::MAX))))
}

/// a forged variant of the chain: transactions renamed / moved / added, a block renamed / added
fn forged_chain(c: &Chain, r: &mut ChaCha20Rng) -> Chain {
    let mut f = c.clone();
    let n = f.blocks.len();
    // always a transaction nobody signed, in the first block (so that every tree kind differs)
    f.blocks[0].txs.push(hex_hash("forged-tx", r));
    for _ in 0..(1 + below(r, 3)) {
        let i = below(r, n as u64) as usize;
        match below(r, 5) {
            0 => f.blocks[i].txs.push(hex_hash("forged-tx", r)),
            1 => {
                if let Some(t) = f.blocks[i].txs.pop() {
                    let j = below(r, n as u64) as usize;
                    f.blocks[j].txs.push(t);
                } else {
                    f.blocks[i].txs.push(hex_hash("forged-tx", r));
                }
            }
            2 => f.blocks[i].bh = hex_hash("forged-block", r),
            3 => f.blocks[i].slot += 1,
            _ => {
                let bn = f.blocks[i].bn;
                if !f.blocks.iter().any(|b| b.bn == bn + 1) {
                    f.blocks.insert(i + 1, Blk { bh: hex_hash("forged-block", r), bn: bn + 1, slot: bn * 20 + 21, txs: vec![hex_hash("forged-tx", r)] });
                } else {
                    f.blocks[i].txs.push(hex_hash("forged-tx", r));
                }
            }
        }
    }
    f
}

/// decoded, mutable form of a response
#[derive(Clone)]
struct Resp {
    fmt: String,
    parts: Vec<(Vec<Value>, Value)>, // items (wire form), decoded MKMapProof
    raw_proof: Option<String>,         // a part-0 proof replaced by raw (possibly undecodable) hex
    lbn: Value,
    off: Value,
}

impl Resp {
    fn from_msg(fmt: &str, msg: &Value) -> Resp {
        let d = decode_all(fmt, msg);
        let parts = match fmt {
            "legacy" => d["certified_transactions"].as_array().unwrap().iter().map(|p| (p["transactions_hashes"].as_array().unwrap().clone(), p["proof"].clone())).collect(),
            "tx" => d["certified_transactions"].as_object().map(|p| vec![(p["items"].as_array().unwrap().clone(), p["proof"].clone())]).unwrap_or_default(),
            _ => d["certified_blocks"].as_object().map(|p| vec![(p["items"].as_array().unwrap().clone(), p["proof"].clone())]).unwrap_or_default(),
        };
        Resp { fmt: fmt.to_string(), parts, raw_proof: None, lbn: d["latest_block_number"].clone(), off: d.get("security_parameter").cloned().unwrap_or(json!(0)) }
    }
    /// back to the wire; None when a mutated proof no longer encodes
    fn to_msg(&self, cert_hash: &str) -> Option<Value> {
        let mut enc: Vec<(Vec<Value>, String)> = vec![];
        for (i, (items, proof)) in self.parts.iter().enumerate() {
            let hex = match (&self.raw_proof, i) {
                (Some(raw), 0) => raw.clone(),
                _ => encode_proof(&self.fmt, proof)?,
            };
            enc.push((items.clone(), hex));
        }
        let part_json = |(items, hex): &(Vec<Value>, String)| -> Value {
            if self.fmt == "legacy" { json!({"transactions_hashes": items, "proof": hex}) } else { json!({"items": items, "proof": hex}) }
        };
        Some(match self.fmt.as_str() {
            "legacy" => json!({"certificate_hash": cert_hash, "certified_transactions": enc.iter().map(part_json).collect::<Vec<_>>(),
                "non_certified_transactions": [], "latest_block_number": self.lbn}),
            "tx" => json!({"certificate_hash": cert_hash, "certified_transactions": enc.first().map(part_json),
                "non_certified_transactions": [], "latest_block_number": self.lbn, "security_parameter": self.off}),
            _ => json!({"certificate_hash": cert_hash, "certified_blocks": enc.first().map(part_json),
                "non_certified_blocks": [], "latest_block_number": self.lbn, "security_parameter": self.off}),
        })
    }
}

const MUTS: [&str; 31] = [
    "item_th", "item_bh", "item_bn", "item_slot", "item_move", "item_slash", "item_drop", "item_dup", "item_add_foreign",
    "item_add_unproven", "proof_same_F", "proof_other_W", "proof_all_W", "proof_flat_W", "sub_detach", "sub_foreign", "sub_rekey",
    "sub_leaf_claim", "sub_swap", "sub_add_foreign", "master_foreign", "root_relabel", "lbn", "off", "parts_clear", "part_add_F",
    "part_add_W", "parts_swap_proofs", "proof_hex_corrupt", "number_extreme", "leaf_truncate",
];

struct RandWorld<'a> {
    w: &'a Chain,
    f: &'a Chain,
    fw: &'a Forest,
    ff: &'a Forest,
    offset: u64,
}

impl RandWorld<'_> {
    fn all_items(&self, chain: &Chain, fmt: &str, up_to: u64) -> Vec<Value> {
        match fmt {
            "legacy" => chain.transactions().iter().filter(|t| *t.block_number <= up_to).map(|t| json!(t.transaction_hash)).collect(),
            "tx" => chain.transactions().iter().filter(|t| *t.block_number <= up_to).map(|t| serde_json::to_value(CardanoTransactionMessagePart::from(t.clone())).unwrap()).collect(),
            _ => chain.block_entities().iter().filter(|b| *b.block_number <= up_to).map(|b| serde_json::to_value(CardanoBlockMessagePart::from(b.clone())).unwrap()).collect(),
        }
    }
    fn leaf(&self, fmt: &str, item: &Value) -> MKTreeNode {
        match fmt {
            "legacy" => item.as_str().unwrap().into(),
            "tx" => {
                let t: CardanoTransactionMessagePart = serde_json::from_value(item.clone()).unwrap();
                let n: CardanoBlockTransactionMkTreeNode = CardanoTransaction::from(t).into();
                n.into()
            }
            _ => {
                let b: CardanoBlockMessagePart = serde_json::from_value(item.clone()).unwrap();
                let n: CardanoBlockTransactionMkTreeNode = CardanoBlock::from(b).into();
                n.into()
            }
        }
    }
    fn proof_for(&self, forest: &Forest, leaves: &[MKTreeNode]) -> Option<Value> {
        let present: Vec<MKTreeNode> = leaves.iter().filter(|l| forest.map.contains(l).is_some()).cloned().collect();
        if present.is_empty() {
            return None;
        }
        forest.map.compute_proof(&present).ok().map(|p| serde_json::to_value(&p).unwrap())
    }

    /// apply one named alteration; false when not applicable to this response
    fn mutate(&self, resp: &mut Resp, m: &str, r: &mut ChaCha20Rng) -> bool {
        let fmt = resp.fmt.clone();
        let np = resp.parts.len();
        let pick_part = |r: &mut ChaCha20Rng| below(r, np as u64) as usize;
        let other_block = |r: &mut ChaCha20Rng| self.f.blocks[below(r, self.f.blocks.len() as u64) as usize].clone();
        macro_rules! part_item {
            ($p:ident, $i:ident) => {
                if np == 0 { return false }
                let $p = pick_part(r);
                if resp.parts[$p].0.is_empty() { return false }
                let $i = below(r, resp.parts[$p].0.len() as u64) as usize;
            };
        }
        macro_rules! sub {
            ($p:ident, $s:ident) => {
                if np == 0 { return false }
                let $p = pick_part(r);
                let ns = resp.parts[$p].1["sub_proofs"].as_array().map(|a| a.len()).unwrap_or(0);
                if ns == 0 { return false }
                let $s = below(r, ns as u64) as usize;
            };
        }
        match m {
            "item_th" => {
                if fmt == "blk" { return false }
                part_item!(p, i);
                let all = self.all_items(self.f, "legacy", u64::MAX);
                let v = if below(r, 3) == 0 { json!(hex_hash("unknown-tx", r)) } else { all[below(r, all.len() as u64) as usize].clone() };
                if fmt == "legacy" { resp.parts[p].0[i] = v } else { resp.parts[p].0[i]["transaction_hash"] = v }
                true
            }
            "item_bh" | "item_bn" | "item_slot" | "item_move" => {
                if fmt == "legacy" { return false }
                part_item!(p, i);
                let b = other_block(r);
                let it = &mut resp.parts[p].0[i];
                if m == "item_bh" || m == "item_move" { it["block_hash"] = json!(b.bh) }
                if m == "item_bn" || m == "item_move" { it["block_number"] = json!(b.bn) }
                if m == "item_slot" || m == "item_move" { it["slot_number"] = json!(b.slot) }
                true
            }
            "item_slash" => {
                if fmt == "legacy" { return false }
                part_item!(p, i);
                let it = &mut resp.parts[p].0[i];
                if fmt == "tx" {
                    let (th, bh) = (it["transaction_hash"].as_str().unwrap().to_string(), it["block_hash"].as_str().unwrap().to_string());
                    match below(r, 3) {
                        0 => { it["transaction_hash"] = json!(format!("{th}/{bh}")); it["block_hash"] = json!("") }
                        1 => { it["transaction_hash"] = json!(""); it["block_hash"] = json!(format!("{th}/{bh}")) }
                        _ => { let k = th.len() / 2; it["transaction_hash"] = json!(th[..k]); it["block_hash"] = json!(format!("{}/{bh}", &th[k..])) }
                    }
                } else {
                    let bh = it["block_hash"].as_str().unwrap().to_string();
                    let bn = it["block_number"].as_u64().unwrap();
                    it["block_hash"] = json!(format!("{bh}/{bn}"));
                }
                true
            }
            "item_drop" => { part_item!(p, i); resp.parts[p].0.remove(i); true }
            "item_dup" => { part_item!(p, i); let it = resp.parts[p].0[i].clone(); resp.parts[p].0.push(it); true }
            "item_add_foreign" | "item_add_unproven" => {
                if np == 0 { return false }
                let p = pick_part(r);
                let pool = if m == "item_add_foreign" {
                    let w: Vec<Value> = self.all_items(self.w, &fmt, u64::MAX);
                    self.all_items(self.f, &fmt, u64::MAX).into_iter().filter(|i| !w.contains(i)).collect::<Vec<_>>()
                } else {
                    self.all_items(self.w, &fmt, self.fw.up_to).into_iter().filter(|i| !resp.parts[p].0.contains(i)).collect()
                };
                if pool.is_empty() { return false }
                resp.parts[p].0.push(pool[below(r, pool.len() as u64) as usize].clone());
                true
            }
            "proof_same_F" | "proof_other_W" | "proof_all_W" => {
                if np == 0 { return false }
                let p = pick_part(r);
                let (forest, chain) = if m == "proof_same_F" { (self.ff, self.f) } else { (self.fw, self.w) };
                let mine: Vec<MKTreeNode> = resp.parts[p].0.iter().filter_map(|i| serde_json::from_value::<Value>(i.clone()).ok()).filter_map(|i| std::panic::catch_unwind(|| self.leaf(&fmt, &i)).ok()).collect();
                let all: Vec<MKTreeNode> = self.all_items(chain, &fmt, forest.up_to).iter().map(|i| self.leaf(&fmt, i)).collect();
                let leaves: Vec<MKTreeNode> = match m {
                    "proof_same_F" => mine,
                    "proof_other_W" => { let o: Vec<MKTreeNode> = all.into_iter().filter(|l| !mine.contains(l)).collect(); if o.is_empty() { return false } vec![o[below(r, o.len() as u64) as usize].clone()] }
                    _ => all,
                };
                let Some(proof) = self.proof_for(forest, &leaves) else { return false };
                resp.parts[p].1 = proof;
                true
            }
            "proof_flat_W" => {
                sub!(p, s);
                let subp = resp.parts[p].1["sub_proofs"][s][1].clone();
                resp.parts[p].1 = subp;
                true
            }
            "sub_detach" => { sub!(p, s); resp.parts[p].1["sub_proofs"].as_array_mut().unwrap().remove(s); true }
            "sub_foreign" | "sub_add_foreign" => {
                if np == 0 { return false }
                let p = pick_part(r);
                // a sub-proof of the forged chain: for the same key when there is one
                let keys: Vec<BlockRange> = self.ff.trees.keys().cloned().collect();
                let ns = resp.parts[p].1["sub_proofs"].as_array().map(|a| a.len()).unwrap_or(0);
                if m == "sub_foreign" {
                    if ns == 0 { return false }
                    let s = below(r, ns as u64) as usize;
                    let key: BlockRange = serde_json::from_value(resp.parts[p].1["sub_proofs"][s][0].clone()).unwrap();
                    let Some(tree) = self.ff.trees.get(&key) else { return false };
                    let l = tree.leaves();
                    let fp = tree.compute_proof(&[l[below(r, l.len() as u64) as usize].clone()]).unwrap();
                    resp.parts[p].1["sub_proofs"][s][1] = json!({"master_proof": serde_json::to_value(&fp).unwrap(), "sub_proofs": []});
                } else {
                    // preferably a range whose content the forged chain changed
                    let changed: Vec<BlockRange> = keys.iter().filter(|k| self.fw.trees.get(k).map(|t| t.compute_root().unwrap()) != Some(self.ff.trees[k].compute_root().unwrap())).cloned().collect();
                    let from = if changed.is_empty() { &keys } else { &changed };
                    let key = from[below(r, from.len() as u64) as usize].clone();
                    let tree = &self.ff.trees[&key];
                    let fp = tree.compute_proof(&tree.leaves()).unwrap();
                    let Some(a) = resp.parts[p].1["sub_proofs"].as_array_mut() else { return false };
                    a.push(json!([serde_json::to_value(&key).unwrap(), {"master_proof": serde_json::to_value(&fp).unwrap(), "sub_proofs": []}]));
                }
                true
            }
            "sub_rekey" => {
                sub!(p, s);
                let keys: Vec<BlockRange> = self.fw.trees.keys().cloned().collect();
                let k = if below(r, 3) == 0 { BlockRange::from_block_number(BlockNumber(15 * (1000 + below(r, 10)))) } else { keys[below(r, keys.len() as u64) as usize].clone() };
                let kj = serde_json::to_value(&k).unwrap();
                if resp.parts[p].1["sub_proofs"][s][0] == kj { return false }
                resp.parts[p].1["sub_proofs"][s][0] = kj;
                true
            }
            "sub_leaf_claim" => {
                sub!(p, s);
                // claim an uncommitted item as a leaf of this sub-proof, and report it
                let extra = self.all_items(self.f, &fmt, u64::MAX).into_iter().find(|i| !self.all_items(self.w, &fmt, u64::MAX).contains(i));
                let Some(extra) = extra else { return false };
                let leaf = self.leaf(&fmt, &extra);
                let size = resp.parts[p].1["sub_proofs"][s][1]["master_proof"]["inner_proof_size"].as_u64().unwrap();
                let leaves = resp.parts[p].1["sub_proofs"][s][1]["master_proof"]["inner_leaves"].as_array_mut().unwrap();
                if below(r, 2) == 0 { leaves[0][1] = node_json(&leaf) } else { leaves.push(json!([size + below(r, 3), node_json(&leaf)])) }
                resp.parts[p].0.push(extra);
                true
            }
            "sub_swap" => {
                if np == 0 { return false }
                let p = pick_part(r);
                let Some(a) = resp.parts[p].1["sub_proofs"].as_array_mut() else { return false };
                if a.len() < 2 { return false }
                let (x, y) = (a[0][1].clone(), a[1][1].clone());
                a[0][1] = y;
                a[1][1] = x;
                true
            }
            "master_foreign" => {
                if np == 0 { return false }
                let p = pick_part(r);
                // the forged chain's master proof for the same keys
                let keys: Vec<BlockRange> = resp.parts[p].1["sub_proofs"].as_array().map(|a| a.iter().filter_map(|e| serde_json::from_value(e[0].clone()).ok()).collect()).unwrap_or_default();
                let leaves: Vec<MKTreeNode> = keys.iter().filter_map(|k| self.ff.trees.get(k).map(|t| { let kn: MKTreeNode = k.clone().into(); kn + t.compute_root().unwrap() })).collect();
                if leaves.is_empty() { return false }
                let mt: &MKTree<Store> = (&self.ff.map).into();
                let Ok(mp) = mt.compute_proof(&leaves) else { return false };
                resp.parts[p].1["master_proof"] = serde_json::to_value(&mp).unwrap();
                true
            }
            "root_relabel" => {
                if np == 0 { return false }
                let p = pick_part(r);
                let to = match below(r, 3) { 0 => self.ff.map.compute_root().unwrap(), 1 => self.fw.map.compute_root().unwrap(), _ => MKTreeNode::new(Sha256::digest(b"junk").to_vec()) };
                if resp.parts[p].1["master_proof"]["inner_root"] == node_json(&to) { return false }
                resp.parts[p].1["master_proof"]["inner_root"] = node_json(&to);
                true
            }
            "lbn" => {
                let cur = resp.lbn.as_u64().unwrap_or(0);
                resp.lbn = json!(match below(r, 4) { 0 => cur.wrapping_add(1), 1 => cur.saturating_sub(1), 2 => self.offset, _ => cur.wrapping_add(15) });
                resp.lbn != json!(cur)
            }
            "off" => {
                if fmt == "legacy" { return false }
                let cur = resp.off.as_u64().unwrap_or(0);
                resp.off = json!(match below(r, 3) { 0 => cur.wrapping_add(1), 1 => cur.saturating_sub(1), _ => resp.lbn.as_u64().unwrap_or(7) });
                resp.off != json!(cur)
            }
            "number_extreme" => {
                match below(r, 3) { 0 => resp.lbn = json!(u64::MAX), 1 if fmt != "legacy" => resp.off = json!(u64::MAX), _ => {
                    if fmt == "legacy" || np == 0 || resp.parts[0].0.is_empty() { return false }
                    resp.parts[0].0[0]["slot_number"] = json!(u64::MAX);
                } }
                true
            }
            "parts_clear" => { if np == 0 { return false } resp.parts.clear(); true }
            "part_add_F" | "part_add_W" | "parts_swap_proofs" => {
                if fmt != "legacy" { return false }
                if m == "parts_swap_proofs" {
                    if np < 2 {
                        return self.mutate(resp, "part_add_W", r) && self.mutate(resp, "parts_swap_proofs", r);
                    }
                    let (a, b) = (resp.parts[0].1.clone(), resp.parts[1].1.clone());
                    resp.parts[0].1 = b;
                    resp.parts[1].1 = a;
                    return true;
                }
                let (forest, chain) = if m == "part_add_F" { (self.ff, self.f) } else { (self.fw, self.w) };
                let have: Vec<Value> = resp.parts.iter().flat_map(|p| p.0.clone()).collect();
                let mut rest: Vec<Value> = self.all_items(chain, "legacy", forest.up_to).into_iter().filter(|i| !have.contains(i) && forest.map.contains(&self.leaf("legacy", i)).is_some()).collect();
                if m == "part_add_F" {
                    // prefer what only the forged chain has
                    let w = self.all_items(self.w, "legacy", u64::MAX);
                    let only: Vec<Value> = rest.iter().filter(|i| !w.contains(i)).cloned().collect();
                    if !only.is_empty() { rest = only }
                }
                if rest.is_empty() { return false }
                let pick = vec![rest[below(r, rest.len() as u64) as usize].clone()];
                let leaves: Vec<MKTreeNode> = pick.iter().map(|i| self.leaf("legacy", i)).collect();
                let Some(proof) = self.proof_for(forest, &leaves) else { return false };
                resp.parts.push((pick, proof));
                true
            }
            "leaf_truncate" => {
                // characters cut off a reported item's leaf and moved into the sibling node of the proof:
                // the last digit(s) of the slot number; an end of a legacy transaction hash
                part_item!(p, i);
                let it = resp.parts[p].0[i].clone();
                let Ok(old) = std::panic::catch_unwind(|| self.leaf(&fmt, &it)) else { return false };
                let mut it2 = it.clone();
                if fmt == "legacy" {
                    let h = it.as_str().unwrap();
                    if h.len() < 2 { return false }
                    let k = 1 + below(r, (h.len() - 1) as u64) as usize;
                    it2 = if below(r, 2) == 0 { json!(h[..k]) } else { json!(h[k..]) };
                } else {
                    let slot = it["slot_number"].as_u64().unwrap_or(0);
                    if slot < 10 { return false }
                    it2["slot_number"] = json!(if slot >= 100 && below(r, 2) == 0 { slot / 100 } else { slot / 10 });
                }
                let new = self.leaf(&fmt, &it2);
                resp.parts[p].0[i] = it2;
                let ob = node_json(&old);
                if let Some(subs) = resp.parts[p].1["sub_proofs"].as_array_mut() {
                    for sp in subs {
                        if sp[1]["master_proof"]["inner_leaves"].as_array().is_some_and(|a| a.iter().any(|e| e[1] == ob)) {
                            apply_cut(&mut sp[1]["master_proof"], &old, &new);
                        }
                    }
                }
                true
            }
            "proof_hex_corrupt" => {
                if np == 0 { return false }
                let Some(mut hex) = encode_proof(&fmt, &resp.parts[0].1) else { return false };
                match below(r, 3) {
                    0 => { let k = below(r, hex.len() as u64) as usize; let c = if &hex[k..k + 1] == "0" { "1" } else { "0" }; hex.replace_range(k..k + 1, c) }
                    1 => hex.truncate(hex.len() / 2),
                    _ => hex.push_str("00"),
                }
                resp.raw_proof = Some(hex);
                true
            }
            _ => false,
        }
    }
}

/// Honest responses of the REAL prover (vh-aggregator/c11_prover) altered at the wire level.
/// The in-memory prover calls of this file are cross-checked against the real prover's output.
fn run_random_tx(honest_path: &str, seed: u64, out: &mut Trace, summary: &mut BTreeMap<String, u64>, next_world: &mut u64) {
    let mut r = rng(seed, 13);
    struct Rw {
        wid: u64,
        w: Chain,
        f: Chain,
        offset: u64,
        wl: Option<Forest>,
        fl: Option<Forest>,
        wv: Option<Forest>,
        fv: Option<Forest>,
    }
    let mut worlds: BTreeMap<u64, Rw> = BTreeMap::new();
    for rec in read_ndjson(honest_path) {
        if rec["kind"] == "chain" {
            let w = Chain::from_json(&rec["blocks"]);
            let f = forged_chain(&w, &mut r);
            let offset = rec["offset"].as_u64().unwrap();
            let v2_up_to = rec["v2_up_to"].as_u64().unwrap();
            let legacy_up_to = rec["legacy_up_to"].as_u64();
            let wv = forest(&w, "v2", v2_up_to, offset);
            let fv = forest(&f, "v2", v2_up_to, offset);
            let wl = legacy_up_to.and_then(|u| forest(&w, "legacy", u, offset));
            let fl = legacy_up_to.and_then(|u| forest(&f, "legacy", u, offset));
            // the signed messages of the real signable builders over the real repository
            let real_v2: ProtocolMessage = serde_json::from_value(rec["signed_v2"].clone()).unwrap();
            let real_legacy: Option<ProtocolMessage> = serde_json::from_value(rec["signed_legacy"].clone()).unwrap();
            let same = wv.as_ref().map(|x| &x.signed) == Some(&real_v2) && wl.as_ref().map(|x| &x.signed) == real_legacy.as_ref();
            *summary.entry(if same { "signed_eq_real_builder".into() } else { "signed_ne_real_builder".into() }).or_default() += 1;
            if !same && std::env::var("C11_DEBUG").is_ok() {
                eprintln!("v2 mine {:?}\nv2 real {:?}\nlegacy mine {:?}\nlegacy real {:?}", wv.as_ref().map(|x| &x.signed), real_v2, wl.as_ref().map(|x| &x.signed), real_legacy);
            }
            *next_world += 1;
            let wid = emit_world(out, *next_world, &w, real_legacy.as_ref().zip(legacy_up_to), Some((&real_v2, v2_up_to)), offset).id;
            worlds.insert(rec["id"].as_u64().unwrap(), Rw { wid, w, f, offset, wl, fl, wv, fv });
            continue;
        }
        let rwd = &worlds[&rec["chain"].as_u64().unwrap()];
        let fmt = rec["fmt"].as_str().unwrap();
        let q = rec["q"].as_u64().unwrap();
        let (fw, ff) = match (fmt, &rwd.wl, &rwd.fl, &rwd.wv, &rwd.fv) {
            ("legacy", Some(a), Some(b), _, _) => (a, b),
            ("tx" | "blk", _, _, Some(a), Some(b)) => (a, b),
            _ => continue,
        };
        let (w, wid, offset) = (&rwd.w, rwd.wid, rwd.offset);
        let rw = RandWorld { w, f: &rwd.f, fw, ff, offset };
        let cert_kind = if fmt == "legacy" { "legacy" } else { "v2" };
        let cert_hash = format!("cert-{cert_kind}-{wid}");
        let hashes: Vec<String> = rec["hashes"].as_array().unwrap().iter().map(|h| h.as_str().unwrap().to_string()).collect();
        let mut honest = rec["msg"].clone();
        honest["certificate_hash"] = json!(cert_hash);
        // conformance of the in-memory prover calls with the real prover
        let mine = match fmt {
            "legacy" => msg_legacy(&cert_hash, fw, &hashes),
            "tx" => msg_v2_tx(&cert_hash, w, fw, &hashes, offset),
            _ => msg_v2_blk(&cert_hash, w, fw, &hashes, offset),
        };
        let same = decode_all(fmt, &mine) == decode_all(fmt, &honest);
        *summary.entry(if same { "inmem_prover_eq_real_prover".into() } else { "inmem_prover_ne_real_prover".into() }).or_default() += 1;
        let round = rec["chain"].as_u64().unwrap();
        *summary.entry("random_honest".into()).or_default() += 1;
        out.emit(json!({"kind": "proof", "case": format!("rnd-{round}-{fmt}-{q}-honest"), "src": "random", "world": wid, "fmt": fmt,
            "cert_kind": cert_kind, "ops": [], "predicted": Value::Null, "predicted_verify": Value::Null, "msg": honest.to_string()}));
        // the honest response against the certificate of the other kind
        if q == 0 && ((fmt == "legacy" && rwd.wv.is_some()) || (fmt != "legacy" && rwd.wl.is_some())) {
            let other = if fmt == "legacy" { "v2" } else { "legacy" };
            out.emit(json!({"kind": "proof", "case": format!("rnd-{round}-{fmt}-{q}-othercert"), "src": "random", "world": wid, "fmt": fmt,
                "cert_kind": other, "ops": ["cert_other_kind"], "predicted": Value::Null, "predicted_verify": Value::Null, "msg": honest.to_string()}));
        }
        let base = Resp::from_msg(fmt, &honest);
        for (mi, m) in MUTS.iter().enumerate() {
            // every alteration alone, and stacked with one or two random others
            for stack in 0..2 {
                let mut resp = base.clone();
                let mut ops: Vec<&str> = vec![];
                if !rw.mutate(&mut resp, m, &mut r) {
                    continue;
                }
                ops.push(m);
                for _ in 0..(stack * (1 + below(&mut r, 2))) {
                    let m2 = MUTS[below(&mut r, MUTS.len() as u64) as usize];
                    if rw.mutate(&mut resp, m2, &mut r) {
                        ops.push(m2);
                    }
                }
                match resp.to_msg(&cert_hash) {
                    Some(msg) => {
                        *summary.entry(format!("random_mut:{m}")).or_default() += 1;
                        out.emit(json!({"kind": "proof", "case": format!("rnd-{round}-{fmt}-{q}-{mi}-{stack}"), "src": "random", "world": wid,
                            "fmt": fmt, "cert_kind": cert_kind, "ops": ops, "predicted": Value::Null, "predicted_verify": Value::Null,
                            "msg": msg.to_string()}));
                    }
                    None => *summary.entry("random_unencodable".into()).or_default() += 1,
                }
            }
        }
    }
}

// ------------------------------------------------------------------------------------------
// stake distributions
// ------------------------------------------------------------------------------------------
fn sd_from(v: &Value) -> StakeDistribution {
    v.as_array().unwrap().iter().map(|e| (e["pool"].as_str().unwrap().to_string(), e["stake"].as_u64().unwrap())).collect()
}

fn sd_world(out: &mut Trace, id: u64, dist: &StakeDistribution, epoch: u64) {
    let builder = CardanoStakeDistributionSignableBuilder::new(Arc::new(SdRetr(dist.clone())));
    let signed = rt().block_on(builder.compute_protocol_message(Epoch(epoch))).expect("a non-empty distribution has a root");
    let cert = certificate(&signed, SignedEntityType::CardanoStakeDistribution(Epoch(epoch)), &format!("cert-sd-{id}"));
    let entries: Vec<Value> = dist.iter().map(|(p, s)| json!([p, s])).collect();
    out.emit(json!({"kind": "world", "id": id, "cert_sd": serde_json::to_string(&cert).unwrap(), "truth": {"sd": entries, "epoch": epoch}}));
}

fn sd_msg(id: u64, dist_json: Value, epoch: Value) -> String {
    let mut m = serde_json::to_value(CardanoStakeDistributionMessage::dummy()).unwrap();
    m["certificate_hash"] = json!(format!("cert-sd-{id}"));
    m["epoch"] = epoch;
    m["stake_distribution"] = dist_json;
    m.to_string()
}

fn dist_json(d: &StakeDistribution) -> Value {
    serde_json::to_value(d).unwrap()
}

fn run_sd_cases(path: &str, out: &mut Trace, summary: &mut BTreeMap<String, u64>, next_world: &mut u64) {
    let mut worlds: BTreeMap<String, u64> = BTreeMap::new();
    for (n, c) in read_ndjson(path).iter().enumerate() {
        let key = format!("{}@{}", c["cert"], c["epoch"]);
        let id = *worlds.entry(key).or_insert_with(|| {
            *next_world += 1;
            sd_world(out, *next_world, &sd_from(&c["cert"]), c["epoch"].as_u64().unwrap());
            *next_world
        });
        *summary.entry("tlc_sd_cases".into()).or_default() += 1;
        out.emit(json!({"kind": "stake", "case": format!("tlc-sd-{n}"), "src": "tlc", "world": id, "ops": c["ops"], "predicted": c["impl"],
            "msg": sd_msg(id, dist_json(&sd_from(&c["served"])), c["sepoch"].clone())}));
    }
}

/// every colliding pair of entries found by TLC (MC_ProofsEnc): alone, and next to other pools
fn run_collisions(path: &str, out: &mut Trace, summary: &mut BTreeMap<String, u64>, next_world: &mut u64) {
    for (n, c) in read_ndjson(path).iter().enumerate() {
        for (dir, (x, y)) in [(&c["a"], &c["b"]), (&c["b"], &c["a"])].into_iter().enumerate() {
            for with_others in [false, true] {
                let mut cert = StakeDistribution::new();
                cert.insert(x["pool"].as_str().unwrap().to_string(), x["stake"].as_u64().unwrap());
                let mut served = StakeDistribution::new();
                served.insert(y["pool"].as_str().unwrap().to_string(), y["stake"].as_u64().unwrap());
                if with_others {
                    for (p, s) in [("0pool", 7u64), ("zpool", 9u64)] {
                        cert.insert(p.to_string(), s);
                        served.insert(p.to_string(), s);
                    }
                }
                *next_world += 1;
                sd_world(out, *next_world, &cert, 7);
                *summary.entry("tlc_collision_cases".into()).or_default() += 1;
                out.emit(json!({"kind": "stake", "case": format!("tlc-coll-{n}-{dir}-{with_others}"), "src": "tlc-collision", "world": *next_world,
                    "ops": ["collision"], "predicted": true, "msg": sd_msg(*next_world, dist_json(&served), json!(7))}));
            }
        }
    }
}

const BECH: &[u8] = b"qpzry9x8gf2tvdw0s3jn54khce6mua7l";
fn pool_id(r: &mut ChaCha20Rng) -> String {
    let mut s = String::from("pool1");
    for _ in 0..51 {
        s.push(BECH[below(r, 32) as usize] as char);
    }
    s
}

const SD_MUTS: [&str; 12] = [
    "stake_edit", "pool_id_edit", "pool_add", "pool_remove", "swap_stakes", "epoch", "move_id_digit_to_stake", "move_stake_digit_to_id",
    "move_two_digits", "json_duplicate_key", "stake_extreme", "rename_and_restake",
];

fn run_random_sd(rounds: u64, seed: u64, out: &mut Trace, summary: &mut BTreeMap<String, u64>, next_world: &mut u64) {
    let mut r = rng(seed, 12);
    for round in 0..rounds {
        let n = 1 + below(&mut r, 12);
        let mut dist = StakeDistribution::new();
        for _ in 0..n {
            let stake = match below(&mut r, 5) { 0 => below(&mut r, 10), 1 => below(&mut r, 1000), _ => 1_000_000 + below(&mut r, 70_000_000_000_000) };
            dist.insert(pool_id(&mut r), stake);
        }
        let epoch = 100 + below(&mut r, 500);
        *next_world += 1;
        let id = *next_world;
        sd_world(out, id, &dist, epoch);
        out.emit(json!({"kind": "stake", "case": format!("rnd-sd-{round}-honest"), "src": "random", "world": id, "ops": [], "predicted": Value::Null,
            "msg": sd_msg(id, dist_json(&dist), json!(epoch))}));
        *summary.entry("random_sd_honest".into()).or_default() += 1;
        let pools: Vec<String> = dist.keys().cloned().collect();
        for m in SD_MUTS {
            for rep in 0..3 {
                let mut d = dist.clone();
                let mut e = json!(epoch);
                let mut raw: Option<Value> = None;
                let p = pools[below(&mut r, pools.len() as u64) as usize].clone();
                let s = d[&p];
                let ok = match m {
                    "stake_edit" => { d.insert(p.clone(), match below(&mut r, 3) { 0 => s + 1, 1 => s / 10, _ => s * 10 + below(&mut r, 10) }); d != dist }
                    "pool_id_edit" => { d.remove(&p); let mut q = p.clone(); match below(&mut r, 3) { 0 => q.push('q'), 1 => { q.pop(); } _ => { q.pop(); q.push('z'); } } d.insert(q, s); d != dist }
                    "pool_add" => { d.insert(pool_id(&mut r), 1 + below(&mut r, 1000)); true }
                    "pool_remove" => { if d.len() < 2 { false } else { d.remove(&p); true } }
                    "swap_stakes" => { let q = pools[below(&mut r, pools.len() as u64) as usize].clone(); let t = d[&q]; d.insert(q, s); d.insert(p.clone(), t); d != dist }
                    "epoch" => { e = json!(if below(&mut r, 2) == 0 { epoch + 1 } else { epoch - 1 }); true }
                    // characters moved between the identifier and the adjacent number
                    "move_id_digit_to_stake" | "move_stake_digit_to_id" | "move_two_digits" => {
                        let (mut id, mut st) = (p.clone(), s.to_string());
                        let k = if m == "move_two_digits" { 2 } else { 1 };
                        let mut moved = true;
                        for _ in 0..k {
                            if m == "move_stake_digit_to_id" {
                                if st.len() < 2 || st.as_bytes()[1] == b'0' { moved = false; break }
                                id.push(st.remove(0));
                            } else {
                                let Some(c) = id.chars().last() else { moved = false; break };
                                if !c.is_ascii_digit() || c == '0' || st.len() >= 19 { moved = false; break }
                                id.pop();
                                st.insert(0, c);
                            }
                        }
                        if !moved { false } else {
                            d.remove(&p);
                            d.insert(id, st.parse().unwrap());
                            true
                        }
                    }
                    "json_duplicate_key" => {
                        // the same pool twice in the JSON object: the client keeps one of them
                        let mut txt = String::from("{");
                        for (i, (k, v)) in dist.iter().enumerate() {
                            if i > 0 { txt.push(',') }
                            txt.push_str(&format!("{}:{}", json!(k), v));
                        }
                        txt.push_str(&format!(",{}:{}}}", json!(p), s + 1 + rep));
                        raw = Some(json!({"__raw__": txt}));
                        true
                    }
                    "stake_extreme" => { d.insert(p.clone(), if rep == 0 { u64::MAX } else { 0 }); d != dist }
                    _ => { d.remove(&p); let mut q = p.clone(); q.pop(); d.insert(q, s + 1); true }
                };
                if !ok {
                    continue;
                }
                *summary.entry(format!("random_sd_mut:{m}")).or_default() += 1;
                let msg = match raw {
                    Some(rawv) => {
                        // splice the raw object text into the message
                        let m0 = sd_msg(id, json!("@@SD@@"), e.clone());
                        m0.replace("\"@@SD@@\"", rawv["__raw__"].as_str().unwrap())
                    }
                    None => sd_msg(id, dist_json(&d), e.clone()),
                };
                out.emit(json!({"kind": "stake", "case": format!("rnd-sd-{round}-{m}-{rep}"), "src": "random", "world": id, "ops": [m], "predicted": Value::Null, "msg": msg}));
            }
        }
    }
}

fn main() {
    let args = Args::parse();
    let mut out = Trace::create(args.req("out"));
    let seed = args.num("seed", 1);
    let mut summary: BTreeMap<String, u64> = BTreeMap::new();
    let mut next_world = 0u64;
    if let Some(p) = args.get("tx-cases") {
        run_tx_cases(&p, &mut out, &mut summary, &mut next_world);
    }
    if let Some(p) = args.get("sd-cases") {
        run_sd_cases(&p, &mut out, &mut summary, &mut next_world);
    }
    if let Some(p) = args.get("collisions") {
        run_collisions(&p, &mut out, &mut summary, &mut next_world);
    }
    if let Some(p) = args.get("honest-from") {
        run_random_tx(&p, seed, &mut out, &mut summary, &mut next_world);
    }
    let rounds = args.num("sd-rounds", 0);
    if rounds > 0 {
        run_random_sd(rounds, seed, &mut out, &mut summary, &mut next_world);
    }
    summary.insert("worlds".into(), next_world);
    summary.insert("records".into(), out.finish());
    println!("{}", serde_json::to_string(&summary).unwrap());
}
