//! SYS (C20 + C14 composed) — the protocol loop: REAL signer runtimes against the REAL aggregator runtime.
//!
//! ONE process holds
//!   * the real aggregator, wired through the repository's own `RuntimeTester` (as harness/vh-aggregator/aggkit.rs),
//!     together with its REAL HTTP routes (`DependenciesBuilder::create_http_routes`, built from the same dependency
//!     builder as the runtime, so that the routes and the state machine share every service: epoch service,
//!     registration round, certifier, authenticator, stores);
//!   * NSIGNERS real signer runtimes (the wiring of harness/vh-signer/signerkit.rs, shared with c20_signer.rs): real
//!     state machine, runner, certifier, epoch service, sqlite on disk, real `AggregatorHttpClient` over loopback HTTP;
//!   * a FRONT DOOR (axum, one stable address) that hands every request as is to the aggregator's current warp routes
//!     (they are replaced when the aggregator restarts), records the POSTed messages with the aggregator's answer,
//!     and can lose one answer on the way back (`reg_lost` / `pub_lost`: request processed, the signer sees a 500);
//!   * ONE fake chain observer / immutable observer / digester shared by all nodes.  Every node is ticked separately:
//!     which node observes a new epoch first is part of the schedule.
//!
//! Nothing but the genesis (fixture keys recorded for epochs 0 and 1, the matching initializers and stake
//! distributions seeded into the signers' stores as if they had registered before the genesis, the genesis
//! certificate itself) is produced by the harness: every registration, every signature, every certificate comes from
//! the code under test.
//!
//! After every stimulus the whole abstract state is projected: (i) the aggregator with aggkit's `project`, plus its
//! registration / parameter tables and what every certificate carries; (ii) every signer as c20_signer does; (iii) for
//! every request a signer POSTed: the aggregator's answer and the verdict of the protocol (offsets as LITERALS here)
//! on it.  TLC validates the trace against spec/system/ProtocolTrace.tla.
#[allow(unused_macros, unused_imports)]
#[path = "/repo/mithril-aggregator/tests/test_extensions/mod.rs"]
#[macro_use]
mod test_extensions;

#[path = "../../../vh-aggregator/src/aggkit.rs"]
mod aggkit;

#[path = "../../../vh-signer/src/signerkit.rs"]
mod signerkit;

use std::collections::{BTreeMap, BTreeSet};
use std::future::Future;
use std::path::{Path, PathBuf};
use std::pin::Pin;
use std::sync::{Arc, Mutex};

use axum::{
    Router,
    extract::State,
    http::{self, Method, StatusCode},
    response::IntoResponse,
    routing::any,
};
use axum_test::TestServer;
use bytes::Bytes;
use http_body_util::{BodyExt, Full};
use tokio::sync::RwLock;

use mithril_aggregator::{
    ConfigurationSource, ServeCommandConfiguration,
    dependency_injection::{DependenciesBuilder, EpochServiceWrapper},
    services::FakeSnapshotter,
};
use mithril_cardano_node_chain::{entities::ScannedBlock, test::double::DumbBlockScanner};
use mithril_cardano_node_internal_database::signable_builder::CardanoDatabaseSignableBuilder;
use mithril_common::{
    crypto_helper::{ProtocolAggregateVerificationKeyForConcatenation, ProtocolInitializer, ProtocolSignerVerificationKeyForConcatenation},
    entities::{
        BlockNumber, CardanoDbBeacon, Certificate, ChainPoint, Epoch, PartyId, ProtocolMessage, ProtocolMessagePartKey, ProtocolParameters,
        SignedEntityType, SignedEntityTypeDiscriminants, Signer, SignerWithStake, SingleSignature, SingleSignatureAuthenticationStatus,
        SlotNumber, StakeDistribution, TimePoint,
    },
    messages::{RegisterSignatureMessageHttp, RegisterSignerMessage, SignedEntityTypeMessage, SignerMessagePart},
    protocol::{MultiSigner, SignerBuilder},
    signable_builder::SignableBuilder,
    test::builder::{MithrilFixture, MithrilFixtureBuilder, StakeDistributionGenerationMethod},
};
use mithril_era::EraReader;
use mithril_signer::{SignerState, services::EpochService};
use mithril_ticker::{MithrilTickerService, TickerService};
use test_extensions::{AggregatorObserver, RuntimeTester};
use vh_core::{Args, ChaCha20Rng, Trace, Value, below, json, read_ndjson, rng};

use signerkit::{SignerProc, SignerWiring};

const NSIGNERS: usize = 3; // node n (1-based) runs the signer of fixture party n - 1; node 0 is the aggregator
const CORE: usize = 1; //     nodes 1..=CORE are never taken offline by a schedule

// The protocol's epoch offsets, as literals: the verdicts must not follow the code under test.
const RECORDING_OFFSET: u64 = 1; // a registration made during epoch e is recorded for e + 1
const RETRIEVAL_BACK: u64 = 1; //   the signers of epoch e are those recorded for e - 1
//                                  the next signers of epoch e are those recorded for e

/// undisturbed round-robin rounds (every running node cycles once) within which the work of an epoch must be done:
/// spec/system/MC_Protocol_rounds.cfg establishes 5 on the model (RoundsBound; 4 is violated), the harness grants twice that
const PACE_ROUNDS: usize = 10;

/// the two parameter generations (as in c20_signer.rs): a signature made under one is rejected under the other,
/// whoever signs still wins some lottery (p(no index) < 1e-9)
fn generation(g: u8) -> ProtocolParameters {
    match g {
        1 => ProtocolParameters { k: 2, m: 30, phi_f: 0.95 },
        2 => ProtocolParameters { k: 2, m: 100, phi_f: 0.5 },
        other => panic!("no parameter generation {other}"),
    }
}

fn generation_of(p: &ProtocolParameters) -> u8 {
    (1..=2u8).find(|g| generation(*g) == *p).unwrap_or(0)
}

/// the Cardano stake distribution in force during chain epoch `x`: the fixture's own in epoch 1 (the genesis keys embed
/// it), then varying with the epoch so that the epoch under which a distribution is stored / retrieved matters
fn stake_distribution(fixture: &MithrilFixture, x: u64) -> Vec<SignerWithStake> {
    fixture
        .signers_with_stake()
        .into_iter()
        .enumerate()
        .map(|(i, mut s)| {
            if x >= 2 {
                s.stake += 10 * ((x * (i as u64 + 2)) % 7) + x;
            }
            s
        })
        .collect()
}

fn blocks(range: std::ops::RangeInclusive<u64>) -> Vec<ScannedBlock> {
    range
        .map(|n| ScannedBlock::new(format!("block_hash-{n}"), BlockNumber(n), SlotNumber(n), vec![format!("tx_hash-{n}-1")]))
        .collect()
}

fn entity_name(t: &SignedEntityType) -> String {
    aggkit::entity_name(t)
}

// -------------------------------------------------------------------------------------------
// the front door
// -------------------------------------------------------------------------------------------
type Inner = Arc<dyn Fn(http::Request<Full<Bytes>>) -> Pin<Box<dyn Future<Output = http::Response<Bytes>> + Send>> + Send + Sync>;

struct RegRequest {
    message: Option<RegisterSignerMessage>,
    status: u16,
    answered: u16,
    body: String,
}

struct SigRequest {
    message: Option<RegisterSignatureMessageHttp>,
    status: u16,
    answered: u16,
    body: String,
}

#[derive(Default)]
struct FrontLog {
    fault: String,
    regs: Vec<RegRequest>,
    sigs: Vec<SigRequest>,
    calls: BTreeMap<String, u64>,
    lost: BTreeMap<String, u64>,
}

#[derive(Clone)]
struct Front {
    inner: Arc<RwLock<Option<Inner>>>,
    log: Arc<Mutex<FrontLog>>,
}

fn route_class(path: &str) -> String {
    let p = path.trim_start_matches("/aggregator");
    let mut parts: Vec<&str> = p.split('/').filter(|s| !s.is_empty()).collect();
    if parts.len() > 1 {
        parts.truncate(1);
        format!("/{}/*", parts[0])
    } else {
        format!("/{}", parts.first().copied().unwrap_or(""))
    }
}

async fn forward(State(front): State<Front>, req: axum::extract::Request) -> axum::response::Response {
    let (parts, body) = req.into_parts();
    let bytes = axum::body::to_bytes(body, 16 << 20).await.unwrap_or_default();
    let path = parts.uri.path().to_string();
    let method = parts.method.clone();
    let Some(inner) = front.inner.read().await.clone() else {
        return StatusCode::SERVICE_UNAVAILABLE.into_response();
    };
    let resp = inner(http::Request::from_parts(parts, Full::new(bytes.clone()))).await;
    let status = resp.status().as_u16();
    let text: String = String::from_utf8_lossy(resp.body()).chars().take(240).collect();
    let mut answered = status;
    {
        let mut log = front.log.lock().unwrap();
        *log.calls.entry(format!("{} {} {}", method, route_class(&path), status)).or_default() += 1;
        if method == Method::POST && path.ends_with("/register-signer") {
            if log.fault == "reg_lost" && status == 201 {
                answered = 500;
                *log.lost.entry("reg_lost".into()).or_default() += 1;
            }
            log.regs.push(RegRequest { message: serde_json::from_slice(&bytes).ok(), status, answered, body: text });
        } else if method == Method::POST && path.ends_with("/register-signatures") {
            if log.fault == "pub_lost" && (status == 201 || status == 202) {
                answered = 500;
                *log.lost.entry("pub_lost".into()).or_default() += 1;
            }
            log.sigs.push(SigRequest { message: serde_json::from_slice(&bytes).ok(), status, answered, body: text });
        }
    }
    if answered != status {
        return (StatusCode::INTERNAL_SERVER_ERROR, "answer lost").into_response();
    }
    let (p, b) = resp.into_parts();
    axum::response::Response::from_parts(p, axum::body::Body::from(b))
}

/// What `RuntimeTester::rebuild` does (every in-memory object dropped and rebuilt from the database, the test doubles
/// kept) -- and, from the SAME dependency builder, the aggregator's real HTTP routes.
async fn rebuild_with_routes(t: &mut RuntimeTester, configuration: ServeCommandConfiguration) -> (Inner, EpochServiceWrapper) {
    let snapshotter = Arc::new(FakeSnapshotter::new(configuration.get_snapshot_dir().unwrap().join("fake_snapshots")));
    let mut deps_builder = DependenciesBuilder::new(slog_scope::logger(), Arc::new(configuration));
    deps_builder.snapshotter = Some(snapshotter);
    deps_builder.snapshot_uploader = Some(t.snapshot_uploader.clone());
    deps_builder.chain_observer = Some(t.chain_observer.clone());
    deps_builder.immutable_file_observer = Some(t.immutable_file_observer.clone());
    deps_builder.immutable_digester = Some(t.digester.clone());
    deps_builder.era_reader = Some(Arc::new(EraReader::new(t.era_reader_adapter.clone())));
    deps_builder.block_scanner = Some(t.block_scanner.clone());
    deps_builder.metrics_service = Some(t.metrics_service.clone());
    t.dependencies = deps_builder.build_serve_dependencies_container().await.unwrap();
    t.runtime = deps_builder.create_aggregator_runner().await.unwrap();
    t.observer = Arc::new(AggregatorObserver::new(&mut deps_builder).await);
    t.open_message_repository = deps_builder.get_open_message_repository().await.unwrap();
    let epoch_service = deps_builder.get_epoch_service().await.unwrap();
    let routes = deps_builder.create_http_routes().await.unwrap();
    let service = warp::service(routes);
    let inner: Inner = Arc::new(move |req| {
        let mut s = service.clone();
        Box::pin(async move {
            let resp = match tower_service::Service::call(&mut s, req).await {
                Ok(r) => r,
                Err(never) => match never {},
            };
            let (p, b) = resp.into_parts();
            let bytes = b.collect().await.map(|c| c.to_bytes()).unwrap_or_default();
            http::Response::from_parts(p, bytes)
        })
    });
    (inner, epoch_service)
}

// -------------------------------------------------------------------------------------------
// the system
// -------------------------------------------------------------------------------------------
struct Node {
    wiring: SignerWiring,
    proc: Option<SignerProc>,
    /// the projection of the persisted state, kept while the process is away
    last: Value,
    /// stored initializers as last read (recording epoch -> initializer)
    stored: Vec<(u64, ProtocolInitializer)>,
}

thread_local! {
    static IN_CYCLE: std::cell::Cell<bool> = const { std::cell::Cell::new(false) };
}

struct Sys {
    h: aggkit::Harness,
    /// the aggregator's epoch service (the one its runtime and its routes use)
    agg_epoch_service: EpochServiceWrapper,
    cfg_gen: u8,
    front: Front,
    _server: TestServer,
    ticker: Arc<MithrilTickerService>,
    nodes: Vec<Node>,
    fixture: MithrilFixture,
    /// stake distribution in force during each chain epoch seen so far
    stakes: BTreeMap<u64, Vec<SignerWithStake>>,
    // ---- ground truth from the front door: accepted registrations, by the epoch the request NAMED (last one wins)
    reg_truth: BTreeMap<u64, BTreeMap<PartyId, (SignerMessagePart, u64)>>, // -> (registration, chain epoch at receipt)
    reg_version: BTreeMap<u64, u64>,
    regs_done: usize,
    sigs_done: usize,
    // ---- projection helpers
    key_ids: BTreeMap<String, usize>,
    avk_ids: BTreeMap<String, usize>,
    sigma_ids: BTreeMap<String, usize>,
    set_cache: BTreeMap<(u64, u64, u8), Option<(Arc<SignerBuilder>, Arc<MultiSigner>)>>,
    certx: BTreeMap<String, Value>,
    npubs: usize,
    nregs: usize,
    restarts: u64,
    panics: u64,
}

fn vk_hex_of_part(vk: &str) -> String {
    // the wire carries the key as hex; normalise through the typed key
    let typed: Result<ProtocolSignerVerificationKeyForConcatenation, _> = vk.to_string().try_into();
    typed.ok().and_then(|k| k.to_json_hex().ok()).unwrap_or_else(|| format!("undecodable:{vk}"))
}

impl Sys {
    async fn new(dir: PathBuf) -> Sys {
        let _ = std::fs::remove_dir_all(&dir);
        std::fs::create_dir_all(dir.join("agg").join("stores")).unwrap();
        let params = generation(1);
        let config = ServeCommandConfiguration {
            protocol_parameters: Some(params.clone()),
            signed_entity_types: Some(format!("{}", SignedEntityTypeDiscriminants::CardanoDatabase)),
            data_stores_directory: dir.join("agg").join("stores"),
            ..ServeCommandConfiguration::new_sample(dir.join("agg").join("sample"))
        };
        let start = TimePoint {
            epoch: Epoch(1),
            immutable_file_number: 1,
            chain_point: ChainPoint { slot_number: SlotNumber(100), block_number: BlockNumber(100), block_hash: "block_hash-100".to_string() },
        };
        let mut tester = RuntimeTester::build(start, config.clone()).await;
        // equal stakes: with either parameter generation ONE signer wins k lotteries (p(fewer) < 1e-7), so that which
        // signatures are there when the aggregator looks never depends on the luck of freshly generated keys
        let fixture = MithrilFixtureBuilder::default()
            .with_signers(NSIGNERS)
            .with_protocol_parameters(params.clone())
            .with_stake_distribution(StakeDistributionGenerationMethod::Uniform(1000))
            .build();
        tester.init_state_from_fixture(&fixture).await.unwrap();
        tester.register_genesis_certificate(&fixture).await.unwrap();
        tester.update_digester_digest().await;
        tester.update_digester_merkle_tree().await;
        // the process as it will run: runtime + routes from one dependency builder
        let (inner, agg_epoch_service) = rebuild_with_routes(&mut tester, config.clone()).await;
        let front = Front { inner: Arc::new(RwLock::new(Some(inner))), log: Arc::new(Mutex::new(FrontLog { fault: "none".into(), ..Default::default() })) };
        let router = Router::new().fallback(any(forward)).with_state(front.clone());
        let server = TestServer::builder().http_transport().build(router);
        let url = format!("{}aggregator", server.server_address().unwrap());
        let ticker = Arc::new(MithrilTickerService::new(tester.chain_observer.clone(), tester.immutable_file_observer.clone()));
        let db_path = dir.join("agg").join("stores").join("aggregator.sqlite3");
        let mut nodes = vec![];
        for i in 0..NSIGNERS {
            let block_scanner = Arc::new(DumbBlockScanner::new());
            block_scanner.add_forwards(vec![blocks(1..=100)]);
            let sdir = dir.join(format!("s{}", i + 1));
            std::fs::create_dir_all(sdir.join("stores")).unwrap();
            let wiring = SignerWiring {
                dir: sdir,
                party_id: fixture.signers_with_stake()[i].party_id.clone(),
                url: url.clone(),
                chain: tester.chain_observer.clone(),
                ticker: ticker.clone(),
                block_scanner,
                digester: tester.digester.clone(),
            };
            let proc = signerkit::start_signer(&wiring).await;
            // as if the signer had registered its genesis key before the genesis: the initializer and the stake
            // distribution of the two epochs the genesis certificate stands for
            let f = &fixture.signers_fixture()[i];
            let distribution: StakeDistribution = fixture.signers_with_stake().iter().map(|s| (s.party_id.clone(), s.stake)).collect();
            for e in 0..=1u64 {
                proc.protocol_initializer_store.save_protocol_initializer(Epoch(e), f.protocol_initializer.clone()).await.unwrap();
                proc.stake_store.save_stakes(Epoch(e), distribution.clone()).await.unwrap();
            }
            nodes.push(Node { wiring, proc: Some(proc), last: Value::Null, stored: vec![] });
        }
        let mut stakes = BTreeMap::new();
        stakes.insert(0, fixture.signers_with_stake());
        stakes.insert(1, fixture.signers_with_stake());
        // the genesis registrations: fixture keys recorded for epochs 0 and 1
        let mut reg_truth: BTreeMap<u64, BTreeMap<PartyId, (SignerMessagePart, u64)>> = BTreeMap::new();
        for e in 0..=1u64 {
            for s in fixture.signers_with_stake() {
                let signer: Signer = s.clone().into();
                reg_truth.entry(e).or_default().insert(s.party_id.clone(), (signer.into(), e.saturating_sub(1)));
            }
        }
        let mut h = aggkit::Harness::from_parts(tester, config, fixture.clone(), params, db_path);
        for e in 0..=1u64 {
            h.recorded.insert(e, (0..NSIGNERS).collect());
        }
        Sys {
            h,
            agg_epoch_service,
            cfg_gen: 1,
            front,
            _server: server,
            ticker,
            nodes,
            fixture,
            stakes,
            reg_truth,
            reg_version: BTreeMap::new(),
            regs_done: 0,
            sigs_done: 0,
            key_ids: BTreeMap::new(),
            avk_ids: BTreeMap::new(),
            sigma_ids: BTreeMap::new(),
            set_cache: BTreeMap::new(),
            certx: BTreeMap::new(),
            npubs: 0,
            nregs: 0,
            restarts: 0,
            panics: 0,
        }
    }

    fn key_id(&mut self, vk_hex: &str) -> usize {
        let n = self.key_ids.len();
        *self.key_ids.entry(vk_hex.to_string()).or_insert(n + 1)
    }

    fn avk_id(&mut self, hex: &str) -> usize {
        if hex.is_empty() {
            return 0;
        }
        let n = self.avk_ids.len();
        *self.avk_ids.entry(hex.to_string()).or_insert(n + 1)
    }

    fn party_index(&self, party_id: &str) -> i64 {
        self.h.party_index(party_id)
    }

    async fn chain_epoch(&self) -> u64 {
        *self.ticker.get_current_epoch().await.unwrap()
    }

    async fn agg_epoch(&self) -> u64 {
        self.agg_epoch_service.read().await.epoch_of_current_data().map(|e| *e).unwrap_or(0)
    }

    // ---------------------------------------------------------------------------------------
    // what the aggregator's own tables hold (read independently of its repositories)
    // ---------------------------------------------------------------------------------------
    fn agg_tables(&mut self) -> (Vec<(u64, PartyId, String, u64)>, BTreeMap<u64, ProtocolParameters>) {
        let conn = sqlite::open(&self.h.db_path).unwrap();
        let mut regs = vec![];
        for r in conn
            .prepare("select signer_id, cast(epoch_setting_id as integer), cast(verification_key as text), cast(coalesce(stake, 0) as integer) from signer_registration order by epoch_setting_id, signer_id")
            .unwrap()
            .into_iter()
        {
            let r = r.unwrap();
            // the column holds the key as JSON text (a quoted hex string)
            let raw = r.read::<&str, _>(2).to_string();
            let vk = serde_json::from_str::<String>(&raw).unwrap_or(raw);
            regs.push((r.read::<i64, _>(1) as u64, r.read::<&str, _>(0).to_string(), vk_hex_of_part(&vk), r.read::<i64, _>(3) as u64));
        }
        let mut params = BTreeMap::new();
        for r in conn.prepare("select cast(epoch_setting_id as integer), cast(protocol_parameters as text) from epoch_setting order by epoch_setting_id").unwrap().into_iter() {
            let r = r.unwrap();
            if let Ok(p) = serde_json::from_str::<ProtocolParameters>(r.read::<&str, _>(1)) {
                params.insert(r.read::<i64, _>(0) as u64, p);
            }
        }
        (regs, params)
    }

    /// state of the open message of every entity: "open" | "certified" | "expired"
    fn open_states(&self) -> BTreeMap<String, &'static str> {
        let conn = sqlite::open(&self.h.db_path).unwrap();
        let mut out = BTreeMap::new();
        for r in conn
            .prepare("select cast(signed_entity_type_id as integer), cast(beacon as text), cast(is_certified as integer), cast(is_expired as integer), coalesce(cast(expires_at as text), '') from open_message order by rowid")
            .unwrap()
            .into_iter()
        {
            let r = r.unwrap();
            let kind = match r.read::<i64, _>(0) {
                0 => "MSD",
                1 => "CSD",
                2 => "CIF",
                3 => "CTX",
                4 => "CDB",
                _ => "CBT",
            };
            let name = format!("{}:{}", kind, r.read::<&str, _>(1).replace('"', ""));
            // (expired: the flag, or the ground truth it stands for -- the expiry date of the row has passed)
            let past_expiry = chrono::DateTime::parse_from_rfc3339(r.read::<&str, _>(4)).map(|t| t < chrono::Utc::now()).unwrap_or(false);
            let st = if r.read::<i64, _>(2) != 0 { "certified" } else if r.read::<i64, _>(3) != 0 || past_expiry { "expired" } else { "open" };
            out.insert(name, st);
        }
        out
    }

    // ---------------------------------------------------------------------------------------
    // the protocol's view: signer sets derived from the registrations that were accepted at the front door
    // ---------------------------------------------------------------------------------------
    /// the signer set of recording epoch `rec`: the LAST accepted registration of every party that named `rec`, with the
    /// stake distribution in force when it was made; verifier with the parameters `params`
    fn derived_set(&mut self, rec: u64, params: &ProtocolParameters) -> Option<(Arc<SignerBuilder>, Arc<MultiSigner>)> {
        let version = self.reg_version.get(&rec).copied().unwrap_or(0);
        let key = (rec, version, generation_of(params));
        if !self.set_cache.contains_key(&key) {
            let mut signers = vec![];
            let mut ok = true;
            for (party, (part, at)) in self.reg_truth.get(&rec).cloned().unwrap_or_default() {
                let signer: Result<Signer, _> = part.try_into();
                let stake = self.stakes.get(&at).and_then(|d| d.iter().find(|s| s.party_id == party)).map(|s| s.stake);
                match (signer, stake) {
                    (Ok(signer), Some(stake)) => signers.push(SignerWithStake::from_signer(signer, stake)),
                    _ => ok = false,
                }
            }
            let built = if ok && !signers.is_empty() {
                SignerBuilder::new(&signers, params).ok().map(|b| {
                    let ms = b.build_multi_signer();
                    (Arc::new(b), Arc::new(ms))
                })
            } else {
                None
            };
            self.set_cache.insert(key, built);
        }
        self.set_cache[&key].clone()
    }

    fn derived_avk_hex(&mut self, rec: u64) -> Option<String> {
        // (the aggregate key does not depend on the protocol parameters)
        let (b, _) = self.derived_set(rec, &generation(1))?;
        let avk: ProtocolAggregateVerificationKeyForConcatenation =
            b.compute_aggregate_verification_key().to_concatenation_aggregate_verification_key().to_owned().into();
        avk.to_json_hex().ok()
    }

    /// the message of `entity` under the protocol: its own content, the aggregate key of the set recorded for its epoch
    /// as next key, the parameters the aggregator keeps for its epoch as next parameters
    async fn protocol_message(&mut self, entity: &SignedEntityType, agg_params: &BTreeMap<u64, ProtocolParameters>) -> Option<String> {
        let epoch = *entity.get_epoch_when_signed_entity_type_is_signed();
        let mut message = match entity {
            SignedEntityType::MithrilStakeDistribution(_) => ProtocolMessage::new(),
            SignedEntityType::CardanoDatabase(beacon) => CardanoDatabaseSignableBuilder::new(self.h.tester.digester.clone(), Path::new(""), signerkit::logger())
                .compute_protocol_message(beacon.clone())
                .await
                .ok()?,
            _ => return None,
        };
        message.set_message_part(ProtocolMessagePartKey::NextAggregateVerificationKey, self.derived_avk_hex(epoch)?);
        message.set_message_part(ProtocolMessagePartKey::NextProtocolParameters, agg_params.get(&epoch)?.compute_hash());
        message.set_message_part(ProtocolMessagePartKey::CurrentEpoch, epoch.to_string());
        Some(message.compute_hash())
    }

    // ---------------------------------------------------------------------------------------
    // stimuli
    // ---------------------------------------------------------------------------------------
    async fn settle(&self) {
        // let the spawned artifact task run to completion before observing: it holds the lock of its signed entity type,
        // and a locked type is skipped by the next cycle (no stop points are used here, so every standard certificate
        // gets its artifact; the wait is bounded in case the task failed)
        for _ in 0..20 {
            tokio::task::yield_now().await;
        }
        for _ in 0..150 {
            tokio::time::sleep(std::time::Duration::from_millis(2)).await;
            let conn = sqlite::open(&self.h.db_path).unwrap();
            let count = |sql: &str| conn.prepare(sql).ok().and_then(|st| st.into_iter().next()).and_then(|r| r.ok()).map(|r| r.read::<i64, _>(0)).unwrap_or(0);
            let std_certs = count("select count(*) from certificate where parent_certificate_id is not null");
            let artifacts = count("select count(*) from signed_entity");
            if artifacts >= std_certs {
                break;
            }
        }
        for _ in 0..5 {
            tokio::task::yield_now().await;
        }
    }

    async fn act(&mut self, a: &Value) -> Value {
        let node = a["node"].as_u64().unwrap_or(0) as usize;
        match a["a"].as_str().unwrap() {
            "Tick" if node == 0 => {
                let r = self.h.tester.cycle().await;
                self.settle().await;
                match r {
                    Ok(()) => json!({"ok": true, "err": ""}),
                    Err(e) => {
                        let t = format!("{e:#}");
                        json!({"ok": false, "err": t.chars().skip(t.find("message =").unwrap_or(0)).take(200).collect::<String>()})
                    }
                }
            }
            "Tick" => {
                if self.nodes[node - 1].proc.is_none() {
                    return json!({"ok": false, "err": "offline", "skipped": true});
                }
                let fault = a["fault"].as_str().unwrap_or("none").to_string();
                self.front.log.lock().unwrap().fault = fault;
                let r = {
                    use futures::FutureExt;
                    IN_CYCLE.with(|c| c.set(true));
                    let r = std::panic::AssertUnwindSafe(self.nodes[node - 1].proc.as_ref().unwrap().state_machine.cycle()).catch_unwind().await;
                    IN_CYCLE.with(|c| c.set(false));
                    r
                };
                self.front.log.lock().unwrap().fault = "none".into();
                match r {
                    Ok(Ok(())) => json!({"ok": true, "err": "", "critical": false, "panic": false}),
                    Ok(Err(e)) => {
                        let t = format!("{e}");
                        json!({"ok": false, "critical": e.is_critical(), "panic": false, "err": t.chars().take(200).collect::<String>()})
                    }
                    Err(p) => {
                        // a panic of the code under test is data: it ends the process, which is then restarted
                        let msg = p.downcast_ref::<String>().cloned().or_else(|| p.downcast_ref::<&str>().map(|s| s.to_string())).unwrap_or_default();
                        self.nodes[node - 1].proc = None;
                        self.nodes[node - 1].proc = Some(signerkit::start_signer(&self.nodes[node - 1].wiring).await);
                        self.panics += 1;
                        json!({"ok": false, "critical": true, "panic": true, "err": msg.chars().take(200).collect::<String>()})
                    }
                }
            }
            "EpochUp" => {
                let e = *self.h.tester.increase_epoch().await.unwrap();
                let d = stake_distribution(&self.fixture, e);
                self.h.tester.chain_observer.set_signers(d.clone()).await;
                self.stakes.insert(e, d);
                json!({"ok": true})
            }
            "ImmUp" => {
                self.h.tester.increase_immutable_number().await.unwrap();
                json!({"ok": true})
            }
            "Restart" if node == 0 => {
                // the aggregator process stops and starts again, possibly with other protocol parameters configured
                if a["flip"].as_bool().unwrap_or(false) {
                    self.cfg_gen = 3 - self.cfg_gen;
                }
                let mut config = self.h.config.clone();
                config.protocol_parameters = Some(generation(self.cfg_gen));
                self.h.config = config.clone();
                *self.front.inner.write().await = None;
                let (inner, epoch_service) = rebuild_with_routes(&mut self.h.tester, config).await;
                *self.front.inner.write().await = Some(inner);
                self.agg_epoch_service = epoch_service;
                self.h.verified.clear();
                self.restarts += 1;
                json!({"ok": true, "cfg_gen": self.cfg_gen})
            }
            "Restart" => {
                if self.nodes[node - 1].proc.is_some() {
                    self.nodes[node - 1].proc = None;
                    self.nodes[node - 1].proc = Some(signerkit::start_signer(&self.nodes[node - 1].wiring).await);
                    self.restarts += 1;
                }
                json!({"ok": true})
            }
            "Offline" => {
                self.nodes[node - 1].proc = None;
                json!({"ok": true})
            }
            "Online" => {
                if self.nodes[node - 1].proc.is_none() {
                    self.nodes[node - 1].proc = Some(signerkit::start_signer(&self.nodes[node - 1].wiring).await);
                }
                json!({"ok": true})
            }
            other => panic!("unknown action {other}"),
        }
    }

    // ---------------------------------------------------------------------------------------
    // projection
    // ---------------------------------------------------------------------------------------
    async fn project_signer(&mut self, i: usize) -> Value {
        if self.nodes[i].proc.is_none() {
            let mut v = self.nodes[i].last.clone();
            v["up"] = json!(false);
            v["state"] = json!("Offline");
            v["state_epoch"] = json!(0);
            v["data_epoch"] = json!(0);
            return v;
        }
        let (label, state_epoch, data_epoch, mut stored) = {
            let p = self.nodes[i].proc.as_ref().unwrap();
            let (label, state_epoch) = match p.state_machine.get_state().await {
                SignerState::Init => ("Init", 0),
                SignerState::Unregistered { epoch } => ("Unregistered", *epoch),
                SignerState::ReadyToSign { epoch } => ("ReadyToSign", *epoch),
                SignerState::RegisteredNotAbleToSign { epoch } => ("RegisteredNotAbleToSign", *epoch),
            };
            let data_epoch = p.epoch_service.read().await.epoch_of_current_data().map(|e| *e).unwrap_or(0);
            let stored: Vec<(u64, ProtocolInitializer)> =
                p.protocol_initializer_store.get_last_protocol_initializer(1000).await.unwrap().into_iter().map(|(e, i)| (*e, i)).collect();
            (label, state_epoch, data_epoch, stored)
        };
        stored.sort_by_key(|(e, _)| *e);
        let mut inits = vec![];
        for (e, init) in &stored {
            let vk: ProtocolSignerVerificationKeyForConcatenation = init.verification_key_for_concatenation().into();
            let id = self.key_id(&vk.to_json_hex().unwrap());
            // the parameters a key signs with are those embedded in its initializer
            let embedded: ProtocolParameters = init.get_protocol_parameters().into();
            inits.push(json!({"epoch": e, "key": id, "gen": generation_of(&embedded)}));
        }
        // beacons marked as signed (signer sqlite, read independently of the repository)
        let mut signed = vec![];
        {
            let conn = sqlite::open(self.nodes[i].wiring.dir.join("stores").join("signer.db")).unwrap();
            for r in conn
                .prepare("select cast(signed_entity_type_id as integer), cast(beacon as text) from signed_beacon order by rowid")
                .unwrap()
                .into_iter()
            {
                let r = r.unwrap();
                let beacon = r.read::<&str, _>(1).to_string();
                let (name, ee) = match r.read::<i64, _>(0) {
                    0 => {
                        let e: u64 = beacon.trim_matches('"').parse().unwrap_or(0);
                        (entity_name(&SignedEntityType::MithrilStakeDistribution(Epoch(e))), e)
                    }
                    4 => {
                        let v: Value = serde_json::from_str(&beacon).unwrap_or(Value::Null);
                        let (e, n) = (v["epoch"].as_u64().unwrap_or(0), v["immutable_file_number"].as_u64().unwrap_or(0));
                        (entity_name(&SignedEntityType::CardanoDatabase(CardanoDbBeacon::new(e, n))), e)
                    }
                    t => (format!("T{t}:{beacon}"), 0),
                };
                signed.push(json!({"entity": name, "ee": ee}));
            }
        }
        self.nodes[i].stored = stored;
        let v = json!({"node": i + 1, "up": true, "state": label, "state_epoch": state_epoch, "data_epoch": data_epoch, "inits": inits, "signed": signed});
        self.nodes[i].last = v.clone();
        v
    }

    /// the requests the signers POSTed since the last observation, each with the aggregator's answer and the protocol's
    /// verdict.  `pre_agg_epoch` / `pre_open`: the aggregator's epoch and open messages when they arrived.
    async fn new_requests(&mut self, pre_agg_epoch: u64, pre_open: &BTreeMap<String, &'static str>) -> (Vec<Value>, Vec<Value>) {
        let chain_epoch = self.chain_epoch().await;
        let (regs, sigs): (Vec<(Option<RegisterSignerMessage>, u16, u16, String)>, Vec<(Option<RegisterSignatureMessageHttp>, u16, u16, String)>) = {
            let log = self.front.log.lock().unwrap();
            (
                log.regs[self.regs_done..].iter().map(|r| (r.message.clone(), r.status, r.answered, r.body.clone())).collect(),
                log.sigs[self.sigs_done..].iter().map(|r| (r.message.clone(), r.status, r.answered, r.body.clone())).collect(),
            )
        };
        self.regs_done += regs.len();
        self.sigs_done += sigs.len();
        let mut new_regs = vec![];
        for (m, status, answered, body) in regs {
            self.nregs += 1;
            let Some(m) = m else {
                new_regs.push(json!({"n": self.nregs, "decoded": false, "status": status, "answered": answered, "signer": -1, "named": 0, "key": 0,
                                     "chain_epoch": chain_epoch, "agg_epoch": pre_agg_epoch, "why": body}));
                continue;
            };
            let key = self.key_id(&vk_hex_of_part(&m.verification_key_for_concatenation));
            if status == 201 {
                // recorded by the aggregator under the epoch both sides named
                let part = SignerMessagePart {
                    party_id: m.party_id.clone(),
                    verification_key_for_concatenation: m.verification_key_for_concatenation.clone(),
                    verification_key_signature_for_concatenation: m.verification_key_signature_for_concatenation.clone(),
                    operational_certificate: m.operational_certificate.clone(),
                    kes_evolutions: m.kes_evolutions,
                    ..SignerMessagePart::from(Signer::from(self.fixture.signers_with_stake()[0].clone()))
                };
                self.reg_truth.entry(*m.epoch).or_default().insert(m.party_id.clone(), (part, chain_epoch));
                *self.reg_version.entry(*m.epoch).or_default() += 1;
            }
            new_regs.push(json!({"n": self.nregs, "decoded": true, "status": status, "answered": answered, "signer": self.party_index(&m.party_id) + 1,
                                 "named": *m.epoch, "key": key, "chain_epoch": chain_epoch, "agg_epoch": pre_agg_epoch,
                                 "why": if status == 201 { String::new() } else { body }}));
        }
        let mut new_pubs = vec![];
        if !sigs.is_empty() {
            let (agg_regs, agg_params) = self.agg_tables();
            for (m, status, answered, body) in sigs {
                self.npubs += 1;
                let Some(m) = m else {
                    new_pubs.push(json!({"n": self.npubs, "decoded": false, "status": status, "answered": answered, "signer": -1, "entity": "?", "ee": 0,
                                         "valid": false, "msg_ok": false, "held": false, "chain_epoch": chain_epoch, "agg_epoch": pre_agg_epoch,
                                         "open": "none", "sigma": 0, "why": body}));
                    continue;
                };
                let entity = match &m.signed_entity_type {
                    SignedEntityTypeMessage::Known(t) => t.clone(),
                    other => panic!("signed entity type {other:?} published"),
                };
                let name = entity_name(&entity);
                let ee = *entity.get_epoch_when_signed_entity_type_is_signed();
                let party = self.party_index(&m.party_id);
                let ns = self.sigma_ids.len();
                let sigma = *self.sigma_ids.entry(format!("{}|{:?}", m.signature, m.won_indexes)).or_insert(ns + 1);
                // valid under the signer set recorded for ee - 1 with the parameters the aggregator keeps for ee - 1
                let mut valid = false;
                if let (Some(rec), Ok(signature)) = (ee.checked_sub(RETRIEVAL_BACK), m.signature.clone().try_into()) {
                    let single = SingleSignature {
                        party_id: m.party_id.clone(),
                        signature,
                        won_indexes: m.won_indexes.clone(),
                        authentication_status: SingleSignatureAuthenticationStatus::Unauthenticated,
                    };
                    if let Some(p) = agg_params.get(&rec) {
                        if let Some((_, multi)) = self.derived_set(rec, p) {
                            valid = multi.verify_single_signature(&m.signed_message, &single).is_ok();
                        }
                    }
                }
                let msg_ok = self.protocol_message(&entity, &agg_params).await.as_deref() == Some(m.signed_message.as_str());
                // the signer holds, for the signing epoch, the key the aggregator recorded for it
                let mut held = false;
                if party >= 0 {
                    if let Some(rec) = ee.checked_sub(RETRIEVAL_BACK) {
                        let mine = self.nodes[party as usize].proc.as_ref();
                        let stored = match mine {
                            Some(p) => p.protocol_initializer_store.get_protocol_initializer(Epoch(rec)).await.ok().flatten(),
                            None => None,
                        };
                        if let Some(init) = stored {
                            let vk: ProtocolSignerVerificationKeyForConcatenation = init.verification_key_for_concatenation().into();
                            let mine_hex = vk.to_json_hex().unwrap_or_default();
                            held = agg_regs.iter().any(|(e, p, k, _)| *e == rec && *p == m.party_id && *k == mine_hex);
                        }
                    }
                }
                new_pubs.push(json!({"n": self.npubs, "decoded": true, "status": status, "answered": answered, "signer": party + 1, "entity": name, "ee": ee,
                                     "valid": valid, "msg_ok": msg_ok, "held": held, "chain_epoch": chain_epoch, "agg_epoch": pre_agg_epoch,
                                     "open": pre_open.get(&name).copied().unwrap_or("none"), "sigma": sigma,
                                     "why": if status == 201 || status == 202 { String::new() } else { body }}));
            }
        }
        (new_regs, new_pubs)
    }

    /// what a stored certificate carries, against the protocol's view (computed once per certificate)
    async fn certificate_facts(&mut self, hash: &str, agg_params: &BTreeMap<u64, ProtocolParameters>) -> Value {
        if let Some(v) = self.certx.get(hash) {
            return v.clone();
        }
        let cert: Certificate = self.h.tester.dependencies.certificate_repository.get_certificate(hash).await.unwrap().unwrap();
        let epoch = *cert.epoch;
        let avk_hex = cert.aggregate_verification_key.to_json_hex().unwrap_or_default();
        let navk_hex = cert.protocol_message.get_message_part(&ProtocolMessagePartKey::NextAggregateVerificationKey).cloned().unwrap_or_default();
        let npar_hash = cert.protocol_message.get_message_part(&ProtocolMessagePartKey::NextProtocolParameters).cloned().unwrap_or_default();
        let msg_epoch: u64 = cert.protocol_message.get_message_part(&ProtocolMessagePartKey::CurrentEpoch).and_then(|s| s.parse().ok()).unwrap_or(0);
        let mut avk_rec = vec![];
        let mut navk_rec = vec![];
        for rec in epoch.saturating_sub(2)..=epoch + 1 {
            if let Some(h) = self.derived_avk_hex(rec) {
                if h == avk_hex {
                    avk_rec.push(rec);
                }
                if h == navk_hex {
                    navk_rec.push(rec);
                }
            }
        }
        let pgen = generation_of(&cert.metadata.protocol_parameters);
        let npar = (1..=2u8).find(|g| generation(*g).compute_hash() == npar_hash).unwrap_or(0);
        // the generations the aggregator keeps for the certificate's epoch (retrieval) and the next one
        let kept = |e: Option<u64>| e.and_then(|e| agg_params.get(&e)).map(generation_of).unwrap_or(0);
        let v = json!({"id": self.h.cert_ids.get(hash).copied().unwrap_or(0), "epoch": epoch, "avk": self.avk_id(&avk_hex), "navk": self.avk_id(&navk_hex),
                       "pgen": pgen, "npar": npar, "msg_epoch": msg_epoch, "avk_rec": avk_rec, "navk_rec": navk_rec,
                       "kept_gen": kept(epoch.checked_sub(RETRIEVAL_BACK)), "kept_next_gen": kept(Some(epoch))});
        // (the genesis certificate is complete from the start; a standard one never changes once stored)
        self.certx.insert(hash.to_string(), v.clone());
        v
    }

    async fn observe(&mut self, pre_agg_epoch: u64, pre_open: &BTreeMap<String, &'static str>) -> Value {
        let (new_regs, new_pubs) = self.new_requests(pre_agg_epoch, pre_open).await;
        let agg = self.h.project().await;
        let (agg_regs, agg_params) = self.agg_tables();
        let mut regs = vec![];
        for (e, party, vk, stake) in &agg_regs {
            let key = self.key_id(vk);
            regs.push(json!({"epoch": e, "signer": self.party_index(party) + 1, "key": key, "stake": stake}));
        }
        let params: Vec<Value> = agg_params.iter().map(|(e, p)| json!({"epoch": e, "gen": generation_of(p)})).collect();
        let hashes: Vec<String> = {
            let mut v: Vec<(usize, String)> = self.h.cert_ids.iter().map(|(h, i)| (*i, h.clone())).collect();
            v.sort();
            v.into_iter().map(|(_, h)| h).collect()
        };
        let stored: BTreeSet<usize> = agg["certs"].as_array().unwrap().iter().map(|c| c["id"].as_u64().unwrap() as usize).collect();
        let mut certx = vec![];
        for h in hashes {
            if stored.contains(&self.h.cert_ids[&h]) {
                certx.push(self.certificate_facts(&h, &agg_params).await);
            }
        }
        let mut signers = vec![];
        for i in 0..NSIGNERS {
            signers.push(self.project_signer(i).await);
        }
        json!({"agg": agg, "agg_epoch": self.agg_epoch().await, "agg_regs": regs, "agg_params": params, "certx": certx,
               "signers": signers, "new_regs": new_regs, "new_pubs": new_pubs, "cfg_gen": self.cfg_gen})
    }

    /// one stimulus and the observation after it
    async fn step(&mut self, a: &Value) -> (Value, Value) {
        let pre_agg_epoch = self.agg_epoch().await;
        let pre_open = self.open_states();
        let res = self.act(a).await;
        let obs = self.observe(pre_agg_epoch, &pre_open).await;
        (res, obs)
    }
}

// -------------------------------------------------------------------------------------------
// the work of an epoch, judged on observations
// -------------------------------------------------------------------------------------------
/// the epoch's Mithril stake distribution is certified (nothing is certified in the epoch of the genesis certificate)
/// and the core signers hold an initializer for the next epoch
fn goal(obs: &Value) -> (bool, bool) {
    let epoch = obs["agg"]["epoch"].as_u64().unwrap();
    let genesis_epoch = obs["agg"]["certs"][0]["epoch"].as_u64().unwrap_or(0);
    let wanted = format!("MSD:{epoch}");
    let certified = epoch == genesis_epoch || obs["agg"]["certs"].as_array().unwrap().iter().any(|c| c["entity"] == json!(wanted));
    let registered = (0..CORE).all(|i| obs["signers"][i]["inits"].as_array().map(|v| v.iter().any(|x| x["epoch"].as_u64() == Some(epoch + RECORDING_OFFSET))).unwrap_or(false));
    (certified, registered)
}

struct Run {
    events: Vec<Value>,
    actions: u64,
}

impl Run {
    async fn stim(&mut self, s: &mut Sys, a: Value, tag: &str) -> Value {
        let (res, obs) = s.step(&a).await;
        self.actions += 1;
        let mut ev = json!({"ev": "Obs", "action": a, "result": res, "obs": obs});
        if !tag.is_empty() {
            ev[tag] = json!(true);
        }
        self.events.push(ev);
        obs
    }

    /// fault-free round-robin rounds (every running node cycles once) until the work of the epoch is done
    async fn finish_epoch(&mut self, s: &mut Sys, last: &Value, why: &str, tag: &str) -> Value {
        let mut obs = last.clone();
        let mut rounds = 0;
        while goal(&obs) != (true, true) && rounds < PACE_ROUNDS {
            rounds += 1;
            for node in 0..=NSIGNERS {
                if node > 0 && s.nodes[node - 1].proc.is_none() {
                    continue;
                }
                obs = self.stim(s, json!({"a": "Tick", "node": node, "fault": "none"}), tag).await;
            }
        }
        let (certified, registered) = goal(&obs);
        self.events.push(json!({"ev": "Progress", "why": why, "epoch": obs["agg"]["epoch"], "certified": certified, "registered": registered,
                                "rounds": rounds, "agg_state": obs["agg"]["state"], "signer_states": obs["signers"].as_array().unwrap().iter().map(|x| x["state"].clone()).collect::<Vec<_>>()}));
        obs
    }
}

async fn run_schedule(dir: PathBuf, id: &Value, schedule: &[Value], totals: &mut BTreeMap<String, u64>) -> Run {
    let mut s = Sys::new(dir.clone()).await;
    let mut run = Run { events: vec![], actions: 0 };
    let mut obs = s.observe(0, &BTreeMap::new()).await;
    run.events.push(json!({"ev": "Start", "schedule": id, "obs": obs, "nsigners": NSIGNERS, "core": CORE}));
    for a in schedule {
        if a["a"] == "EpochUp" {
            // an epoch lasts long enough: before the chain turns, whatever is left of the epoch's work gets done by
            // fault-free cycles -- within PACE_ROUNDS rounds, or the progress clause is violated
            obs = run.finish_epoch(&mut s, &obs, "epoch_end", "pace").await;
        }
        if a["a"] == "Offline" && (a["node"].as_u64().unwrap() as usize) <= CORE {
            continue;
        }
        obs = run.stim(&mut s, a.clone(), "").await;
    }
    // fault-free epilogue: everybody back, three more epochs in which every node just runs
    for node in 1..=NSIGNERS {
        if s.nodes[node - 1].proc.is_none() {
            obs = run.stim(&mut s, json!({"a": "Online", "node": node}), "epilogue").await;
        }
    }
    for _ in 0..3 {
        run.finish_epoch(&mut s, &obs, "epilogue", "epilogue").await;
        obs = run.stim(&mut s, json!({"a": "EpochUp"}), "epilogue").await;
    }
    run.finish_epoch(&mut s, &obs, "final", "epilogue").await;
    {
        let log = s.front.log.lock().unwrap();
        for (k, v) in &log.calls {
            *totals.entry(format!("http {k}")).or_default() += v;
        }
        for (k, v) in &log.lost {
            *totals.entry(format!("lost {k}")).or_default() += v;
        }
    }
    *totals.entry("registrations_posted".into()).or_default() += s.nregs as u64;
    *totals.entry("signatures_posted".into()).or_default() += s.npubs as u64;
    *totals.entry("certificates".into()).or_default() += s.h.cert_ids.len() as u64;
    *totals.entry("restarts".into()).or_default() += s.restarts;
    *totals.entry("panics_of_code_under_test".into()).or_default() += s.panics;
    drop(s);
    let _ = std::fs::remove_dir_all(&dir);
    run
}

// -------------------------------------------------------------------------------------------
// seeded driver
// -------------------------------------------------------------------------------------------
fn random_schedule(r: &mut ChaCha20Rng, len: usize) -> Vec<Value> {
    let mut out = vec![];
    let mut since_epoch = 0;
    let mut offline: BTreeSet<u64> = BTreeSet::new();
    for _ in 0..len {
        since_epoch += 1;
        let a = match below(r, 40) {
            0..=9 => json!({"a": "Tick", "node": 0}),
            10..=27 => json!({"a": "Tick", "node": 1 + below(r, NSIGNERS as u64), "fault": "none"}),
            28 => json!({"a": "Tick", "node": 1 + below(r, NSIGNERS as u64), "fault": "reg_lost"}),
            29 => json!({"a": "Tick", "node": 1 + below(r, NSIGNERS as u64), "fault": "pub_lost"}),
            30 | 31 => json!({"a": "ImmUp"}),
            32 => json!({"a": "Restart", "node": 0, "flip": below(r, 2) == 0}),
            33 => json!({"a": "Restart", "node": 1 + below(r, NSIGNERS as u64)}),
            34 => {
                let n = CORE as u64 + 1 + below(r, (NSIGNERS - CORE) as u64);
                if offline.insert(n) { json!({"a": "Offline", "node": n}) } else { json!({"a": "Tick", "node": 0}) }
            }
            35 | 36 => match offline.iter().next().copied() {
                Some(n) if below(r, 3) == 0 => {
                    offline.remove(&n);
                    json!({"a": "Online", "node": n})
                }
                _ => json!({"a": "Tick", "node": 0}),
            },
            _ => {
                if since_epoch < 8 {
                    json!({"a": "Tick", "node": 0})
                } else {
                    since_epoch = 0;
                    json!({"a": "EpochUp"})
                }
            }
        };
        out.push(a);
    }
    out
}

fn main() {
    let args = Args::parse();
    // panics inside a signer cycle are recorded as events (silently); any other panic is a harness bug and is printed
    let default_hook = std::panic::take_hook();
    std::panic::set_hook(Box::new(move |info| {
        if !IN_CYCLE.with(|c| c.get()) {
            default_hook(info);
        }
    }));
    let seed = args.num("seed", 1);
    let out = args.req("out");
    let work = PathBuf::from(args.get("work").unwrap_or("/verif/work/sys".into()));
    let mut trace = Trace::create(&out);
    let schedules: Vec<(Value, Vec<Value>)> = match args.get("schedules") {
        Some(p) => read_ndjson(p).into_iter().map(|s| (s["id"].clone(), s["steps"].as_array().unwrap().clone())).collect(),
        None => {
            let mut r = rng(seed, 2014);
            (0..args.num("runs", 2)).map(|i| (json!(i), random_schedule(&mut r, args.num("len", 80) as usize))).collect()
        }
    };
    let rt = tokio::runtime::Builder::new_current_thread().enable_all().build().unwrap();
    let mut totals: BTreeMap<String, u64> = BTreeMap::new();
    let mut actions = 0u64;
    for (si, (id, schedule)) in schedules.iter().enumerate() {
        let run = rt.block_on(run_schedule(work.join(format!("run{si}")), id, schedule, &mut totals));
        actions += run.actions;
        for e in run.events {
            trace.emit(e);
        }
    }
    let n = trace.finish();
    eprintln!("{}", json!({"events": n, "actions": actions, "schedules": schedules.len(), "totals": totals}));
}
