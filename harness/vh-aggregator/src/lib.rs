//! harness for the aggregator family (C14, C15, C16, C18 thorough, C07 round level, C11 prover)
