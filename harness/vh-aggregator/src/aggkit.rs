//! Shared by c14_agg.rs (leader: C14 / C15 / C16) and c14_follower.rs (leader + follower: C14F):
//! one real aggregator runtime wired through the repository's own `RuntimeTester`, the stimuli that
//! drive it and the projection of its whole abstract state from sqlite.
//!
//! Included with `#[path = "../aggkit.rs"] mod aggkit;` by binaries that also declare the repository's
//! `test_extensions` module at their crate root.
#![allow(dead_code)]
use std::collections::{BTreeMap, BTreeSet};
use std::path::PathBuf;
use std::sync::Arc;

use async_trait::async_trait;
use mithril_aggregator::ServeCommandConfiguration;
use mithril_common::certificate_chain::{CertificateRetriever, CertificateRetrieverError, CertificateVerifier, MithrilCertificateVerifier};
use mithril_common::entities::{
    Certificate, ProtocolParameters, SignedEntityType, SignedEntityTypeDiscriminants, SignerWithStake, SingleSignature,
};
use mithril_common::messages::CertificateMessage;
use mithril_common::protocol::{SignerBuilder, ToMessage};
use mithril_common::test::builder::MithrilFixture;
use vh_core::{Value, json};

use crate::test_extensions::RuntimeTester;

pub const NSIGNERS: usize = 4;

/// certificates as a client gets them: message service -> JSON text -> CertificateMessage -> Certificate
pub struct PublicRetriever {
    pub message_service: Arc<dyn mithril_aggregator::services::MessageService>,
}

#[async_trait]
impl CertificateRetriever for PublicRetriever {
    async fn get_certificate_details(&self, hash: &str) -> Result<Certificate, CertificateRetrieverError> {
        let msg = self
            .message_service
            .get_certificate_message(hash)
            .await
            .map_err(|e| CertificateRetrieverError(e))?
            .ok_or_else(|| CertificateRetrieverError(anyhow::anyhow!("certificate {hash} not served")))?;
        let text = serde_json::to_string(&msg).map_err(|e| CertificateRetrieverError(e.into()))?;
        let back: CertificateMessage = serde_json::from_str(&text).map_err(|e| CertificateRetrieverError(e.into()))?;
        back.try_into().map_err(CertificateRetrieverError)
    }
}

pub struct Harness {
    pub tester: RuntimeTester,
    pub config: ServeCommandConfiguration,
    pub fixture: MithrilFixture,
    pub params: ProtocolParameters,
    pub db_path: PathBuf,
    /// recorded[e] = indexes of the fixture signers registered under recording epoch e
    pub recorded: BTreeMap<u64, Vec<usize>>,
    /// short ids for certificates, in order of first appearance
    pub cert_ids: BTreeMap<String, usize>,
    pub verified: BTreeMap<String, bool>,
    pub sigma_ids: BTreeMap<String, usize>,
    /// (follower harness) hashes of the certificates the OTHER node ever stored: a certificate of this
    /// store found there was not sealed by this node (`origin` = "leader"); None: no `origin` field
    pub foreign: Option<BTreeSet<String>>,
    /// the certificate table as last projected (rowid order): any change other than an append drops
    /// the verification cache
    pub last_rows: Vec<String>,
    /// pure-function caches (aggregate key of a signer set; owner of a stored signature)
    pub avk_cache: std::cell::RefCell<BTreeMap<Vec<usize>, Option<String>>>,
    pub owner_cache: std::cell::RefCell<BTreeMap<(String, String, Vec<usize>), i64>>,
}

pub fn disc_of(name: &str) -> SignedEntityTypeDiscriminants {
    match name {
        "MSD" => SignedEntityTypeDiscriminants::MithrilStakeDistribution,
        "CSD" => SignedEntityTypeDiscriminants::CardanoStakeDistribution,
        _ => SignedEntityTypeDiscriminants::CardanoDatabase,
    }
}

pub fn entity_name(t: &SignedEntityType) -> String {
    let short = match t {
        SignedEntityType::MithrilStakeDistribution(_) => "MSD",
        SignedEntityType::CardanoStakeDistribution(_) => "CSD",
        SignedEntityType::CardanoDatabase(_) => "CDB",
        SignedEntityType::CardanoTransactions(..) => "CTX",
        SignedEntityType::CardanoBlocksTransactions(..) => "CBT",
    };
    format!("{}:{}", short, t.get_json_beacon().unwrap_or_default().replace('"', ""))
}

pub fn short_err(e: &impl std::fmt::Display) -> String {
    format!("{e:#}").chars().take(160).collect::<String>()
}

impl Harness {
    pub fn from_parts(tester: RuntimeTester, config: ServeCommandConfiguration, fixture: MithrilFixture, params: ProtocolParameters, db_path: PathBuf) -> Harness {
        Harness {
            tester,
            config,
            fixture,
            params,
            db_path,
            recorded: BTreeMap::new(),
            cert_ids: BTreeMap::new(),
            verified: BTreeMap::new(),
            sigma_ids: BTreeMap::new(),
            foreign: None,
            last_rows: vec![],
            avk_cache: Default::default(),
            owner_cache: Default::default(),
        }
    }

    pub fn signers_of(&self, set: &[usize]) -> Vec<SignerWithStake> {
        set.iter().map(|i| self.fixture.signers_fixture()[*i].signer_with_stake.clone()).collect()
    }

    pub fn builder_for(&self, set: &[usize]) -> Option<SignerBuilder> {
        SignerBuilder::new(&self.signers_of(set), &self.params).ok()
    }

    pub fn avk_hex_of(&self, set: &[usize]) -> Option<String> {
        if let Some(v) = self.avk_cache.borrow().get(set) {
            return v.clone();
        }
        let v = self.builder_for(set).and_then(|b| {
            let avk = b.compute_aggregate_verification_key();
            mithril_common::crypto_helper::ProtocolKey::new(avk.to_concatenation_aggregate_verification_key().to_owned()).to_json_hex().ok()
        });
        self.avk_cache.borrow_mut().insert(set.to_vec(), v.clone());
        v
    }

    /// party `who` signs `message` as a member of the registration set in force at `epoch`
    pub fn sign_as(&self, who: usize, epoch: u64, message: &impl ToMessage) -> Option<SingleSignature> {
        let set = self.recorded.get(&(epoch.checked_sub(1)?))?;
        if !set.contains(&who) {
            // not registered for this epoch: sign as if the whole fixture were registered (an invalid contribution)
            return self.fixture.signers_fixture()[who].sign(message);
        }
        let b = self.builder_for(set)?;
        let f = &self.fixture.signers_fixture()[who];
        let signer = b.restore_signer_from_initializer(f.signer_with_stake.party_id.clone(), f.protocol_initializer.clone()).ok()?;
        signer.sign(message).ok().flatten()
    }

    pub fn party_index(&self, party_id: &str) -> i64 {
        self.fixture.signers_fixture().iter().position(|f| f.signer_with_stake.party_id == party_id).map(|i| i as i64).unwrap_or(-1)
    }

    // ---------------------------------------------------------------------------------------
    // actions
    // ---------------------------------------------------------------------------------------
    pub async fn act(&mut self, a: &Value) -> Value {
        let name = a["a"].as_str().unwrap();
        match name {
            "Tick" => match self.tester.cycle().await {
                Ok(()) => json!({"ok": true}),
                Err(e) => {
                    let t = format!("{e:#}");
                    json!({"ok": false, "err": t.chars().skip(t.find("message =").unwrap_or(0)).take(260).collect::<String>()})
                }
            },
            "EpochUp" => {
                for _ in 0..a["n"].as_u64().unwrap_or(1) {
                    self.tester.increase_epoch().await.unwrap();
                }
                json!({"ok": true})
            }
            "ImmUp" => {
                self.tester.increase_immutable_number().await.unwrap();
                json!({"ok": true})
            }
            "Register" => {
                let who: Vec<usize> = a["who"].as_array().unwrap().iter().map(|v| v.as_u64().unwrap() as usize).collect();
                let epoch = *self.tester.observer.current_epoch().await;
                let fixtures: Vec<_> = who.iter().map(|i| self.fixture.signers_fixture()[*i].clone()).collect();
                let r = self.tester.register_signers(&fixtures).await;
                if r.is_ok() {
                    let e = self.recorded.entry(epoch + 1).or_default();
                    for w in who {
                        if !e.contains(&w) {
                            e.push(w);
                            e.sort();
                        }
                    }
                }
                json!({"ok": r.is_ok(), "err": r.err().map(|e| format!("{e:#}").chars().take(160).collect::<String>()).unwrap_or_default()})
            }
            "Sign" => {
                let disc = disc_of(a["entity"].as_str().unwrap());
                let who = a["who"].as_u64().unwrap() as usize;
                let label = a["label"].as_u64().map(|l| l as usize).unwrap_or(who);
                let variant = a["variant"].as_str().unwrap_or("ok");
                let Ok(set) = self.tester.observer.build_current_signed_entity_type(disc).await else {
                    return json!({"ok": false, "err": "no current signed entity type"});
                };
                let Ok(message) = self.tester.dependencies.signable_builder_service.compute_protocol_message(set.clone()).await else {
                    return json!({"ok": false, "err": "cannot compute protocol message"});
                };
                let epoch = *set.get_epoch_when_signed_entity_type_is_signed();
                let Some(mut sig) = self.sign_as(who, epoch, &message) else {
                    return json!({"ok": false, "err": "signer lost every lottery"});
                };
                // what the wire carries: the party id is a field the submitter fills in
                sig.party_id = self.fixture.signers_fixture()[label].signer_with_stake.party_id.clone();
                // the HTTP route marks a signature "authenticated" when it verifies for the current or next stake
                // distribution (slot-based key lookup): any genuine signature of a registered party is
                // -- also a signature made for ANOTHER message, because the route checks it against the signed
                // message the submitter names, and the message-queue consumer sets the flag unconditionally
                if a["auth"].as_bool().unwrap_or(true) {
                    sig.authentication_status = mithril_common::entities::SingleSignatureAuthenticationStatus::Authenticated;
                }
                if variant == "bad" {
                    // a signature for another message
                    let mut other = message.clone();
                    other.set_message_part(mithril_common::entities::ProtocolMessagePartKey::SnapshotDigest, "deadbeef".into());
                    if let Some(s) = self.sign_as(who, epoch, &other) {
                        sig.signature = s.signature;
                        sig.won_indexes = s.won_indexes;
                    }
                }
                if a["via"].as_str() == Some("http") {
                    // the steps of POST /register-signatures (http_server/routes/signatures_routes.rs) with the REAL
                    // authenticator: the submitter names the signed message; a signature that authenticates for NO
                    // stake distribution is answered 400 and never reaches the certifier
                    let signed_message = if variant == "bad" {
                        let mut other = message.clone();
                        other.set_message_part(mithril_common::entities::ProtocolMessagePartKey::SnapshotDigest, "deadbeef".into());
                        other.compute_hash()
                    } else {
                        message.compute_hash()
                    };
                    sig.authentication_status = mithril_common::entities::SingleSignatureAuthenticationStatus::Unauthenticated;
                    let auth = self.tester.dependencies.verif_single_signature_authenticator();
                    if let Err(e) = auth.authenticate(&mut sig, &signed_message).await {
                        return json!({"ok": false, "entity": entity_name(&set), "status": "", "err": format!("authenticator: {e:#}").chars().take(160).collect::<String>(), "authenticated": false});
                    }
                    if !sig.is_authenticated() {
                        return json!({"ok": false, "entity": entity_name(&set), "status": "", "err": "400 could not authenticate signature", "authenticated": false});
                    }
                }
                let r = self.tester.dependencies.certifier_service.register_single_signature(&set, &sig).await;
                json!({"ok": r.is_ok(), "entity": entity_name(&set), "status": r.as_ref().map(|s| format!("{s:?}")).unwrap_or_default(),
                       "err": r.err().map(|e| format!("{e:#}").chars().take(160).collect::<String>()).unwrap_or_default()})
            }
            "SignBatch" => {
                // several submissions delivered as ONE batch through the real message-queue path: a
                // SequentialSignatureProcessor over a consumer that hands the batch over once
                let mut batch = vec![];
                let mut items = vec![];
                for it in a["items"].as_array().unwrap() {
                    match self.build_submission(it).await {
                        Ok((set, sig, message)) => {
                            // whose registered key verifies this submission for the message of the entity's open message
                            let om_epoch = *set.get_epoch_when_signed_entity_type_is_signed();
                            let owner = self.owner_of(
                                &sig.signature.to_json_hex().unwrap_or_default(),
                                "",
                                &serde_json::to_string(&message).unwrap_or_default(),
                                om_epoch,
                            );
                            items.push(json!({"entity": entity_name(&set), "who": it["who"], "label": it["label"].as_u64().or(it["who"].as_u64()),
                                              "variant": it["variant"].as_str().unwrap_or("ok"), "owner": owner, "built": true}));
                            batch.push((sig, set));
                        }
                        Err(e) => items.push(json!({"entity": it["entity"], "who": it["who"], "label": it["label"].as_u64().or(it["who"].as_u64()),
                                                    "variant": it["variant"].as_str().unwrap_or("ok"), "owner": -1, "built": false, "err": e})),
                    }
                }
                struct Once(std::sync::Mutex<Vec<(mithril_common::entities::SingleSignature, mithril_common::entities::SignedEntityType)>>);
                #[async_trait::async_trait]
                impl mithril_aggregator::services::SignatureConsumer for Once {
                    async fn get_signatures(&self) -> mithril_common::StdResult<Vec<(mithril_common::entities::SingleSignature, mithril_common::entities::SignedEntityType)>> {
                        Ok(std::mem::take(&mut *self.0.lock().unwrap()))
                    }
                    fn get_origin_tag(&self) -> String {
                        "DMQ".to_string()
                    }
                }
                use mithril_aggregator::services::SignatureProcessor;
                let (_stop_tx, stop_rx) = tokio::sync::watch::channel(());
                let logger = slog::Logger::root(slog::Discard, slog::o!());
                let processor = mithril_aggregator::services::SequentialSignatureProcessor::new(
                    Arc::new(Once(std::sync::Mutex::new(batch))),
                    self.tester.dependencies.certifier_service.clone(),
                    stop_rx,
                    Arc::new(mithril_aggregator::MetricsService::new(logger.clone()).unwrap()),
                    std::time::Duration::from_millis(1),
                    logger,
                );
                let r = processor.process_signatures().await;
                json!({"ok": r.is_ok(), "items": items, "err": r.err().map(|e| format!("{e:#}").chars().take(160).collect::<String>()).unwrap_or_default()})
            }
            "Expire" => {
                let disc = disc_of(a["entity"].as_str().unwrap());
                // an expiry date in the past, written straight into the open_message row of the current beacon of
                // that type (the repository helper cannot address a CardanoStakeDistribution row): the next tick
                // marks the open message expired
                let Ok(set) = self.tester.observer.build_current_signed_entity_type(disc).await else {
                    return json!({"ok": false});
                };
                let conn = sqlite::open(&self.db_path).unwrap();
                let past = (chrono::Utc::now() - chrono::Duration::seconds(5)).to_rfc3339();
                let sql = format!(
                    "update open_message set expires_at = '{}' where signed_entity_type_id = {} and beacon = '{}' and is_certified = 0",
                    past,
                    set.index(),
                    set.get_json_beacon().unwrap_or_default().replace('\'', "")
                );
                let ok = conn.execute(sql).is_ok() && conn.change_count() > 0;
                json!({"ok": ok})
            }
            "Crash" => {
                // a process stop at a named persistence point: the hooked function returns an error there,
                // then every in-memory object is dropped and rebuilt from the database
                let at = a["at"].as_str().unwrap().to_string();
                let hit: Arc<std::sync::Mutex<Option<String>>> = Arc::new(std::sync::Mutex::new(None));
                let hit2 = hit.clone();
                let at2 = at.clone();
                mithril_common::verif_hooks::install(Some(Arc::new(move |name: &str, args: &[(&str, String)]| {
                    if name == at2 && hit2.lock().unwrap().is_none() {
                        *hit2.lock().unwrap() = Some(args.iter().find(|(k, _)| *k == "entity").map(|(_, v)| v.clone()).unwrap_or_default());
                        mithril_common::verif_hooks::Action::Fail
                    } else {
                        mithril_common::verif_hooks::Action::Continue
                    }
                })));
                let r = self.tester.cycle().await;
                for _ in 0..20 {
                    tokio::task::yield_now().await;
                }
                tokio::time::sleep(std::time::Duration::from_millis(3)).await;
                mithril_common::verif_hooks::install(None);
                let hit = hit.lock().unwrap().clone();
                // name the interrupted entity the way the projection does
                let mut entity = String::new();
                if let Some(display) = &hit {
                    for disc in [SignedEntityTypeDiscriminants::MithrilStakeDistribution, SignedEntityTypeDiscriminants::CardanoStakeDistribution, SignedEntityTypeDiscriminants::CardanoDatabase] {
                        if let Ok(t) = self.tester.observer.build_current_signed_entity_type(disc).await {
                            if t.to_string() == *display {
                                entity = entity_name(&t);
                            }
                        }
                    }
                }
                self.tester.rebuild(self.config.clone()).await;
                self.verified.clear();
                json!({"ok": r.is_ok(), "hit": hit.is_some(), "at": at, "entity": entity})
            }
            "Restart" => {
                self.tester.rebuild(self.config.clone()).await;
                self.verified.clear(); // everything is re-verified after a restart
                json!({"ok": true})
            }
            other => panic!("unknown action {other}"),
        }
    }

    // ---------------------------------------------------------------------------------------
    // projection
    // ---------------------------------------------------------------------------------------
    pub async fn project(&mut self) -> Value {
        let conn = sqlite::open(&self.db_path).unwrap();
        let type_name = |id: i64| match id {
            0 => "MSD",
            1 => "CSD",
            2 => "CIF",
            3 => "CTX",
            4 => "CDB",
            _ => "CBT",
        };
        // --- certificates, in creation order
        let mut certs = vec![];
        let rows: Vec<(String, Option<String>, i64, i64, String)> = conn
            .prepare("select certificate_id, parent_certificate_id, cast(epoch as integer), cast(signed_entity_type_id as integer), cast(signed_entity_beacon as text) from certificate order by rowid")
            .unwrap()
            .into_iter()
            .map(|r| {
                let r = r.unwrap();
                (r.read::<&str, _>(0).to_string(), r.read::<Option<&str>, _>(1).map(|s| s.to_string()), r.read::<i64, _>(2), r.read::<i64, _>(3), r.read::<&str, _>(4).to_string())
            })
            .collect();
        // ids in order of first appearance, assigned before any parent is looked up (a synchronisation may
        // store a parent after its child)
        for (hash, ..) in &rows {
            let n = self.cert_ids.len();
            self.cert_ids.entry(hash.clone()).or_insert(n + 1);
        }
        // a stored certificate's verification verdict is cached while the table only grows: any removal or
        // reordering (a synchronisation replaces rows) re-verifies everything
        let now_rows: Vec<String> = rows.iter().map(|r| r.0.clone()).collect();
        if now_rows.len() < self.last_rows.len() || now_rows[..self.last_rows.len()] != self.last_rows[..] {
            self.verified.clear();
        }
        self.last_rows = now_rows;
        let genesis_verifier = Arc::new(self.tester.genesis_signer.create_verifier());
        for (hash, parent, epoch, type_id, beacon) in rows {
            let id = self.cert_ids[&hash];
            let cert: Certificate = self.tester.dependencies.certificate_repository.get_certificate(&hash).await.unwrap().unwrap();
            let kind = if cert.is_genesis() { "genesis" } else { "std" };
            // the certificate verifies with its whole chain, through the public path a client uses
            // (the retriever reads this node's store only)
            if !self.verified.contains_key(&hash) {
                let retriever = Arc::new(PublicRetriever { message_service: self.tester.dependencies.message_service.clone() });
                let verifier = MithrilCertificateVerifier::new(slog_scope::logger(), retriever.clone(), genesis_verifier.clone());
                let ok = match retriever.get_certificate_details(&hash).await {
                    Ok(c) => verifier.verify_certificate_chain(c).await.is_ok(),
                    Err(_) => false,
                };
                self.verified.insert(hash.clone(), ok);
            }
            let avk_hex = cert.aggregate_verification_key.to_json_hex().unwrap_or_default();
            let avk_rec_epoch = self.recorded.iter().filter(|(_, set)| self.avk_hex_of(set).as_deref() == Some(&avk_hex)).map(|(e, _)| *e as i64).collect::<Vec<_>>();
            let signers: Vec<i64> = cert.metadata.signers.iter().map(|s| self.party_index(&s.party_id)).collect();
            let mut c = json!({
                "id": id, "parent": parent.as_ref().and_then(|p| self.cert_ids.get(p)).copied().unwrap_or(0),
                "epoch": epoch, "kind": kind, "entity": format!("{}:{}", type_name(type_id), beacon.replace('"', "")),
                "signers": signers, "avk_rec_epochs": avk_rec_epoch, "verifies": self.verified[&hash],
            });
            if let Some(foreign) = &self.foreign {
                c["origin"] = json!(if foreign.contains(&hash) { "leader" } else { "own" });
                c["etype"] = json!(type_name(type_id));
            }
            certs.push(c);
        }
        // --- open messages
        let mut open = vec![];
        let oms: Vec<(String, i64, String, i64, i64, i64, String)> = conn
            .prepare("select open_message_id, cast(signed_entity_type_id as integer), cast(beacon as text), cast(is_certified as integer), cast(is_expired as integer), cast(epoch_setting_id as integer), coalesce(cast(expires_at as text), '') from open_message order by rowid")
            .unwrap()
            .into_iter()
            .map(|r| {
                let r = r.unwrap();
                (r.read::<&str, _>(0).to_string(), r.read::<i64, _>(1), r.read::<&str, _>(2).to_string(), r.read::<i64, _>(3), r.read::<i64, _>(4), r.read::<i64, _>(5), r.read::<&str, _>(6).to_string())
            })
            .collect();
        let mut om_entity: BTreeMap<String, (String, i64)> = BTreeMap::new();
        let now = chrono::Utc::now();
        for (id, type_id, beacon, certified, expired, epoch, expires_at) in &oms {
            let name = format!("{}:{}", type_name(*type_id), beacon.replace('"', ""));
            om_entity.insert(id.clone(), (name.clone(), *epoch));
            // the ground truth the `is_expired` flag stands for: the expiry date of the row has passed
            let past_expiry = chrono::DateTime::parse_from_rfc3339(expires_at).map(|t| t < now).unwrap_or(false);
            open.push(json!({"entity": name, "certified": *certified != 0, "expired": *expired != 0, "past_expiry": past_expiry, "epoch": epoch}));
        }
        // --- single signatures: under which label, and whose registered key really produced them
        let mut sigs = vec![];
        let rows: Vec<(String, String, i64, String, String)> = conn
            .prepare("select open_message_id, signer_id, cast(registration_epoch_setting_id as integer), cast(lottery_indexes as text), cast(signature as text) from single_signature order by rowid")
            .unwrap()
            .into_iter()
            .map(|r| {
                let r = r.unwrap();
                (r.read::<&str, _>(0).to_string(), r.read::<&str, _>(1).to_string(), r.read::<i64, _>(2), r.read::<&str, _>(3).to_string(), r.read::<&str, _>(4).to_string())
            })
            .collect();
        let om_msgs: BTreeMap<String, String> = conn
            .prepare("select open_message_id, cast(protocol_message as text) from open_message")
            .unwrap()
            .into_iter()
            .map(|r| {
                let r = r.unwrap();
                (r.read::<&str, _>(0).to_string(), r.read::<&str, _>(1).to_string())
            })
            .collect();
        for (om_id, signer_id, reg_epoch, idx_json, sig_hex) in rows {
            let (entity, om_epoch) = om_entity.get(&om_id).cloned().unwrap_or(("?".into(), 0));
            let n = self.sigma_ids.len();
            let sigma = *self.sigma_ids.entry(sig_hex.clone()).or_insert(n + 1);
            let owner = self.owner_of(&sig_hex, &idx_json, om_msgs.get(&om_id).map(|s| s.as_str()).unwrap_or(""), om_epoch as u64);
            sigs.push(json!({"entity": entity, "label": self.party_index(&signer_id), "reg_epoch": reg_epoch, "owner": owner, "sigma": sigma}));
        }
        // --- signed entities (artifacts)
        let mut arts = vec![];
        for r in conn.prepare("select cast(signed_entity_type_id as integer), cast(beacon as text), certificate_id from signed_entity order by rowid").unwrap().into_iter() {
            let r = r.unwrap();
            let name = format!("{}:{}", type_name(r.read::<i64, _>(0)), r.read::<&str, _>(1).replace('"', ""));
            arts.push(json!({"entity": name, "cert": self.cert_ids.get(r.read::<&str, _>(2)).copied().unwrap_or(0)}));
        }
        let nbuffered = conn
            .prepare("select count(*) from buffered_single_signature")
            .ok()
            .and_then(|st| st.into_iter().next())
            .and_then(|r| r.ok())
            .map(|r| r.read::<i64, _>(0))
            .unwrap_or(0);
        let tp = self.tester.observer.current_time_point().await;
        json!({"state": self.tester.runtime.state_label(), "epoch": *tp.epoch, "imm": tp.immutable_file_number,
               "certs": certs, "open": open, "sigs": sigs, "arts": arts, "buffered": nbuffered})
    }

    /// the signature a submission carries (see the "Sign" action): (entity, signature as on the wire, message of the entity)
    pub async fn build_submission(&self, a: &Value) -> Result<(mithril_common::entities::SignedEntityType, mithril_common::entities::SingleSignature, mithril_common::entities::ProtocolMessage), String> {
        let disc = disc_of(a["entity"].as_str().unwrap());
        let who = a["who"].as_u64().unwrap() as usize;
        let label = a["label"].as_u64().map(|l| l as usize).unwrap_or(who);
        let variant = a["variant"].as_str().unwrap_or("ok");
        let set = self.tester.observer.build_current_signed_entity_type(disc).await.map_err(|_| "no current signed entity type".to_string())?;
        let message = self.tester.dependencies.signable_builder_service.compute_protocol_message(set.clone()).await.map_err(|_| "cannot compute protocol message".to_string())?;
        let epoch = *set.get_epoch_when_signed_entity_type_is_signed();
        let mut sig = self.sign_as(who, epoch, &message).ok_or("signer lost every lottery")?;
        sig.party_id = self.fixture.signers_fixture()[label].signer_with_stake.party_id.clone();
        if a["auth"].as_bool().unwrap_or(true) {
            sig.authentication_status = mithril_common::entities::SingleSignatureAuthenticationStatus::Authenticated;
        }
        if variant == "bad" {
            let mut other = message.clone();
            other.set_message_part(mithril_common::entities::ProtocolMessagePartKey::SnapshotDigest, "deadbeef".into());
            if let Some(s) = self.sign_as(who, epoch, &other) {
                sig.signature = s.signature;
                sig.won_indexes = s.won_indexes;
            }
        }
        Ok((set, sig, message))
    }

    /// index of the fixture party whose registered key verifies this stored signature (-1: nobody's)
    pub fn owner_of(&self, sig_hex: &str, idx_json: &str, protocol_message_json: &str, om_epoch: u64) -> i64 {
        use mithril_common::crypto_helper::ProtocolSingleSignature;
        let Ok(psig) = ProtocolSingleSignature::from_json_hex(sig_hex) else { return -1 };
        let Ok(pm) = serde_json::from_str::<mithril_common::entities::ProtocolMessage>(protocol_message_json) else { return -1 };
        let _ = idx_json;
        let Some(set) = om_epoch.checked_sub(1).and_then(|e| self.recorded.get(&e)) else { return -1 };
        let key = (sig_hex.to_string(), protocol_message_json.to_string(), set.clone());
        if let Some(v) = self.owner_cache.borrow().get(&key) {
            return *v;
        }
        let v = self.owner_of_uncached(&psig, &pm, set);
        self.owner_cache.borrow_mut().insert(key, v);
        v
    }

    fn owner_of_uncached(&self, psig: &mithril_common::crypto_helper::ProtocolSingleSignature, pm: &mithril_common::entities::ProtocolMessage, set: &Vec<usize>) -> i64 {
        let Some(b) = self.builder_for(set) else { return -1 };
        let avk = b.compute_aggregate_verification_key();
        let msg = pm.to_message();
        let stm_params: mithril_stm::Parameters = self.params.clone().into();
        for q in set {
            let s = &self.fixture.signers_fixture()[*q].signer_with_stake;
            let vk = mithril_stm::VerificationKeyProofOfPossessionForConcatenation::from(s.verification_key_for_concatenation.to_owned()).vk;
            if psig.verify(&stm_params, &vk, &s.stake, &avk, msg.as_bytes()).is_ok() {
                return *q as i64;
            }
        }
        -1
    }
}
