//! C07 — signer registration at the level of the aggregator's registration ROUND.
//!
//! Real `MithrilSignerRegistrationLeader::register_signer` over the real
//! `MithrilSignerRegistrationVerifier` (fresh `ProtocolKeyRegistration` per request), the real
//! sqlite `SignerRegistrationStore` / `SignerStore` (in-memory database, repository migrations) and
//! a chain observer whose current KES period is set by this harness (the aggregator computes the
//! announced number of evolutions itself: chain period - start period of the certificate).
//! Requests arrive the way signers send them: `RegisterSignerMessage` JSON text (with an extra,
//! registrant-supplied `stake` field) -> `FromRegisterSignerAdapter` -> `Signer`.
//!
//! Behaviours (sequences of requests in one round) come from TLC (spec/reg, Mode "round") with the
//! predicted answers, plus seeded longer sequences with other stake values. After every request the
//! rows of the epoch are read back and logged; at the end `SignerBuilder::new` is run over them.
#[path = "../../../vh-common/src/c07kit.rs"]
mod kit;

use std::collections::BTreeMap;
use std::sync::Arc;
use std::sync::atomic::{AtomicU64, Ordering};

use async_trait::async_trait;
use kit::{LAST_EVO, Material, RealReg, split};
use mithril_aggregator::database::repository::{SignerRegistrationStore, SignerStore};
use mithril_aggregator::{
    FromRegisterSignerAdapter, MithrilSignerRegistrationLeader, MithrilSignerRegistrationVerifier, SignerRegisterer,
    SignerRegistrationError, SignerRegistrationRoundOpener, VerificationKeyStorer,
};
use mithril_cardano_node_chain::chain_observer::{ChainObserver, ChainObserverError};
use mithril_cardano_node_chain::entities::{ChainAddress, TxDatum};
use mithril_common::crypto_helper::{KesEvolutions, KesPeriod, ProtocolKey, ProtocolKeyRegistration, SignerRegistrationParameters};
use mithril_common::entities::{ChainPoint, Epoch, ProtocolParameters, Signer, SignerWithStake, StakeDistribution};
use mithril_common::messages::{RegisterSignerMessage, TryFromMessageAdapter};
use mithril_common::protocol::SignerBuilder;
use mithril_persistence::sqlite::{ConnectionBuilder, ConnectionOptions};
use vh_core::{Args, Trace, Value, below, json, read_ndjson, rng};

const UMAX: u64 = 200;

struct KesChain {
    period: AtomicU64,
}

#[async_trait]
impl ChainObserver for KesChain {
    async fn get_current_datums(&self, _: &ChainAddress) -> Result<Vec<TxDatum>, ChainObserverError> {
        Ok(vec![])
    }
    async fn get_current_era(&self) -> Result<Option<String>, ChainObserverError> {
        Ok(None)
    }
    async fn get_current_epoch(&self) -> Result<Option<Epoch>, ChainObserverError> {
        Ok(Some(Epoch(10)))
    }
    async fn get_current_chain_point(&self) -> Result<Option<ChainPoint>, ChainObserverError> {
        Ok(None)
    }
    async fn get_current_stake_distribution(&self) -> Result<Option<StakeDistribution>, ChainObserverError> {
        Ok(None)
    }
    async fn get_current_kes_period(&self) -> Result<Option<KesPeriod>, ChainObserverError> {
        Ok(Some(KesPeriod(self.period.load(Ordering::SeqCst))))
    }
}

struct RoundEnv {
    leader: MithrilSignerRegistrationLeader,
    store: Arc<SignerRegistrationStore>,
    chain: Arc<KesChain>,
    epoch: Epoch,
}

async fn open_round(trace: &mut Trace, mat: &Material, dist: &[(String, u64)], tag: &Value) -> RoundEnv {
    let conn = Arc::new(
        // as the repository's own store tests do (database/test_helper.rs: main_db_connection): the
        // epoch_setting row the registration table refers to is not this check's subject
        ConnectionBuilder::open_memory()
            .with_options(&[ConnectionOptions::ForceDisableForeignKeys])
            .with_migrations(mithril_aggregator::database::migration::get_migrations())
            .build()
            .expect("in-memory aggregator database"),
    );
    let store = Arc::new(SignerRegistrationStore::new(conn.clone(), None));
    let recorder = Arc::new(SignerStore::new(conn));
    let chain = Arc::new(KesChain { period: AtomicU64::new(0) });
    let verifier = Arc::new(MithrilSignerRegistrationVerifier::new(chain.clone()));
    let leader = MithrilSignerRegistrationLeader::new(store.clone(), recorder, verifier);
    let epoch = Epoch(11);
    let sd: StakeDistribution = dist.iter().cloned().collect::<BTreeMap<_, _>>();
    leader.open_registration_round(epoch, sd).await.expect("open round");
    trace.emit(json!({"ev":"RoundOpen","level":"round","dist": mat.project_dist(dist),"behaviour": tag}));
    RoundEnv { leader, store, chain, epoch }
}

/// rows of the epoch as [[party label, vk label, stake], ...] (party via the independent pool id)
async fn rows(mat: &Material, env: &RoundEnv) -> (Vec<(String, String, String)>, Vec<SignerWithStake>) {
    let signers = env.store.get_signers(env.epoch).await.expect("read rows").unwrap_or_default();
    let mut v: Vec<(String, String, String)> = signers
        .iter()
        .map(|s| {
            let (vk, _) = split(&s.verification_key_for_concatenation.into_inner());
            (mat.label_pool_id(&s.party_id), mat.label_vk(&vk), s.stake.to_string())
        })
        .collect();
    v.sort();
    (v, signers)
}

/// the request as a signer sends it: message struct -> JSON text (+ claimed stake) -> message -> Signer
fn through_wire(real: &RealReg, epoch: Epoch, msg_evo: u64) -> Result<Signer, String> {
    let vk: ProtocolKey<_> = real.vkpop.into();
    let message = RegisterSignerMessage {
        epoch,
        party_id: real.claimed_party.clone().unwrap_or_default(),
        verification_key_for_concatenation: vk.try_into().map_err(|e| format!("{e:#}"))?,
        verification_key_signature_for_concatenation: real
            .kes_sig
            .map(|s| ProtocolKey::new(s).try_into())
            .transpose()
            .map_err(|e: anyhow::Error| format!("{e:#}"))?,
        operational_certificate: real
            .opcert
            .clone()
            .map(|c| ProtocolKey::new(c).try_into())
            .transpose()
            .map_err(|e: anyhow::Error| format!("{e:#}"))?,
        kes_evolutions: Some(KesEvolutions(msg_evo)),
    };
    let mut j = serde_json::to_value(&message).map_err(|e| e.to_string())?;
    if let Some(s) = &real.claimed_stake {
        j["stake"] = json!(s.parse::<u64>().unwrap_or(0));
    }
    let text = serde_json::to_string(&j).map_err(|e| e.to_string())?;
    let back: RegisterSignerMessage = serde_json::from_str(&text).map_err(|e| format!("message: {e}"))?;
    FromRegisterSignerAdapter::try_adapt(back).map_err(|e| format!("adapter: {e:#}"))
}

async fn request(trace: &mut Trace, mat: &Material, env: &RoundEnv, real: &RealReg, signed_evo: u64, extra: Value) -> String {
    let before = rows(mat, env).await.0;
    let cert = real.opcert.as_ref().expect("round-level requests always carry a certificate");
    let start = *cert.get_start_kes_period();
    let want = real.announced.unwrap_or(0);
    // the aggregator derives the announced evolutions from ITS chain view
    let period = start.saturating_add(want);
    env.chain.period.store(period, Ordering::SeqCst);
    let announced = period.saturating_sub(start);
    // the evolutions value written in the message is whatever suits the registrant: the evolution the
    // signature was really made at (the aggregator must use its own chain view instead)
    let msg_evo = signed_evo;
    let signer = match through_wire(real, env.epoch, msg_evo) {
        Ok(s) => s,
        Err(e) => {
            trace.emit(json!({"ev":"Undecodable","level":"round","what":e}));
            return "undecodable".into();
        }
    };
    let sig = signer.verification_key_signature_for_concatenation.map(|s| s.into_inner());
    let proj = mat.project(
        signer.operational_certificate.as_deref(),
        sig.as_ref(),
        &signer.verification_key_for_concatenation.into_inner(),
        if signer.party_id.is_empty() { None } else { Some(signer.party_id.as_str()) },
        real.claimed_stake.as_deref(),
        Some(announced),
    );
    let res = env.leader.register_signer(env.epoch, &signer).await;
    let (after, _) = rows(mat, env).await;
    let (resp, err) = match &res {
        Ok(_) => ("ok".to_string(), "none".to_string()),
        Err(SignerRegistrationError::ExistingSigner(_)) => ("existing".into(), "ExistingSigner".into()),
        Err(SignerRegistrationError::InvalidSignerRegistration(_, _, e)) => ("invalid".into(), format!("{e:#}").chars().take(160).collect()),
        Err(e) => ("error".into(), format!("{e:#}").chars().take(160).collect()),
    };
    let party = proj["cold"].as_str().unwrap().to_string();
    let accepted = resp == "ok" || after != before;
    let my_vk = after.iter().find(|r| r.0 == party).map(|r| r.1.clone());
    let dup = accepted && my_vk.as_ref().is_some_and(|k| after.iter().any(|r| r.0 != party && r.1 == *k));
    // the key of the request was held by ANOTHER party of the round before the request
    let held_before = proj["vk"].as_str().is_some_and(|k| before.iter().any(|r| r.0 != party && r.1 == k));
    let alias = accepted && proj["kesSig"]["evo"].as_i64() == Some(LAST_EVO as i64) && announced == LAST_EVO + 2;
    let mut ev = json!({
        "ev":"RoundRegister","level":"round","reg":proj,"resp":resp,"err":err,"accepted":accepted,
        "store": after.iter().map(|r| json!([r.0, r.1, r.2])).collect::<Vec<_>>(),
        "returned_stake": res.as_ref().map(|s| s.stake.to_string()).unwrap_or("none".into()),
        "duplicate_key_across_round": dup,
        "key_held_by_other_before": held_before,
        "kes_last_evolution_aliased": alias,
        "route":"json",
    });
    for (k, v) in extra.as_object().unwrap() {
        ev[k] = v.clone();
    }
    trace.emit(ev);
    resp
}

async fn close(trace: &mut Trace, mat: &Material, env: &RoundEnv, params: &ProtocolParameters, predicted: Value) -> bool {
    let (r, signers) = rows(mat, env).await;
    let dup = r.iter().any(|a| r.iter().any(|b| a.0 != b.0 && a.1 == b.1));
    let (ok, what) = if signers.is_empty() {
        (true, "empty".to_string())
    } else {
        match SignerBuilder::new(&signers, params) {
            Ok(_) => (true, "ok".into()),
            Err(e) => (false, format!("{e:#}").chars().take(120).collect()),
        }
    };
    trace.emit(json!({"ev":"RoundClose","level":"round","builder_ok":ok,"what":what,"rows":r.len(),"same_key_under_two_parties":dup,
                      "predicted_builder_ok":predicted}));
    ok
}

fn real_dist(mat: &Material, d: &Value) -> Vec<(String, u64)> {
    d.as_object().map(|o| o.iter().map(|(l, s)| (mat.pool(l).pool_id.clone(), s.as_u64().unwrap())).collect()).unwrap_or_default()
}

fn main() {
    let args = Args::parse();
    let seed = args.num("seed", 1);
    let mat = Material::new(seed, [100, 200, 300]);
    let params = ProtocolParameters { k: 2, m: 10, phi_f: 0.8 };
    let mut trace = Trace::create(args.req("out"));
    let rt = tokio::runtime::Builder::new_current_thread().enable_all().build().unwrap();
    let behaviours = read_ndjson(args.req("behaviours"));
    let (mut nb, mut nreq, mut mism, mut dups, mut builder_failed) = (0u64, 0u64, 0u64, 0u64, 0u64);
    let mut resp_counts: BTreeMap<String, u64> = BTreeMap::new();
    let mut shapes: BTreeMap<String, Value> = BTreeMap::new();
    rt.block_on(async {
        for b in &behaviours {
            let dist = real_dist(&mat, &b["dist"]);
            let env = open_round(&mut trace, &mat, &dist, &json!(b["id"].to_string())).await;
            for (i, st) in b["steps"].as_array().unwrap().iter().enumerate() {
                shapes.entry(st["shape"].as_str().unwrap().to_string()).or_insert_with(|| st["reg"].clone());
                let real = mat.realise(&st["reg"], UMAX).expect("realisable");
                let signed = st["reg"]["kesSig"]["evo"].as_u64().unwrap_or(0);
                let resp = request(&mut trace, &mat, &env, &real, signed, json!({"behaviour": b["id"].to_string(), "step": i, "shape": st["shape"], "predicted": st["resp"]})).await;
                nreq += 1;
                mism += (Some(resp.as_str()) != st["resp"].as_str()) as u64;
                *resp_counts.entry(resp).or_default() += 1;
            }
            let ok = close(&mut trace, &mat, &env, &params, json!(b["builderOk"].to_string())).await;
            builder_failed += (!ok) as u64;
            mism += (Some(ok) != b["builderOk"].as_bool()) as u64;
            nb += 1;
        }
        // seeded longer sequences: other stake values (zero, equal, large), evolutions at the edge
        let mut r = rng(seed, 77);
        let names: Vec<String> = shapes.keys().cloned().collect();
        let stakes = [0u64, 1, 7, 7, 1_000_000, (i64::MAX / 4) as u64];
        for n in 0..args.num("random", 40) {
            if names.is_empty() {
                break;
            }
            let mut dist: Vec<(String, u64)> = vec![];
            for p in &mat.pools {
                if p.label == "A" || below(&mut r, 4) != 0 {
                    dist.push((p.pool_id.clone(), stakes[below(&mut r, stakes.len() as u64) as usize]));
                }
            }
            let env = open_round(&mut trace, &mat, &dist, &json!(format!("r{n}"))).await;
            for i in 0..(3 + below(&mut r, 3)) {
                let name = &names[below(&mut r, names.len() as u64) as usize];
                let mut c = shapes[name].clone();
                if below(&mut r, 3) == 0 {
                    // KES evolutions at the edges, chain view shifted by -2..+2
                    let s = [0u64, 1, 62, 63][below(&mut r, 4) as usize];
                    c["kesSig"]["evo"] = json!(s);
                    c["announcedEvo"] = json!((s + below(&mut r, 5)).saturating_sub(2));
                }
                if below(&mut r, 4) == 0 {
                    c["claimedStake"] = json!(["1", "99", "9000000000000000000"][below(&mut r, 3) as usize]);
                }
                let real = mat.realise(&c, UMAX).expect("realisable");
                let signed = c["kesSig"]["evo"].as_u64().unwrap_or(0);
                let resp = request(&mut trace, &mat, &env, &real, signed, json!({"behaviour": format!("r{n}"), "step": i, "shape": name, "predicted": "n/a"})).await;
                nreq += 1;
                *resp_counts.entry(resp).or_default() += 1;
            }
            let ok = close(&mut trace, &mat, &env, &params, json!("n/a")).await;
            builder_failed += (!ok) as u64;
            nb += 1;
        }
    });
    // is the certification-skipping feature compiled into this package's mithril-common?
    let mut probe = ProtocolKeyRegistration::init(&vec![(mat.pool("A").pool_id.clone(), 1)]);
    let skip_on = probe
        .register(SignerRegistrationParameters {
            party_id: Some(mat.pool("A").pool_id.clone()),
            operational_certificate: None,
            verification_key_for_concatenation: mat.pool("A").vkpop.into(),
            verification_key_signature_for_concatenation: None,
            kes_evolutions: None,
        })
        .is_ok();
    let n = trace.finish();
    for e in read_ndjson(args.req("out")) {
        dups += (e["duplicate_key_across_round"].as_bool() == Some(true)) as u64;
    }
    println!(
        "{}",
        json!({"behaviours": nb, "requests": nreq, "events": n, "prediction_mismatches": mism, "responses": resp_counts,
               "duplicate_key_across_round": dups, "rounds_where_signer_builder_fails": builder_failed,
               "allow_skip_signer_certification_compiled_in": skip_on})
    );
}
