//! C14 / C15 / C16 — the real aggregator runtime driven one external stimulus at a time.
//!
//! The aggregator is wired exactly as in the repository's own integration tests (their
//! `RuntimeTester` is included by path): real state machine, certifier, multi-signer, epoch
//! service, sqlite repositories on disk; fake chain/immutable observers driven by this harness.
//! A *schedule* (from TLC or from the seeded driver) is executed action by action; after every
//! action the whole abstract state is projected from the database and logged as an `Obs` event,
//! which TLC validates against spec/aggregator/AggregatorTrace.tla.
#[allow(unused_macros, unused_imports)]
#[path = "/repo/mithril-aggregator/tests/test_extensions/mod.rs"]
#[macro_use]
mod test_extensions;

use std::collections::BTreeMap;
use std::path::PathBuf;
use std::sync::Arc;

use async_trait::async_trait;
use mithril_aggregator::ServeCommandConfiguration;
use mithril_common::StdResult;
use mithril_common::certificate_chain::{CertificateRetriever, CertificateRetrieverError, CertificateVerifier, MithrilCertificateVerifier};
use mithril_common::entities::{
    BlockNumber, Certificate, ChainPoint, Epoch, ProtocolParameters, SignedEntityType, SignedEntityTypeDiscriminants,
    SignerWithStake, SingleSignature, SlotNumber, TimePoint,
};
use mithril_common::messages::CertificateMessage;
use mithril_common::protocol::{SignerBuilder, ToMessage};
use mithril_common::test::builder::{MithrilFixture, MithrilFixtureBuilder};
use test_extensions::RuntimeTester;
use vh_core::{Args, ChaCha20Rng, Trace, Value, below, json, read_ndjson, rng};

const NSIGNERS: usize = 4;

/// certificates as a client gets them: message service -> JSON text -> CertificateMessage -> Certificate
struct PublicRetriever {
    message_service: Arc<dyn mithril_aggregator::services::MessageService>,
}

#[async_trait]
impl CertificateRetriever for PublicRetriever {
    async fn get_certificate_details(&self, hash: &str) -> Result<Certificate, CertificateRetrieverError> {
        let msg = self
            .message_service
            .get_certificate_message(hash)
            .await
            .map_err(|e| CertificateRetrieverError(e))?
            .ok_or_else(|| CertificateRetrieverError(anyhow::anyhow!("certificate {hash} not served")))?;
        let text = serde_json::to_string(&msg).map_err(|e| CertificateRetrieverError(e.into()))?;
        let back: CertificateMessage = serde_json::from_str(&text).map_err(|e| CertificateRetrieverError(e.into()))?;
        back.try_into().map_err(CertificateRetrieverError)
    }
}

struct Harness {
    tester: RuntimeTester,
    config: ServeCommandConfiguration,
    fixture: MithrilFixture,
    params: ProtocolParameters,
    db_path: PathBuf,
    /// recorded[e] = indexes of the fixture signers registered under recording epoch e
    recorded: BTreeMap<u64, Vec<usize>>,
    /// short ids for certificates, in order of first appearance
    cert_ids: BTreeMap<String, usize>,
    verified: BTreeMap<String, bool>,
    sigma_ids: BTreeMap<String, usize>,
}

fn disc_of(name: &str) -> SignedEntityTypeDiscriminants {
    match name {
        "MSD" => SignedEntityTypeDiscriminants::MithrilStakeDistribution,
        "CSD" => SignedEntityTypeDiscriminants::CardanoStakeDistribution,
        _ => SignedEntityTypeDiscriminants::CardanoDatabase,
    }
}

fn entity_name(t: &SignedEntityType) -> String {
    let short = match t {
        SignedEntityType::MithrilStakeDistribution(_) => "MSD",
        SignedEntityType::CardanoStakeDistribution(_) => "CSD",
        SignedEntityType::CardanoDatabase(_) => "CDB",
        SignedEntityType::CardanoTransactions(..) => "CTX",
        SignedEntityType::CardanoBlocksTransactions(..) => "CBT",
    };
    format!("{}:{}", short, t.get_json_beacon().unwrap_or_default().replace('"', ""))
}

impl Harness {
    async fn new(dir: PathBuf) -> Harness {
        let params = ProtocolParameters { k: 2, m: 30, phi_f: 0.95 };
        let _ = std::fs::remove_dir_all(&dir);
        std::fs::create_dir_all(&dir).unwrap();
        let config = ServeCommandConfiguration {
            protocol_parameters: Some(params.clone()),
            signed_entity_types: Some(format!(
                "{},{}",
                SignedEntityTypeDiscriminants::CardanoStakeDistribution,
                SignedEntityTypeDiscriminants::CardanoDatabase
            )),
            data_stores_directory: dir.join("stores"),
            ..ServeCommandConfiguration::new_sample(dir.join("sample"))
        };
        std::fs::create_dir_all(dir.join("stores")).unwrap();
        let start = TimePoint {
            epoch: Epoch(1),
            immutable_file_number: 1,
            chain_point: ChainPoint { slot_number: SlotNumber(10), block_number: BlockNumber(100), block_hash: "block_hash-100".to_string() },
        };
        let mut tester = RuntimeTester::build(start, config.clone()).await;
        let fixture = MithrilFixtureBuilder::default().with_signers(NSIGNERS).with_protocol_parameters(params.clone()).build();
        tester.init_state_from_fixture(&fixture).await.unwrap();
        tester.register_genesis_certificate(&fixture).await.unwrap();
        let mut recorded = BTreeMap::new();
        // init_state_from_fixture_for_genesis stores the fixture signers for the genesis epoch window
        // init_state_from_fixture_for_genesis stores the fixture signers for the retrieval epoch of the
        // genesis epoch and for the genesis epoch itself
        for e in 0..=1u64 {
            recorded.insert(e, (0..NSIGNERS).collect());
        }
        let db_path = dir.join("stores").join("aggregator.sqlite3");
        Harness { tester, config, fixture, params, db_path, recorded, cert_ids: BTreeMap::new(), verified: BTreeMap::new(), sigma_ids: BTreeMap::new() }
    }

    fn signers_of(&self, set: &[usize]) -> Vec<SignerWithStake> {
        set.iter().map(|i| self.fixture.signers_fixture()[*i].signer_with_stake.clone()).collect()
    }

    fn builder_for(&self, set: &[usize]) -> Option<SignerBuilder> {
        SignerBuilder::new(&self.signers_of(set), &self.params).ok()
    }

    fn avk_hex_of(&self, set: &[usize]) -> Option<String> {
        let b = self.builder_for(set)?;
        let avk = b.compute_aggregate_verification_key();
        mithril_common::crypto_helper::ProtocolKey::new(avk.to_concatenation_aggregate_verification_key().to_owned()).to_json_hex().ok()
    }

    /// party `who` signs `message` as a member of the registration set in force at `epoch`
    fn sign_as(&self, who: usize, epoch: u64, message: &impl ToMessage) -> Option<SingleSignature> {
        let set = self.recorded.get(&(epoch.checked_sub(1)?))?;
        if !set.contains(&who) {
            // not registered for this epoch: sign as if the whole fixture were registered (an invalid contribution)
            return self.fixture.signers_fixture()[who].sign(message);
        }
        let b = self.builder_for(set)?;
        let f = &self.fixture.signers_fixture()[who];
        let signer = b.restore_signer_from_initializer(f.signer_with_stake.party_id.clone(), f.protocol_initializer.clone()).ok()?;
        signer.sign(message).ok().flatten()
    }

    fn party_index(&self, party_id: &str) -> i64 {
        self.fixture.signers_fixture().iter().position(|f| f.signer_with_stake.party_id == party_id).map(|i| i as i64).unwrap_or(-1)
    }

    // ---------------------------------------------------------------------------------------
    // actions
    // ---------------------------------------------------------------------------------------
    async fn act(&mut self, a: &Value) -> Value {
        let name = a["a"].as_str().unwrap();
        match name {
            "Tick" => match self.tester.cycle().await {
                Ok(()) => json!({"ok": true}),
                Err(e) => {
                    let t = format!("{e:#}");
                    json!({"ok": false, "err": t.chars().skip(t.find("message =").unwrap_or(0)).take(260).collect::<String>()})
                }
            },
            "EpochUp" => {
                for _ in 0..a["n"].as_u64().unwrap_or(1) {
                    self.tester.increase_epoch().await.unwrap();
                }
                json!({"ok": true})
            }
            "ImmUp" => {
                self.tester.increase_immutable_number().await.unwrap();
                json!({"ok": true})
            }
            "Register" => {
                let who: Vec<usize> = a["who"].as_array().unwrap().iter().map(|v| v.as_u64().unwrap() as usize).collect();
                let epoch = *self.tester.observer.current_epoch().await;
                let fixtures: Vec<_> = who.iter().map(|i| self.fixture.signers_fixture()[*i].clone()).collect();
                let r = self.tester.register_signers(&fixtures).await;
                if r.is_ok() {
                    let e = self.recorded.entry(epoch + 1).or_default();
                    for w in who {
                        if !e.contains(&w) {
                            e.push(w);
                            e.sort();
                        }
                    }
                }
                json!({"ok": r.is_ok(), "err": r.err().map(|e| format!("{e:#}").chars().take(160).collect::<String>()).unwrap_or_default()})
            }
            "Sign" => {
                let disc = disc_of(a["entity"].as_str().unwrap());
                let who = a["who"].as_u64().unwrap() as usize;
                let label = a["label"].as_u64().map(|l| l as usize).unwrap_or(who);
                let variant = a["variant"].as_str().unwrap_or("ok");
                let Ok(set) = self.tester.observer.build_current_signed_entity_type(disc).await else {
                    return json!({"ok": false, "err": "no current signed entity type"});
                };
                let Ok(message) = self.tester.dependencies.signable_builder_service.compute_protocol_message(set.clone()).await else {
                    return json!({"ok": false, "err": "cannot compute protocol message"});
                };
                let epoch = *set.get_epoch_when_signed_entity_type_is_signed();
                let Some(mut sig) = self.sign_as(who, epoch, &message) else {
                    return json!({"ok": false, "err": "signer lost every lottery"});
                };
                // what the wire carries: the party id is a field the submitter fills in
                sig.party_id = self.fixture.signers_fixture()[label].signer_with_stake.party_id.clone();
                // the HTTP route marks a signature "authenticated" when it verifies for the current or next stake
                // distribution (slot-based key lookup): any genuine signature of a registered party is
                // -- also a signature made for ANOTHER message, because the route checks it against the signed
                // message the submitter names, and the message-queue consumer sets the flag unconditionally
                if a["auth"].as_bool().unwrap_or(true) {
                    sig.authentication_status = mithril_common::entities::SingleSignatureAuthenticationStatus::Authenticated;
                }
                if variant == "bad" {
                    // a signature for another message
                    let mut other = message.clone();
                    other.set_message_part(mithril_common::entities::ProtocolMessagePartKey::SnapshotDigest, "deadbeef".into());
                    if let Some(s) = self.sign_as(who, epoch, &other) {
                        sig.signature = s.signature;
                        sig.won_indexes = s.won_indexes;
                    }
                }
                let r = self.tester.dependencies.certifier_service.register_single_signature(&set, &sig).await;
                json!({"ok": r.is_ok(), "entity": entity_name(&set), "status": r.as_ref().map(|s| format!("{s:?}")).unwrap_or_default(),
                       "err": r.err().map(|e| format!("{e:#}").chars().take(160).collect::<String>()).unwrap_or_default()})
            }
            "Expire" => {
                let disc = disc_of(a["entity"].as_str().unwrap());
                // an expiry date in the past, written straight into the open_message row of the current beacon of
                // that type (the repository helper cannot address a CardanoStakeDistribution row): the next tick
                // marks the open message expired
                let Ok(set) = self.tester.observer.build_current_signed_entity_type(disc).await else {
                    return json!({"ok": false});
                };
                let conn = sqlite::open(&self.db_path).unwrap();
                let past = (chrono::Utc::now() - chrono::Duration::seconds(5)).to_rfc3339();
                let sql = format!(
                    "update open_message set expires_at = '{}' where signed_entity_type_id = {} and beacon = '{}' and is_certified = 0",
                    past,
                    set.index(),
                    set.get_json_beacon().unwrap_or_default().replace('\'', "")
                );
                let ok = conn.execute(sql).is_ok() && conn.change_count() > 0;
                json!({"ok": ok})
            }
            "Crash" => {
                // a process stop at a named persistence point: the hooked function returns an error there,
                // then every in-memory object is dropped and rebuilt from the database
                let at = a["at"].as_str().unwrap().to_string();
                let hit: Arc<std::sync::Mutex<Option<String>>> = Arc::new(std::sync::Mutex::new(None));
                let hit2 = hit.clone();
                let at2 = at.clone();
                mithril_common::verif_hooks::install(Some(Arc::new(move |name: &str, args: &[(&str, String)]| {
                    if name == at2 && hit2.lock().unwrap().is_none() {
                        *hit2.lock().unwrap() = Some(args.iter().find(|(k, _)| *k == "entity").map(|(_, v)| v.clone()).unwrap_or_default());
                        mithril_common::verif_hooks::Action::Fail
                    } else {
                        mithril_common::verif_hooks::Action::Continue
                    }
                })));
                let r = self.tester.cycle().await;
                for _ in 0..20 {
                    tokio::task::yield_now().await;
                }
                tokio::time::sleep(std::time::Duration::from_millis(3)).await;
                mithril_common::verif_hooks::install(None);
                let hit = hit.lock().unwrap().clone();
                // name the interrupted entity the way the projection does
                let mut entity = String::new();
                if let Some(display) = &hit {
                    for disc in [SignedEntityTypeDiscriminants::MithrilStakeDistribution, SignedEntityTypeDiscriminants::CardanoStakeDistribution, SignedEntityTypeDiscriminants::CardanoDatabase] {
                        if let Ok(t) = self.tester.observer.build_current_signed_entity_type(disc).await {
                            if t.to_string() == *display {
                                entity = entity_name(&t);
                            }
                        }
                    }
                }
                self.tester.rebuild(self.config.clone()).await;
                self.verified.clear();
                json!({"ok": r.is_ok(), "hit": hit.is_some(), "at": at, "entity": entity})
            }
            "Restart" => {
                self.tester.rebuild(self.config.clone()).await;
                self.verified.clear(); // everything is re-verified after a restart
                json!({"ok": true})
            }
            other => panic!("unknown action {other}"),
        }
    }

    // ---------------------------------------------------------------------------------------
    // projection
    // ---------------------------------------------------------------------------------------
    async fn project(&mut self) -> Value {
        let conn = sqlite::open(&self.db_path).unwrap();
        let type_name = |id: i64| match id {
            0 => "MSD",
            1 => "CSD",
            2 => "CIF",
            3 => "CTX",
            4 => "CDB",
            _ => "CBT",
        };
        // --- certificates, in creation order
        let mut certs = vec![];
        let rows: Vec<(String, Option<String>, i64, i64, String)> = conn
            .prepare("select certificate_id, parent_certificate_id, cast(epoch as integer), cast(signed_entity_type_id as integer), cast(signed_entity_beacon as text) from certificate order by rowid")
            .unwrap()
            .into_iter()
            .map(|r| {
                let r = r.unwrap();
                (r.read::<&str, _>(0).to_string(), r.read::<Option<&str>, _>(1).map(|s| s.to_string()), r.read::<i64, _>(2), r.read::<i64, _>(3), r.read::<&str, _>(4).to_string())
            })
            .collect();
        let genesis_verifier = Arc::new(self.tester.genesis_signer.create_verifier());
        for (hash, parent, epoch, type_id, beacon) in rows {
            let n = self.cert_ids.len();
            let id = *self.cert_ids.entry(hash.clone()).or_insert(n + 1);
            let cert: Certificate = self.tester.dependencies.certificate_repository.get_certificate(&hash).await.unwrap().unwrap();
            let kind = if cert.is_genesis() { "genesis" } else { "std" };
            // the certificate verifies with its whole chain, through the public path a client uses
            if !self.verified.contains_key(&hash) {
                let retriever = Arc::new(PublicRetriever { message_service: self.tester.dependencies.message_service.clone() });
                let verifier = MithrilCertificateVerifier::new(slog_scope::logger(), retriever.clone(), genesis_verifier.clone());
                let ok = match retriever.get_certificate_details(&hash).await {
                    Ok(c) => verifier.verify_certificate_chain(c).await.is_ok(),
                    Err(_) => false,
                };
                self.verified.insert(hash.clone(), ok);
            }
            let avk_hex = cert.aggregate_verification_key.to_json_hex().unwrap_or_default();
            let avk_rec_epoch = self.recorded.iter().filter(|(_, set)| self.avk_hex_of(set).as_deref() == Some(&avk_hex)).map(|(e, _)| *e as i64).collect::<Vec<_>>();
            let signers: Vec<i64> = cert.metadata.signers.iter().map(|s| self.party_index(&s.party_id)).collect();
            certs.push(json!({
                "id": id, "parent": parent.as_ref().and_then(|p| self.cert_ids.get(p)).copied().unwrap_or(0),
                "epoch": epoch, "kind": kind, "entity": format!("{}:{}", type_name(type_id), beacon.replace('"', "")),
                "signers": signers, "avk_rec_epochs": avk_rec_epoch, "verifies": self.verified[&hash],
            }));
        }
        // --- open messages
        let mut open = vec![];
        let oms: Vec<(String, i64, String, i64, i64, i64, String)> = conn
            .prepare("select open_message_id, cast(signed_entity_type_id as integer), cast(beacon as text), cast(is_certified as integer), cast(is_expired as integer), cast(epoch_setting_id as integer), coalesce(cast(expires_at as text), '') from open_message order by rowid")
            .unwrap()
            .into_iter()
            .map(|r| {
                let r = r.unwrap();
                (r.read::<&str, _>(0).to_string(), r.read::<i64, _>(1), r.read::<&str, _>(2).to_string(), r.read::<i64, _>(3), r.read::<i64, _>(4), r.read::<i64, _>(5), r.read::<&str, _>(6).to_string())
            })
            .collect();
        let mut om_entity: BTreeMap<String, (String, i64)> = BTreeMap::new();
        let now = chrono::Utc::now();
        for (id, type_id, beacon, certified, expired, epoch, expires_at) in &oms {
            let name = format!("{}:{}", type_name(*type_id), beacon.replace('"', ""));
            om_entity.insert(id.clone(), (name.clone(), *epoch));
            // the ground truth the `is_expired` flag stands for: the expiry date of the row has passed
            let past_expiry = chrono::DateTime::parse_from_rfc3339(expires_at).map(|t| t < now).unwrap_or(false);
            open.push(json!({"entity": name, "certified": *certified != 0, "expired": *expired != 0, "past_expiry": past_expiry, "epoch": epoch}));
        }
        // --- single signatures: under which label, and whose registered key really produced them
        let mut sigs = vec![];
        let rows: Vec<(String, String, i64, String, String)> = conn
            .prepare("select open_message_id, signer_id, cast(registration_epoch_setting_id as integer), cast(lottery_indexes as text), cast(signature as text) from single_signature order by rowid")
            .unwrap()
            .into_iter()
            .map(|r| {
                let r = r.unwrap();
                (r.read::<&str, _>(0).to_string(), r.read::<&str, _>(1).to_string(), r.read::<i64, _>(2), r.read::<&str, _>(3).to_string(), r.read::<&str, _>(4).to_string())
            })
            .collect();
        let om_msgs: BTreeMap<String, String> = conn
            .prepare("select open_message_id, cast(protocol_message as text) from open_message")
            .unwrap()
            .into_iter()
            .map(|r| {
                let r = r.unwrap();
                (r.read::<&str, _>(0).to_string(), r.read::<&str, _>(1).to_string())
            })
            .collect();
        for (om_id, signer_id, reg_epoch, idx_json, sig_hex) in rows {
            let (entity, om_epoch) = om_entity.get(&om_id).cloned().unwrap_or(("?".into(), 0));
            let n = self.sigma_ids.len();
            let sigma = *self.sigma_ids.entry(sig_hex.clone()).or_insert(n + 1);
            let owner = self.owner_of(&sig_hex, &idx_json, om_msgs.get(&om_id).map(|s| s.as_str()).unwrap_or(""), om_epoch as u64);
            sigs.push(json!({"entity": entity, "label": self.party_index(&signer_id), "reg_epoch": reg_epoch, "owner": owner, "sigma": sigma}));
        }
        // --- signed entities (artifacts)
        let mut arts = vec![];
        for r in conn.prepare("select cast(signed_entity_type_id as integer), cast(beacon as text), certificate_id from signed_entity order by rowid").unwrap().into_iter() {
            let r = r.unwrap();
            let name = format!("{}:{}", type_name(r.read::<i64, _>(0)), r.read::<&str, _>(1).replace('"', ""));
            arts.push(json!({"entity": name, "cert": self.cert_ids.get(r.read::<&str, _>(2)).copied().unwrap_or(0)}));
        }
        let nbuffered = conn
            .prepare("select count(*) from buffered_single_signature")
            .ok()
            .and_then(|st| st.into_iter().next())
            .and_then(|r| r.ok())
            .map(|r| r.read::<i64, _>(0))
            .unwrap_or(0);
        let tp = self.tester.observer.current_time_point().await;
        json!({"state": self.tester.runtime.state_label(), "epoch": *tp.epoch, "imm": tp.immutable_file_number,
               "certs": certs, "open": open, "sigs": sigs, "arts": arts, "buffered": nbuffered})
    }

    /// index of the fixture party whose registered key verifies this stored signature (-1: nobody's)
    fn owner_of(&self, sig_hex: &str, idx_json: &str, protocol_message_json: &str, om_epoch: u64) -> i64 {
        use mithril_common::crypto_helper::ProtocolSingleSignature;
        let Ok(psig) = ProtocolSingleSignature::from_json_hex(sig_hex) else { return -1 };
        let Ok(pm) = serde_json::from_str::<mithril_common::entities::ProtocolMessage>(protocol_message_json) else { return -1 };
        let _ = idx_json;
        let Some(set) = om_epoch.checked_sub(1).and_then(|e| self.recorded.get(&e)) else { return -1 };
        let Some(b) = self.builder_for(set) else { return -1 };
        let avk = b.compute_aggregate_verification_key();
        let msg = pm.to_message();
        let stm_params: mithril_stm::Parameters = self.params.clone().into();
        for q in set {
            let s = &self.fixture.signers_fixture()[*q].signer_with_stake;
            let vk = mithril_stm::VerificationKeyProofOfPossessionForConcatenation::from(s.verification_key_for_concatenation.to_owned()).vk;
            if psig.verify(&stm_params, &vk, &s.stake, &avk, msg.as_bytes()).is_ok() {
                return *q as i64;
            }
        }
        -1
    }
}

fn random_schedule(r: &mut ChaCha20Rng, len: usize) -> Vec<Value> {
    let mut out = vec![];
    // warm-up: leave the genesis epoch with everybody registered
    out.push(json!({"a":"Tick"}));
    out.push(json!({"a":"Register","who":[0,1,2,3]}));
    out.push(json!({"a":"EpochUp","n":1}));
    out.push(json!({"a":"Register","who":[0,1,2,3]}));
    for _ in 0..len {
        let a = match below(r, 20) {
            0..=7 => json!({"a":"Tick"}),
            8..=11 => {
                let who = below(r, NSIGNERS as u64);
                let label = if below(r, 6) == 0 { below(r, NSIGNERS as u64) } else { who };
                let variant = if below(r, 8) == 0 { "bad" } else { "ok" };
                let ent = ["MSD", "CSD", "CDB"][below(r, 3) as usize];
                json!({"a":"Sign","entity": ent, "who": who, "label": label, "variant": variant,
                       "auth": below(r, 3) != 0})
            }
            12 | 13 => json!({"a":"ImmUp"}),
            14 => json!({"a":"EpochUp","n": if below(r, 5) == 0 { 2 } else { 1 }}),
            15 | 16 => {
                let mut who: Vec<u64> = (0..NSIGNERS as u64).filter(|_| below(r, 4) != 0).collect();
                if who.is_empty() {
                    who.push(0);
                }
                json!({"a":"Register","who": who})
            }
            17 => {
                let ent = ["MSD", "CSD", "CDB"][below(r, 3) as usize];
                json!({"a":"Expire","entity": ent})
            }
            _ => json!({"a":"Restart"}),
        };
        out.push(a);
    }
    out
}

fn main() {
    let args = Args::parse();
    let seed = args.num("seed", 1);
    let out = args.req("out");
    let work = PathBuf::from(args.get("work").unwrap_or("/verif/work/agg".into()));
    let mut trace = Trace::create(&out);
    let rt = tokio::runtime::Builder::new_current_thread().enable_all().build().unwrap();
    let schedules: Vec<Vec<Value>> = match args.get("schedules") {
        Some(p) => read_ndjson(p).into_iter().map(|s| s["steps"].as_array().unwrap().clone()).collect(),
        None => {
            let mut r = rng(seed, 14);
            (0..args.num("runs", 4)).map(|_| random_schedule(&mut r, args.num("len", 40) as usize)).collect()
        }
    };
    let mut actions = 0u64;
    let mut certs_total = 0usize;
    for (si, schedule) in schedules.iter().enumerate() {
        rt.block_on(async {
            let mut h = Harness::new(work.join(format!("run{si}"))).await;
            let obs = h.project().await;
            trace.emit(json!({"ev":"Start","obs":obs,"nsigners":NSIGNERS,"k":h.params.k}));
            for a in schedule {
                let res = h.act(a).await;
                // let the spawned artifact task run to completion before observing
                for _ in 0..20 {
                    tokio::task::yield_now().await;
                }
                tokio::time::sleep(std::time::Duration::from_millis(3)).await;
                let obs = h.project().await;
                actions += 1;
                trace.emit(json!({"ev":"Obs","action":a,"result":res,"obs":obs,
                    "recorded": h.recorded.iter().map(|(e, s)| json!([e, s])).collect::<Vec<_>>()}));
            }
            // C15: after a scenario with process stops, a fault-free epilogue must certify again
            if schedule.iter().any(|a| a["a"] == "Crash") {
                let before = h.project().await;
                let epoch = before["epoch"].as_u64().unwrap();
                let last_cert_epoch = before["certs"].as_array().unwrap().iter().map(|c| c["epoch"].as_u64().unwrap()).max().unwrap_or(0);
                let signers: Vec<usize> = h.recorded.get(&(epoch.saturating_sub(1))).cloned().unwrap_or_default();
                let genesis_epoch = before["certs"][0]["epoch"].as_u64().unwrap();
                if !signers.is_empty() && last_cert_epoch + 1 >= epoch && genesis_epoch != epoch {
                    let n0 = before["certs"].as_array().unwrap().len();
                    let mut script = vec![json!({"a":"Restart"}), json!({"a":"Tick"}), json!({"a":"Tick"}), json!({"a":"Tick"}), json!({"a":"ImmUp"}), json!({"a":"Tick"}), json!({"a":"Tick"})];
                    for _round in 0..3 {
                        for ent in ["MSD", "CSD", "CDB"] {
                            for w in &signers {
                                script.push(json!({"a":"Sign","entity":ent,"who":w,"label":w,"variant":"ok"}));
                            }
                        }
                        script.push(json!({"a":"Tick"}));
                        script.push(json!({"a":"Tick"}));
                    }
                    for a in &script {
                        let res = h.act(a).await;
                        for _ in 0..20 {
                            tokio::task::yield_now().await;
                        }
                        tokio::time::sleep(std::time::Duration::from_millis(3)).await;
                        let obs = h.project().await;
                        actions += 1;
                        trace.emit(json!({"ev":"Obs","action":a,"result":res,"obs":obs,"epilogue":true,
                            "recorded": h.recorded.iter().map(|(e, s)| json!([e, s])).collect::<Vec<_>>()}));
                    }
                    let after = h.project().await;
                    let n1 = after["certs"].as_array().unwrap().len();
                    let crash_points: Vec<String> = schedule.iter().filter(|a| a["a"] == "Crash").map(|a| a["at"].as_str().unwrap().to_string()).collect();
                    trace.emit(json!({"ev":"Progress","certified_after_recovery": n1 > n0, "after": crash_points.join("+"), "state": after["state"]}));
                }
            }
            certs_total += h.cert_ids.len();
        });
        let _ = std::fs::remove_dir_all(work.join(format!("run{si}")));
    }
    let n = trace.finish();
    eprintln!("{}", json!({"events": n, "actions": actions, "schedules": schedules.len(), "certificates": certs_total}));
}

#[allow(dead_code)]
fn unused(_: StdResult<()>) {}
