//! C14 / C15 / C16 — the real aggregator runtime driven one external stimulus at a time.
//!
//! The aggregator is wired exactly as in the repository's own integration tests (their
//! `RuntimeTester` is included by path): real state machine, certifier, multi-signer, epoch
//! service, sqlite repositories on disk; fake chain/immutable observers driven by this harness.
//! A *schedule* (from TLC or from the seeded driver) is executed action by action; after every
//! action the whole abstract state is projected from the database and logged as an `Obs` event,
//! which TLC validates against spec/aggregator/AggregatorTrace.tla.
#[allow(unused_macros, unused_imports)]
#[path = "/repo/mithril-aggregator/tests/test_extensions/mod.rs"]
#[macro_use]
mod test_extensions;

#[path = "../aggkit.rs"]
mod aggkit;

use std::path::PathBuf;

use aggkit::{Harness, NSIGNERS};
use mithril_aggregator::ServeCommandConfiguration;
use mithril_common::StdResult;
use mithril_common::entities::{BlockNumber, ChainPoint, Epoch, ProtocolParameters, SignedEntityTypeDiscriminants, SlotNumber, TimePoint};
use mithril_common::test::builder::MithrilFixtureBuilder;
use test_extensions::RuntimeTester;
use vh_core::{Args, ChaCha20Rng, Trace, Value, below, json, read_ndjson, rng};

// the runtime wiring, the stimuli (`Harness::act`) and the projection (`Harness::project`) are in ../aggkit.rs,
// shared with c14_follower.rs

async fn new_harness(dir: PathBuf) -> Harness {
    let params = ProtocolParameters { k: 2, m: 30, phi_f: 0.95 };
    let _ = std::fs::remove_dir_all(&dir);
    std::fs::create_dir_all(&dir).unwrap();
    let config = ServeCommandConfiguration {
        protocol_parameters: Some(params.clone()),
        signed_entity_types: Some(format!(
            "{},{}",
            SignedEntityTypeDiscriminants::CardanoStakeDistribution,
            SignedEntityTypeDiscriminants::CardanoDatabase
        )),
        data_stores_directory: dir.join("stores"),
        ..ServeCommandConfiguration::new_sample(dir.join("sample"))
    };
    std::fs::create_dir_all(dir.join("stores")).unwrap();
    let start = TimePoint {
        epoch: Epoch(1),
        immutable_file_number: 1,
        chain_point: ChainPoint { slot_number: SlotNumber(10), block_number: BlockNumber(100), block_hash: "block_hash-100".to_string() },
    };
    let mut tester = RuntimeTester::build(start, config.clone()).await;
    let fixture = MithrilFixtureBuilder::default().with_signers(NSIGNERS).with_protocol_parameters(params.clone()).build();
    tester.init_state_from_fixture(&fixture).await.unwrap();
    tester.register_genesis_certificate(&fixture).await.unwrap();
    let db_path = dir.join("stores").join("aggregator.sqlite3");
    let mut h = Harness::from_parts(tester, config, fixture, params, db_path);
    // init_state_from_fixture_for_genesis stores the fixture signers for the retrieval epoch of the
    // genesis epoch and for the genesis epoch itself
    for e in 0..=1u64 {
        h.recorded.insert(e, (0..NSIGNERS).collect());
    }
    h
}

fn random_schedule(r: &mut ChaCha20Rng, len: usize) -> Vec<Value> {
    let mut out = vec![];
    // warm-up: leave the genesis epoch with everybody registered
    out.push(json!({"a":"Tick"}));
    out.push(json!({"a":"Register","who":[0,1,2,3]}));
    out.push(json!({"a":"EpochUp","n":1}));
    out.push(json!({"a":"Register","who":[0,1,2,3]}));
    for _ in 0..len {
        let a = match below(r, 20) {
            0..=7 => json!({"a":"Tick"}),
            8 => {
                // a consumed batch (message-queue path): 2-4 submissions for one entity, refused ones mixed in
                let ent = ["MSD", "CSD", "CDB"][below(r, 3) as usize];
                let n = 2 + below(r, 3);
                let items: Vec<Value> = (0..n)
                    .map(|_| {
                        let who = below(r, NSIGNERS as u64);
                        let label = if below(r, 5) == 0 { below(r, NSIGNERS as u64) } else { who };
                        let variant = if below(r, 3) == 0 { "bad" } else { "ok" };
                        json!({"entity": ent, "who": who, "label": label, "variant": variant})
                    })
                    .collect();
                json!({"a":"SignBatch","via":"dmq","items": items})
            }
            9..=11 => {
                let who = below(r, NSIGNERS as u64);
                let label = if below(r, 6) == 0 { below(r, NSIGNERS as u64) } else { who };
                let variant = if below(r, 8) == 0 { "bad" } else { "ok" };
                let ent = ["MSD", "CSD", "CDB"][below(r, 3) as usize];
                if below(r, 2) == 0 {
                    json!({"a":"Sign","entity": ent, "who": who, "label": label, "variant": variant, "via": "http"})
                } else {
                    json!({"a":"Sign","entity": ent, "who": who, "label": label, "variant": variant,
                           "auth": below(r, 3) != 0})
                }
            }
            12 | 13 => json!({"a":"ImmUp"}),
            14 => json!({"a":"EpochUp","n": if below(r, 5) == 0 { 2 } else { 1 }}),
            15 | 16 => {
                let mut who: Vec<u64> = (0..NSIGNERS as u64).filter(|_| below(r, 4) != 0).collect();
                if who.is_empty() {
                    who.push(0);
                }
                json!({"a":"Register","who": who})
            }
            17 => {
                let ent = ["MSD", "CSD", "CDB"][below(r, 3) as usize];
                json!({"a":"Expire","entity": ent})
            }
            _ => json!({"a":"Restart"}),
        };
        out.push(a);
    }
    out
}

static PANICS: std::sync::atomic::AtomicU64 = std::sync::atomic::AtomicU64::new(0);

/// a panic of the code under test while a future is polled is data: the process would have stopped there
struct CatchUnwind<'a, T>(std::pin::Pin<Box<dyn std::future::Future<Output = T> + 'a>>);

impl<'a, T> std::future::Future for CatchUnwind<'a, T> {
    type Output = Result<T, String>;
    fn poll(mut self: std::pin::Pin<&mut Self>, cx: &mut std::task::Context<'_>) -> std::task::Poll<Self::Output> {
        let inner = &mut self.0;
        match std::panic::catch_unwind(std::panic::AssertUnwindSafe(|| inner.as_mut().poll(cx))) {
            Ok(std::task::Poll::Ready(v)) => std::task::Poll::Ready(Ok(v)),
            Ok(std::task::Poll::Pending) => std::task::Poll::Pending,
            Err(e) => {
                let msg = e.downcast_ref::<&str>().map(|s| s.to_string()).or_else(|| e.downcast_ref::<String>().cloned()).unwrap_or_else(|| "<panic>".into());
                std::task::Poll::Ready(Err(msg))
            }
        }
    }
}

/// one stimulus; if the aggregator panics the process died there: it is restarted from its database (as an operator's
/// supervisor would) and the stimulus is reported with the panic. `None`: the restart itself died (schedule abandoned).
async fn act_or_restart(h: &mut Harness, a: &Value) -> Option<Value> {
    let hook = std::panic::take_hook();
    std::panic::set_hook(Box::new(|_| {}));
    let r = CatchUnwind(Box::pin(h.act(a))).await;
    let out = match r {
        Ok(v) => Some(v),
        Err(msg) => {
            let restart = json!({"a":"Restart"});
            match CatchUnwind(Box::pin(h.act(&restart))).await {
                // (fields other results carry are present with neutral values, so that the contract reads them safely)
                Ok(_) => Some(json!({"ok": false, "panic": msg.chars().take(200).collect::<String>(), "restarted": true,
                                     "hit": false, "at": "", "entity": "", "items": [], "status": "", "err": "panic"})),
                Err(_) => None,
            }
        }
    };
    std::panic::set_hook(hook);
    out
}

fn main() {
    let args = Args::parse();
    let seed = args.num("seed", 1);
    let out = args.req("out");
    let work = PathBuf::from(args.get("work").unwrap_or("/verif/work/agg".into()));
    let mut trace = Trace::create(&out);
    let rt = tokio::runtime::Builder::new_current_thread().enable_all().build().unwrap();
    let schedules: Vec<Vec<Value>> = match args.get("schedules") {
        Some(p) => read_ndjson(p).into_iter().map(|s| s["steps"].as_array().unwrap().clone()).collect(),
        None => {
            let mut r = rng(seed, 14);
            (0..args.num("runs", 4)).map(|_| random_schedule(&mut r, args.num("len", 40) as usize)).collect()
        }
    };
    let mut actions = 0u64;
    let mut certs_total = 0usize;
    for (si, schedule) in schedules.iter().enumerate() {
        rt.block_on(async {
            let mut h = new_harness(work.join(format!("run{si}"))).await;
            let obs = h.project().await;
            trace.emit(json!({"ev":"Start","obs":obs,"nsigners":NSIGNERS,"k":h.params.k}));
'schedule: for a in schedule {
                let Some(res) = act_or_restart(&mut h, a).await else {
                    eprintln!("PANIC (data): schedule {si} abandoned, the restart died as well");
                    break 'schedule;
                };
                if res["panic"].is_string() {
                    PANICS.fetch_add(1, std::sync::atomic::Ordering::Relaxed);
                }
                // let the spawned artifact task run to completion before observing
                for _ in 0..20 {
                    tokio::task::yield_now().await;
                }
                tokio::time::sleep(std::time::Duration::from_millis(3)).await;
                let obs = h.project().await;
                actions += 1;
                trace.emit(json!({"ev":"Obs","action":a,"result":res,"obs":obs,
                    "recorded": h.recorded.iter().map(|(e, s)| json!([e, s])).collect::<Vec<_>>()}));
            }
            // C15: after a scenario with process stops, a fault-free epilogue must certify again
            if schedule.iter().any(|a| a["a"] == "Crash") {
                let before = h.project().await;
                let epoch = before["epoch"].as_u64().unwrap();
                let last_cert_epoch = before["certs"].as_array().unwrap().iter().map(|c| c["epoch"].as_u64().unwrap()).max().unwrap_or(0);
                let signers: Vec<usize> = h.recorded.get(&(epoch.saturating_sub(1))).cloned().unwrap_or_default();
                let genesis_epoch = before["certs"][0]["epoch"].as_u64().unwrap();
                if !signers.is_empty() && last_cert_epoch + 1 >= epoch && genesis_epoch != epoch {
                    let n0 = before["certs"].as_array().unwrap().len();
                    let mut script = vec![json!({"a":"Restart"}), json!({"a":"Tick"}), json!({"a":"Tick"}), json!({"a":"Tick"}), json!({"a":"ImmUp"}), json!({"a":"Tick"}), json!({"a":"Tick"})];
                    for _round in 0..3 {
                        for ent in ["MSD", "CSD", "CDB"] {
                            for w in &signers {
                                script.push(json!({"a":"Sign","entity":ent,"who":w,"label":w,"variant":"ok"}));
                            }
                        }
                        script.push(json!({"a":"Tick"}));
                        script.push(json!({"a":"Tick"}));
                    }
                    for a in &script {
                        let Some(res) = act_or_restart(&mut h, a).await else { break };
                        if res["panic"].is_string() {
                            PANICS.fetch_add(1, std::sync::atomic::Ordering::Relaxed);
                        }
                        for _ in 0..20 {
                            tokio::task::yield_now().await;
                        }
                        tokio::time::sleep(std::time::Duration::from_millis(3)).await;
                        let obs = h.project().await;
                        actions += 1;
                        trace.emit(json!({"ev":"Obs","action":a,"result":res,"obs":obs,"epilogue":true,
                            "recorded": h.recorded.iter().map(|(e, s)| json!([e, s])).collect::<Vec<_>>()}));
                    }
                    let after = h.project().await;
                    let n1 = after["certs"].as_array().unwrap().len();
                    let crash_points: Vec<String> = schedule.iter().filter(|a| a["a"] == "Crash").map(|a| a["at"].as_str().unwrap().to_string()).collect();
                    trace.emit(json!({"ev":"Progress","certified_after_recovery": n1 > n0, "after": crash_points.join("+"), "state": after["state"]}));
                }
            }
            certs_total += h.cert_ids.len();
        });
        let _ = std::fs::remove_dir_all(work.join(format!("run{si}")));
    }
    let n = trace.finish();
    eprintln!("{}", json!({"events": n, "actions": actions, "schedules": schedules.len(), "certificates": certs_total,
        "panics_of_the_code_under_test": PANICS.load(std::sync::atomic::Ordering::Relaxed)}));
}

#[allow(dead_code)]
fn unused(_: StdResult<()>) {}
