//! C11 — honest aggregator responses from the REAL prover.
//!
//! Seeded random realistic chains (64-hex hashes, several block ranges, usually a partial last range)
//! are imported by the real `CardanoChainDataImporter` into a real sqlite file through the real
//! `AggregatorCardanoChainDataRepository`; the signed protocol messages come from the real signable
//! builders over that repository; proofs come from the real `MithrilProverService` and
//! `LegacyMithrilProverService` (`compute_cache` + `compute_*_proofs`), turned into the wire
//! messages with the same public constructors / `TryFrom` conversions the HTTP routes use
//! (`proof_routes.rs` — the route functions themselves are private).
//!
//! Output (`--out`): ndjson of `chain` records (blocks, beacons, signed protocol messages) and
//! `honest` records (format, queried hashes, wire message). `vh-common/c11_proofs --honest-from`
//! alters them; `vh-client/c11_client` verifies them.
use std::path::PathBuf;
use std::sync::Arc;

use mithril_aggregator::database::repository::AggregatorCardanoChainDataRepository;
use mithril_aggregator::services::{LegacyMithrilProverService, LegacyProverService, MithrilProverService, ProverService};
use mithril_cardano_node_chain::chain_importer::{CardanoChainDataImporter, ChainDataImporter};
use mithril_cardano_node_chain::entities::ScannedBlock;
use mithril_cardano_node_chain::test::double::DumbBlockScanner;
use mithril_common::StdResult;
use mithril_common::crypto_helper::MKTreeStoreInMemory;
use mithril_common::entities::{BlockNumber, BlockNumberOffset, BlockRange, SlotNumber};
use mithril_common::messages::{
    CardanoBlockMessagePart, CardanoBlocksProofsMessage, CardanoTransactionMessagePart, CardanoTransactionsProofsMessage,
    CardanoTransactionsProofsV2Message, CardanoTransactionsSetProofMessagePart, MkSetProofMessagePart,
};
use mithril_common::signable_builder::{
    BlocksTransactionsImporter, CardanoBlocksTransactionsSignableBuilder, CardanoTransactionsSignableBuilder, SignableBuilder,
    TransactionsImporter,
};
use mithril_persistence::database::cardano_transaction_migration;
use mithril_persistence::sqlite::{ConnectionBuilder, ConnectionOptions};
use vh_core::{Args, ChaCha20Rng, Trace, Value, below, json, rng};

type Store = MKTreeStoreInMemory;

struct Blk {
    bh: [u8; 32],
    bn: u64,
    slot: u64,
    txs: Vec<String>,
}

fn digest(tag: &str, r: &mut ChaCha20Rng) -> [u8; 32] {
    use blake2::{Blake2s256, Digest};
    Blake2s256::digest(format!("{tag}-{}", below(r, u64::MAX))).into()
}

fn random_chain(r: &mut ChaCha20Rng) -> Vec<Blk> {
    let n = 8 + below(r, 40);
    let mut bn = below(r, 20);
    let mut blocks = vec![];
    for _ in 0..n {
        let txs = (0..below(r, 4)).map(|_| hex::encode(digest("tx", r))).collect();
        blocks.push(Blk { bh: digest("block", r), bn, slot: bn * 20 + below(r, 20), txs });
        bn += 1 + below(r, 4);
    }
    blocks
}

struct NoImport;
#[async_trait::async_trait]
impl TransactionsImporter for NoImport {
    async fn import(&self, _up_to_beacon: BlockNumber) -> StdResult<()> {
        Ok(())
    }
}
#[async_trait::async_trait]
impl BlocksTransactionsImporter for NoImport {
    async fn import(&self, _up_to_beacon: BlockNumber) -> StdResult<()> {
        Ok(())
    }
}

fn logger() -> slog::Logger {
    slog::Logger::root(slog::Discard, slog::o!())
}

async fn round(round: u64, work: &PathBuf, r: &mut ChaCha20Rng, out: &mut Trace) -> StdResult<(u64, u64)> {
    let chain = random_chain(r);
    let max_bn = chain.last().unwrap().bn;
    let offset = 1 + below(r, 50);
    let db = work.join(format!("c11-chain-{round}.sqlite3"));
    let _ = std::fs::remove_file(&db);
    let pool = Arc::new(
        ConnectionBuilder::open_file(&db)
            .with_options(&[ConnectionOptions::EnableForeignKeys])
            .with_migrations(cardano_transaction_migration::get_migrations())
            .build_pool(2)?,
    );
    let repo = Arc::new(AggregatorCardanoChainDataRepository::new(pool));
    // real import: blocks, transactions, block-range roots (v2 and legacy)
    let scanned: Vec<ScannedBlock> =
        chain.iter().map(|b| ScannedBlock::new(b.bh.to_vec(), BlockNumber(b.bn), SlotNumber(b.slot), b.txs.clone())).collect();
    let importer = CardanoChainDataImporter::new(Arc::new(DumbBlockScanner::new().forwards(vec![scanned])), repo.clone(), logger());
    importer.import(BlockNumber(max_bn)).await?;

    // beacons: v2 signs up to (about) the last block, legacy the complete ranges
    let v2_up_to = max_bn - below(r, 2);
    let legacy_end = *BlockRange::all_block_ranges_in(BlockNumber(0)..=BlockNumber(max_bn)).end();
    let legacy_up_to = if legacy_end == 0 { None } else { Some(legacy_end - 1) };
    let signed_v2 = CardanoBlocksTransactionsSignableBuilder::<Store>::new(Arc::new(NoImport), repo.clone())
        .compute_protocol_message((BlockNumber(v2_up_to), BlockNumberOffset(offset)))
        .await?;
    let signed_legacy = match legacy_up_to {
        Some(u) => CardanoTransactionsSignableBuilder::<Store>::new(Arc::new(NoImport), repo.clone()).compute_protocol_message(BlockNumber(u)).await.ok(),
        None => None,
    };
    let legacy_up_to = if signed_legacy.is_some() { legacy_up_to } else { None };
    let blocks_json: Vec<Value> = chain.iter().map(|b| json!({"bh": hex::encode(b.bh), "bn": b.bn, "slot": b.slot, "txs": b.txs})).collect();
    out.emit(json!({"kind": "chain", "id": round, "blocks": blocks_json, "v2_up_to": v2_up_to, "legacy_up_to": legacy_up_to, "offset": offset,
        "signed_v2": serde_json::to_value(&signed_v2)?, "signed_legacy": signed_legacy.as_ref().map(|s| serde_json::to_value(s).unwrap())}));

    // the real provers
    let prover = MithrilProverService::<Store>::new(repo.clone(), repo.clone(), 2, logger());
    prover.compute_cache(BlockNumber(v2_up_to)).await?;
    let legacy_prover = LegacyMithrilProverService::<Store>::new(repo.clone(), repo.clone(), 2, logger());
    if let Some(u) = legacy_up_to {
        legacy_prover.compute_cache(BlockNumber(u)).await?;
    }
    let mut n = 0u64;
    for fmt in ["legacy", "tx", "blk"] {
        let up_to = match (fmt, legacy_up_to) {
            ("legacy", Some(u)) => u,
            ("legacy", None) => continue,
            _ => v2_up_to,
        };
        let pool: Vec<String> = if fmt == "blk" {
            chain.iter().filter(|b| b.bn <= up_to).map(|b| hex::encode(b.bh)).collect()
        } else {
            chain.iter().filter(|b| b.bn <= up_to).flat_map(|b| b.txs.clone()).collect()
        };
        if pool.is_empty() {
            continue;
        }
        for q in 0..6 {
            // queried subsets: one, a few spread over several ranges, with an absent one, all
            let mut hashes: Vec<String> = match q {
                0 => vec![pool[below(r, pool.len() as u64) as usize].clone()],
                5 => pool.clone(),
                _ => (0..(2 + below(r, 4))).map(|_| pool[below(r, pool.len() as u64) as usize].clone()).collect(),
            };
            let mut seen = std::collections::BTreeSet::new();
            hashes.retain(|h| seen.insert(h.clone()));
            if q == 3 {
                hashes.push(hex::encode(digest("absent", r)));
            }
            let cert_hash = format!("cert-{}-{round}", if fmt == "legacy" { "legacy" } else { "v2" });
            // as proof_routes.rs build_response_message_for_*
            let msg: Value = match fmt {
                "legacy" => {
                    let proofs = legacy_prover.compute_transactions_proofs(BlockNumber(up_to), &hashes).await?;
                    let certified: Vec<String> = proofs.iter().flat_map(|p| p.transactions_hashes().to_vec()).collect();
                    let mut parts: Vec<CardanoTransactionsSetProofMessagePart> = vec![];
                    for p in proofs {
                        parts.push(p.try_into()?);
                    }
                    let not: Vec<String> = hashes.iter().filter(|h| !certified.contains(h)).cloned().collect();
                    serde_json::to_value(CardanoTransactionsProofsMessage::new(&cert_hash, parts, not, BlockNumber(up_to)))?
                }
                "tx" => {
                    let (part, not) = match prover.compute_transactions_proofs(BlockNumber(up_to), &hashes).await? {
                        Some(sp) => {
                            let certified: Vec<String> = sp.transactions_hashes().cloned().collect();
                            let not: Vec<String> = hashes.iter().filter(|h| !certified.contains(h)).cloned().collect();
                            let part: MkSetProofMessagePart<CardanoTransactionMessagePart> = sp.try_into()?;
                            (Some(part), not)
                        }
                        None => (None, hashes.clone()),
                    };
                    serde_json::to_value(CardanoTransactionsProofsV2Message::new(&cert_hash, part, not, BlockNumber(up_to), BlockNumberOffset(offset)))?
                }
                _ => {
                    let (part, not) = match prover.compute_blocks_proofs(BlockNumber(up_to), &hashes).await? {
                        Some(sp) => {
                            let certified: Vec<String> = sp.blocks_hashes().cloned().collect();
                            let not: Vec<String> = hashes.iter().filter(|h| !certified.contains(h)).cloned().collect();
                            let part: MkSetProofMessagePart<CardanoBlockMessagePart> = sp.try_into()?;
                            (Some(part), not)
                        }
                        None => (None, hashes.clone()),
                    };
                    serde_json::to_value(CardanoBlocksProofsMessage::new(&cert_hash, part, not, BlockNumber(up_to), BlockNumberOffset(offset)))?
                }
            };
            n += 1;
            out.emit(json!({"kind": "honest", "chain": round, "fmt": fmt, "q": q, "hashes": hashes, "msg": msg}));
        }
    }
    drop(prover);
    drop(legacy_prover);
    drop(repo);
    for ext in ["", "-wal", "-shm"] {
        let _ = std::fs::remove_file(format!("{}{ext}", db.display()));
    }
    Ok((chain.len() as u64, n))
}

fn main() {
    let args = Args::parse();
    let mut out = Trace::create(args.req("out"));
    let work = PathBuf::from(args.req("work"));
    std::fs::create_dir_all(&work).unwrap();
    let mut r = rng(args.num("seed", 1), 11);
    // the real importer hops through spawn_blocking + Handle::block_on: multi-thread runtime
    let rt = tokio::runtime::Builder::new_multi_thread().worker_threads(2).enable_all().build().unwrap();
    let (mut blocks, mut msgs) = (0u64, 0u64);
    for k in 0..args.num("rounds", 4) {
        let (b, m) = rt.block_on(round(k, &work, &mut r, &mut out)).unwrap_or_else(|e| panic!("harness: real prover round {k} failed: {e:#}"));
        blocks += b;
        msgs += m;
    }
    out.finish();
    println!("{}", json!({"chains": args.num("rounds", 4), "blocks": blocks, "honest_messages": msgs}));
}
