//! C18 with the real prover in the loop: `MithrilProverService::compute_cache` (the refresh) races
//! with `compute_transactions_proofs` (the users) on the prover's own resource pool. The
//! generation a proof was computed from is recognised from its Merkle root (the cached block
//! range roots differ per generation). Events are recorded by the pool hooks inside the critical
//! sections; TLC validates them against spec/pool/PoolTrace.tla (prover events).
use std::cell::Cell;
use std::collections::{BTreeMap, BTreeSet};
use std::ops::Range;
use std::sync::atomic::{AtomicU64, Ordering};
use std::sync::{Arc, Mutex};

use async_trait::async_trait;
use mithril_aggregator::services::{BlocksTransactionsRetriever, MithrilProverService, ProverService};
use mithril_common::StdResult;
use mithril_common::crypto_helper::{MKTreeNode, MKTreeStoreInMemory};
use mithril_common::entities::{
    BlockHash, BlockNumber, BlockRange, CardanoBlock, CardanoBlockTransactionMkTreeNode, CardanoTransaction, SlotNumber,
    TransactionHash,
};
use mithril_common::signable_builder::BlockRangeRootRetriever;
use mithril_common::verif_hooks::{self, Action};
use vh_core::{Args, Trace, Value, json};

thread_local! {
    static PROC: Cell<usize> = const { Cell::new(usize::MAX) };
}

struct Recorder {
    names: Vec<String>,
    events: Mutex<Vec<Value>>,
}

impl Recorder {
    fn log(&self, mut ev: Value) {
        let p = PROC.with(|p| p.get());
        let who = if p == usize::MAX { "main".to_string() } else { self.names[p].clone() };
        ev.as_object_mut().unwrap().insert("t".into(), json!(who));
        self.events.lock().unwrap().push(ev);
    }
    fn observe(&self, name: &str, args: &[(&str, String)]) -> Action {
        let p = PROC.with(|p| p.get());
        if p == usize::MAX {
            return Action::Continue;
        }
        let is_refresher = self.names[p] == "rf";
        let num = |k: &str| -> u64 { args.iter().find(|(a, _)| *a == k).map(|(_, v)| v.parse().unwrap()).unwrap_or(0) };
        match name {
            "pool.pop" => self.log(json!({"ev":"PPop","tag":num("tag")})),
            "pool.push" if is_refresher => self.log(json!({"ev":"RPush","d":num("d"),"len":num("len")})),
            "pool.push" => self.log(json!({"ev":"PPush","d":num("d"),"len":num("len")})),
            "pool.stale_drop" => self.log(json!({"ev":"StaleDrop","d":num("d")})),
            "pool.full_drop" => self.log(json!({"ev":"FullDrop"})),
            "pool.clear" => self.log(json!({"ev":"Clear"})),
            "pool.set_disc" => self.log(json!({"ev":"SetDisc","d":num("d")})),
            "pool.set_disc_and_clear" => self.log(json!({"ev":"SetDiscAndClear","d":num("d")})),
            "pool.timeout" => self.log(json!({"ev":"Timeout"})),
            "pool.wait" => self.log(json!({"ev":"Wait"})),
            _ => {}
        }
        Action::Continue
    }
}

/// one transaction in block 3 (range 0..15); a second range 15..30 whose cached root depends on the generation
struct Txs;
fn the_tx() -> CardanoTransaction {
    CardanoTransaction::new("tx-a", BlockNumber(3), SlotNumber(30), "block-3")
}
#[async_trait]
impl BlocksTransactionsRetriever for Txs {
    async fn get_block_by_hashes(&self, _h: Vec<BlockHash>, _up_to: BlockNumber) -> StdResult<Vec<CardanoBlock>> {
        Ok(vec![])
    }
    async fn get_transactions_by_hashes(&self, h: Vec<TransactionHash>, _up_to: BlockNumber) -> StdResult<Vec<CardanoTransaction>> {
        Ok(if h.iter().any(|x| x == "tx-a") { vec![the_tx()] } else { vec![] })
    }
    async fn get_all_mk_nodes_by_ranges_of_block_numbers(&self, _r: Vec<Range<BlockNumber>>) -> StdResult<Vec<CardanoBlockTransactionMkTreeNode>> {
        Ok(vec![the_tx().into()])
    }
}

struct Roots {
    generation: Arc<AtomicU64>,
}
#[async_trait]
impl BlockRangeRootRetriever<MKTreeStoreInMemory> for Roots {
    async fn retrieve_block_range_roots<'a>(&'a self, _up_to: BlockNumber) -> StdResult<Box<dyn Iterator<Item = (BlockRange, MKTreeNode)> + 'a>> {
        let g = self.generation.load(Ordering::SeqCst);
        Ok(Box::new(
            vec![
                // the range of the queried transaction: its cached root must be the real root of its nodes
                (BlockRange::from_block_number(BlockNumber(0)), range_a_root()),
                (BlockRange::from_block_number(BlockNumber(15)), MKTreeNode::from(format!("root-b-gen-{g}"))),
            ]
            .into_iter(),
        ))
    }
    async fn retrieve_block_ranges_nodes(&self, _range: Range<BlockNumber>) -> StdResult<BTreeSet<CardanoBlockTransactionMkTreeNode>> {
        Ok(BTreeSet::new())
    }
}

fn range_a_root() -> MKTreeNode {
    let node: CardanoBlockTransactionMkTreeNode = the_tx().into();
    mithril_common::crypto_helper::MKTree::<MKTreeStoreInMemory>::new_from_iter(vec![node]).unwrap().compute_root().unwrap()
}

fn logger() -> slog::Logger {
    slog::Logger::root(slog::Discard, slog::o!())
}

fn block_on<F: std::future::Future>(f: F) -> F::Output {
    tokio::runtime::Builder::new_current_thread().enable_all().build().unwrap().block_on(f)
}

fn main() {
    let args = Args::parse();
    let mut trace = Trace::create(args.req("out"));
    let rounds = args.num("rounds", 20);
    let users = args.num("users", 3) as usize;
    let refreshes = args.num("refreshes", 4);
    let proofs_per_user = args.num("proofs", 30);
    let up_to = BlockNumber(29);

    // calibration: the root a proof has for each generation (single threaded, pool of 1)
    let max_gen = refreshes + 1;
    let mut root_of: BTreeMap<String, u64> = BTreeMap::new();
    {
        let generation = Arc::new(AtomicU64::new(0));
        let prover = MithrilProverService::<MKTreeStoreInMemory>::new(Arc::new(Txs), Arc::new(Roots { generation: generation.clone() }), 1, logger());
        for g in 1..=max_gen {
            generation.store(g, Ordering::SeqCst);
            block_on(prover.compute_cache(up_to)).unwrap();
            let p = block_on(prover.compute_transactions_proofs(up_to, &["tx-a".to_string()])).unwrap().unwrap();
            root_of.insert(p.merkle_root(), g);
        }
    }
    assert_eq!(root_of.len() as u64, max_gen, "generations must have distinct roots");
    let root_of = Arc::new(root_of);

    let mut proved = 0u64;
    for round in 0..rounds {
        let size = 1 + (round % 3) as usize;
        let mut names: Vec<String> = (1..=users).map(|i| format!("u{i}")).collect();
        names.push("rf".into());
        let rec = Arc::new(Recorder { names: names.clone(), events: Mutex::new(vec![]) });
        let obs = rec.clone();
        verif_hooks::install(Some(Arc::new(move |n: &str, a: &[(&str, String)]| obs.observe(n, a))));
        let generation = Arc::new(AtomicU64::new(1));
        let prover = Arc::new(MithrilProverService::<MKTreeStoreInMemory>::new(Arc::new(Txs), Arc::new(Roots { generation: generation.clone() }), size, logger()));
        trace.emit(json!({"ev":"NewPool","size":size,"sched":format!("prover-{round}"),"t":"main","initial":0}));
        // first refresh before anybody asks (generation 1)
        {
            let rf = names.len() - 1;
            PROC.with(|p| p.set(rf));
            rec.log(json!({"ev":"RefreshBegin"}));
            block_on(prover.compute_cache(up_to)).unwrap();
            rec.log(json!({"ev":"RefreshDone","gen":1}));
            PROC.with(|p| p.set(usize::MAX));
        }
        let mut handles = vec![];
        for u in 0..users {
            let (prover, rec, root_of) = (prover.clone(), rec.clone(), root_of.clone());
            handles.push(std::thread::spawn(move || {
                PROC.with(|p| p.set(u));
                let mut n = 0u64;
                for _ in 0..proofs_per_user {
                    match block_on(prover.compute_transactions_proofs(up_to, &["tx-a".to_string()])) {
                        Ok(Some(p)) => {
                            let g = root_of.get(&p.merkle_root()).copied().unwrap_or(0);
                            rec.log(json!({"ev":"Proved","gen":g,"verifies":p.verify().is_ok()}));
                            n += 1;
                        }
                        Ok(None) => rec.log(json!({"ev":"ProofNone"})),
                        Err(_) => rec.log(json!({"ev":"AcquireFailed"})),
                    }
                }
                n
            }));
        }
        {
            let (prover, rec, generation) = (prover.clone(), rec.clone(), generation.clone());
            let rf = names.len() - 1;
            handles.push(std::thread::spawn(move || {
                PROC.with(|p| p.set(rf));
                for g in 2..=(refreshes + 1) {
                    std::thread::yield_now();
                    generation.store(g, Ordering::SeqCst);
                    rec.log(json!({"ev":"RefreshBegin"}));
                    block_on(prover.compute_cache(up_to)).unwrap();
                    rec.log(json!({"ev":"RefreshDone","gen":g}));
                }
                0
            }));
        }
        for h in handles {
            proved += h.join().unwrap();
        }
        verif_hooks::install(None);
        for e in std::mem::take(&mut *rec.events.lock().unwrap()) {
            trace.emit(e);
        }
    }
    let n = trace.finish();
    println!("{}", json!({"events": n, "rounds": rounds, "proofs": proved}));
}
