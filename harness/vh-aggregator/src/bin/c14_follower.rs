//! C14F — a real LEADER aggregator and a real FOLLOWER aggregator (config `leader_aggregator_endpoint`),
//! both wired through the repository's own `RuntimeTester`, in one process; the follower talks to the
//! leader over HTTP exactly as in mithril-aggregator/tests/create_certificate_follower.rs (same routes,
//! served from the leader's real message service; this harness's server can additionally be switched
//! "down" and follows a leader restart).
//!
//! A schedule (from TLC, spec/aggregator/Follower.tla, or from the seeded driver) is executed one
//! stimulus at a time; after every stimulus the whole abstract state of the FOLLOWER's store is projected
//! from its sqlite database (same projection as c14_agg; `verifies` = the public verifier accepts the
//! chain with a retriever that reads ONLY the follower's store) and logged as an `Obs` event, validated
//! by TLC against spec/aggregator/FollowerTrace.tla.
#[allow(unused_macros, unused_imports)]
#[path = "/repo/mithril-aggregator/tests/test_extensions/mod.rs"]
#[macro_use]
mod test_extensions;
#[path = "../aggkit.rs"]
mod aggkit;

use std::collections::BTreeSet;
use std::path::PathBuf;
use std::sync::atomic::{AtomicBool, AtomicU64, Ordering};
use std::sync::{Arc, RwLock};

use aggkit::{Harness, NSIGNERS};
use axum::{
    Json, Router,
    extract::{Path, State},
    http::StatusCode,
    response::{IntoResponse, Response},
    routing::get,
};
use mithril_aggregator::ServeCommandConfiguration;
use mithril_aggregator::services::MessageService;
use mithril_common::certificate_chain::CertificateGenesisProducer;
use mithril_common::entities::{
    BlockNumber, CertificateSignature, ChainPoint, Epoch, ProtocolParameters, SignedEntityTypeDiscriminants, SlotNumber, SupportedEra, TimePoint,
};
use mithril_common::test::builder::MithrilFixtureBuilder;
use test_extensions::RuntimeTester;
use vh_core::{Args, ChaCha20Rng, Trace, Value, below, json, read_ndjson, rng};

// -------------------------------------------------------------------------------------------
// the leader's HTTP face: the routes of tests/test_extensions/leader_aggregator_http_server.rs
// -------------------------------------------------------------------------------------------
#[derive(Clone)]
struct Srv {
    ms: Arc<RwLock<Arc<dyn MessageService>>>,
    down: Arc<AtomicBool>,
    hits: Arc<AtomicU64>,
}

impl Srv {
    fn service(&self) -> Result<Arc<dyn MessageService>, Response> {
        self.hits.fetch_add(1, Ordering::SeqCst);
        if self.down.load(Ordering::SeqCst) {
            return Err((StatusCode::SERVICE_UNAVAILABLE, Json("leader down".to_string())).into_response());
        }
        Ok(self.ms.read().unwrap().clone())
    }
}

fn ise(err: impl std::fmt::Display) -> Response {
    (StatusCode::INTERNAL_SERVER_ERROR, Json(err.to_string())).into_response()
}

async fn epoch_settings(state: State<Srv>) -> Response {
    let ms = match state.service() {
        Ok(m) => m,
        Err(r) => return r,
    };
    match ms.get_epoch_settings_message(SignedEntityTypeDiscriminants::all()).await {
        Ok(message) => (StatusCode::OK, Json(message)).into_response(),
        Err(err) => ise(err),
    }
}

async fn certificates_list(state: State<Srv>) -> Response {
    let ms = match state.service() {
        Ok(m) => m,
        Err(r) => return r,
    };
    match ms.get_certificate_list_message(5).await {
        Ok(message) => (StatusCode::OK, Json(message)).into_response(),
        Err(err) => ise(err),
    }
}

async fn certificate_last_genesis(state: State<Srv>) -> Response {
    let ms = match state.service() {
        Ok(m) => m,
        Err(r) => return r,
    };
    match ms.get_latest_genesis_certificate_message().await {
        Ok(Some(message)) => (StatusCode::OK, Json(message)).into_response(),
        Ok(None) => StatusCode::NOT_FOUND.into_response(),
        Err(err) => ise(err),
    }
}

async fn certificate_by_hash(Path(hash): Path<String>, state: State<Srv>) -> Response {
    let ms = match state.service() {
        Ok(m) => m,
        Err(r) => return r,
    };
    match ms.get_certificate_message(&hash).await {
        Ok(Some(message)) => (StatusCode::OK, Json(message)).into_response(),
        Ok(None) => StatusCode::NOT_FOUND.into_response(),
        Err(err) => ise(err),
    }
}

async fn protocol_configuration_by_epoch(Path(epoch): Path<u64>, state: State<Srv>) -> Response {
    let ms = match state.service() {
        Ok(m) => m,
        Err(r) => return r,
    };
    match ms.get_protocol_configuration_message(Epoch(epoch), SignedEntityTypeDiscriminants::all()).await {
        Ok(Some(message)) => (StatusCode::OK, Json(message)).into_response(),
        Ok(None) => StatusCode::NOT_FOUND.into_response(),
        Err(err) => ise(err),
    }
}

struct LeaderServer {
    _server: axum_test::TestServer,
    url: String,
    srv: Srv,
}

impl LeaderServer {
    fn spawn(ms: Arc<dyn MessageService>) -> LeaderServer {
        let srv = Srv { ms: Arc::new(RwLock::new(ms)), down: Arc::new(AtomicBool::new(false)), hits: Arc::new(AtomicU64::new(0)) };
        let router = Router::new()
            .route("/epoch-settings", get(epoch_settings))
            .route("/certificates", get(certificates_list))
            .route("/certificate/genesis", get(certificate_last_genesis))
            .route("/certificate/{hash}", get(certificate_by_hash))
            .route("/protocol-configuration/{epoch}", get(protocol_configuration_by_epoch))
            .with_state(srv.clone());
        let server = axum_test::TestServer::builder().http_transport().build(router);
        let url = server.server_address().unwrap().to_string();
        LeaderServer { _server: server, url, srv }
    }
}

// -------------------------------------------------------------------------------------------
/// a panic of the code under test while a future is polled is data: the process would have stopped there
struct CatchUnwind<'a, T>(std::pin::Pin<Box<dyn std::future::Future<Output = T> + 'a>>);

impl<'a, T> std::future::Future for CatchUnwind<'a, T> {
    type Output = Result<T, String>;
    fn poll(mut self: std::pin::Pin<&mut Self>, cx: &mut std::task::Context<'_>) -> std::task::Poll<Self::Output> {
        let inner = &mut self.0;
        match std::panic::catch_unwind(std::panic::AssertUnwindSafe(|| inner.as_mut().poll(cx))) {
            Ok(std::task::Poll::Ready(v)) => std::task::Poll::Ready(Ok(v)),
            Ok(std::task::Poll::Pending) => std::task::Poll::Pending,
            Err(e) => {
                let msg = e.downcast_ref::<&str>().map(|s| s.to_string()).or_else(|| e.downcast_ref::<String>().cloned()).unwrap_or_else(|| "<panic>".into());
                std::task::Poll::Ready(Err(msg))
            }
        }
    }
}

struct Pair {
    leader: Harness,
    follower: Harness,
    server: LeaderServer,
    /// every certificate hash any leader store ever held
    leader_hashes: BTreeSet<String>,
    rng: ChaCha20Rng,
}

fn start_point() -> TimePoint {
    TimePoint {
        epoch: Epoch(1),
        immutable_file_number: 1,
        chain_point: ChainPoint { slot_number: SlotNumber(10), block_number: BlockNumber(100), block_hash: "block_hash-100".to_string() },
    }
}

fn keep_global_logger() {
    // dropping a RuntimeTester resets slog's global logger to one that panics on use
    let g = slog_scope::set_global_logger(slog::Logger::root(slog::Discard, slog::o!()));
    std::mem::forget(g);
}

impl Pair {
    /// `warm`: the follower's stores hold the stake distribution and signer registrations of the genesis
    /// window (as if it had been following since before the genesis); otherwise it starts from empty stores
    async fn new(dir: PathBuf, seed: u64, idx: u64, warm: bool) -> Pair {
        let params = ProtocolParameters { k: 2, m: 30, phi_f: 0.95 };
        let _ = std::fs::remove_dir_all(&dir);
        for d in ["lstores", "fstores"] {
            std::fs::create_dir_all(dir.join(d)).unwrap();
        }
        let leader_config = ServeCommandConfiguration {
            protocol_parameters: Some(params.clone()),
            signed_entity_types: Some(format!(
                "{},{}",
                SignedEntityTypeDiscriminants::CardanoStakeDistribution,
                SignedEntityTypeDiscriminants::CardanoDatabase
            )),
            data_stores_directory: dir.join("lstores"),
            ..ServeCommandConfiguration::new_sample(dir.join("lsample"))
        };
        let mut ltester = RuntimeTester::build(start_point(), leader_config.clone()).await;
        let fixture = MithrilFixtureBuilder::default().with_signers(NSIGNERS).with_protocol_parameters(params.clone()).build();
        ltester.init_state_from_fixture(&fixture).await.unwrap();
        ltester.register_genesis_certificate(&fixture).await.unwrap();
        let server = LeaderServer::spawn(ltester.dependencies.message_service.clone());
        let mut leader = Harness::from_parts(ltester, leader_config.clone(), fixture.clone(), params.clone(), dir.join("lstores").join("aggregator.sqlite3"));
        for e in 0..=1u64 {
            leader.recorded.insert(e, (0..NSIGNERS).collect());
        }
        // the leader is up and running in its genesis epoch (it serves its epoch settings), everybody registers
        leader.act(&json!({"a":"Tick"})).await;
        let who: Vec<usize> = (0..NSIGNERS).collect();
        leader.act(&json!({"a":"Register","who": who})).await;
        // the follower: same configuration, its own stores, pointed at the leader, protocol parameters from the network
        let follower_config = ServeCommandConfiguration {
            data_stores_directory: dir.join("fstores"),
            snapshot_directory: dir.join("fsample"),
            leader_aggregator_endpoint: Some(server.url.clone()),
            protocol_parameters: None,
            ..leader_config.clone()
        };
        std::fs::create_dir_all(dir.join("fsample")).unwrap();
        let mut ftester = RuntimeTester::build(start_point(), follower_config.clone()).await;
        // the follower observes the same Cardano stake distribution as the leader
        ftester.chain_observer.set_signers(fixture.signers_with_stake()).await;
        if warm {
            ftester.init_state_from_fixture(&fixture).await.unwrap();
        }
        let mut follower = Harness::from_parts(ftester, follower_config, fixture, params, dir.join("fstores").join("aggregator.sqlite3"));
        follower.foreign = Some(BTreeSet::new());
        follower.recorded = leader.recorded.clone();
        Pair { leader, follower, server, leader_hashes: BTreeSet::new(), rng: rng(seed, 1400 + idx) }
    }

    fn leader_down(&self) -> bool {
        self.server.srv.down.load(Ordering::SeqCst)
    }

    /// a follower can only start while its leader is reachable and serves the protocol configuration of the follower's
    /// epoch window (e-1, e, e+1): the real start-up reads it from the leader and fails otherwise (the supervisor's
    /// retry succeeds once the leader has caught up)
    async fn follower_can_start(&self) -> bool {
        if self.leader_down() {
            return false;
        }
        let e = *self.follower.tester.observer.current_epoch().await;
        let ms = self.server.srv.ms.read().unwrap().clone();
        for q in [e.saturating_sub(1), e, e + 1] {
            match ms.get_protocol_configuration_message(Epoch(q), SignedEntityTypeDiscriminants::all()).await {
                Ok(Some(_)) => {}
                _ => return false,
            }
        }
        true
    }

    fn leader_cert_count(&self) -> i64 {
        let conn = sqlite::open(&self.leader.db_path).unwrap();
        conn.prepare("select count(*) from certificate").unwrap().into_iter().next().unwrap().unwrap().read::<i64, _>(0)
    }

    fn fdb(&self) -> sqlite::Connection {
        sqlite::open(&self.follower.db_path).unwrap()
    }

    async fn settle() {
        for _ in 0..20 {
            tokio::task::yield_now().await;
        }
        tokio::time::sleep(std::time::Duration::from_millis(3)).await;
    }

    async fn act(&mut self, a: &Value) -> Value {
        let name = a["a"].as_str().unwrap();
        let node = a["node"].as_str().unwrap_or("F");
        match (name, node) {
            ("LeaderDown", _) => {
                self.server.srv.down.store(true, Ordering::SeqCst);
                json!({"ok": true})
            }
            ("LeaderUp", _) => {
                self.server.srv.down.store(false, Ordering::SeqCst);
                json!({"ok": true})
            }
            ("EpochUp", "B") => {
                let r = self.leader.act(a).await;
                self.follower.act(a).await;
                r
            }
            ("ImmUp", "B") => {
                let r = self.leader.act(a).await;
                self.follower.act(a).await;
                r
            }
            ("Restart", "L") | ("Crash", "L") => {
                let r = self.leader.act(a).await;
                *self.server.srv.ms.write().unwrap() = self.leader.tester.dependencies.message_service.clone();
                r
            }
            ("Regenesis", _) => {
                // the leader's operator bootstraps a new genesis certificate for the leader's current epoch
                // (the genesis command runs on a stopped node: the leader is restarted afterwards)
                let epoch = *self.leader.tester.observer.current_epoch().await;
                let Some(set) = self.leader.recorded.get(&epoch).cloned().filter(|s| !s.is_empty()) else {
                    return json!({"ok": false, "err": "no signer registered for the next epoch"});
                };
                let Some(builder) = self.leader.builder_for(&set) else {
                    return json!({"ok": false, "err": "no signer builder"});
                };
                let avk = builder.compute_aggregate_verification_key();
                let producer = CertificateGenesisProducer::new();
                let era = SupportedEra::Pythagoras;
                let msg = producer.create_genesis_protocol_message(&self.leader.params, &avk, &Epoch(epoch), era).unwrap();
                let CertificateSignature::GenesisSignature(sig) = self.leader.tester.genesis_signer.sign(&msg, era, &mut self.rng).unwrap() else {
                    panic!("unexpected genesis signature kind");
                };
                let cert = producer
                    .create_legacy_genesis_certificate(self.leader.params.clone(), self.leader.tester.network.clone(), Epoch(epoch), avk, sig, era)
                    .unwrap();
                let r = self.leader.tester.dependencies.certificate_repository.create_certificate(cert).await;
                self.leader.act(&json!({"a": "Restart"})).await;
                *self.server.srv.ms.write().unwrap() = self.leader.tester.dependencies.message_service.clone();
                // the restarted leader runs its cycle (blocked in the genesis epoch) and serves its epoch again
                for _ in 0..3 {
                    self.leader.act(&json!({"a":"Tick"})).await;
                    if self.leader.tester.runtime.state_label() != "idle" {
                        break;
                    }
                }
                let who: Vec<usize> = (0..NSIGNERS).collect();
                self.leader.act(&json!({"a":"Register","who": who})).await;
                json!({"ok": r.is_ok(), "epoch": epoch, "state": self.leader.tester.runtime.state_label()})
            }
            ("LEpochUp", _) => {
                // the chain turns an epoch for the leader, the leader runs its epoch initialisation (and from then on
                // serves the new epoch), every party registers for the next epoch
                self.leader.act(&json!({"a":"EpochUp","n":1})).await;
                let mut ticks = 0;
                for _ in 0..5 {
                    self.leader.act(&json!({"a":"Tick"})).await;
                    ticks += 1;
                    let st = self.leader.tester.runtime.state_label();
                    if st != "idle" && st != "signing" {
                        break;
                    }
                }
                let who: Vec<usize> = match a["who"].as_array() {
                    Some(w) => w.iter().map(|v| v.as_u64().unwrap() as usize).collect(),
                    None => (0..NSIGNERS).collect(),
                };
                let reg = self.leader.act(&json!({"a":"Register","who": who})).await;
                json!({"ok": reg["ok"], "ticks": ticks, "state": self.leader.tester.runtime.state_label()})
            }
            ("LCertify", _) => {
                // the leader certifies its current signed entity of the given kind: rounds that come before it in the
                // leader's order and are still open expire (that is the only way the leader gets past them)
                let want = a["entity"].as_str().unwrap().to_string();
                let order = ["MSD", "CSD", "CDB"];
                let n0 = self.leader_cert_count();
                let mut expired: Vec<String> = vec![];
                let mut ok = false;
                for _ in 0..12 {
                    let st = self.leader.tester.runtime.state_label();
                    if st.starts_with("blocked") {
                        break;
                    }
                    if st != "signing" {
                        self.leader.act(&json!({"a":"Tick"})).await;
                        continue;
                    }
                    // the round the leader is signing: the first kind whose current open message is neither certified nor expired
                    let mut current = None;
                    for k in order {
                        if let Ok(Some(m)) = self.leader.tester.observer.get_current_open_message(aggkit::disc_of(k)).await {
                            if !m.is_certified && !m.is_expired {
                                current = Some(k);
                                break;
                            }
                        } else {
                            current = Some(k);
                            break;
                        }
                    }
                    let Some(cur) = current else { break };
                    if cur == want {
                        for w in 0..NSIGNERS {
                            self.leader.act(&json!({"a":"Sign","entity":want,"who":w,"label":w,"variant":"ok"})).await;
                        }
                        self.leader.act(&json!({"a":"Tick"})).await;
                        Self::settle().await;
                        ok = self.leader_cert_count() > n0;
                        break;
                    }
                    if order.iter().position(|k| *k == cur) > order.iter().position(|k| *k == want.as_str()) {
                        break; // already past it
                    }
                    self.leader.act(&json!({"a":"Expire","entity":cur})).await;
                    self.leader.act(&json!({"a":"Tick"})).await;
                    expired.push(cur.to_string());
                }
                json!({"ok": ok, "expired": expired, "state": self.leader.tester.runtime.state_label()})
            }
            ("Restart", "F") => {
                if !self.follower_can_start().await {
                    return json!({"ok": false, "err": "the leader is down or does not serve the follower's epoch window"});
                }
                self.follower.act(a).await
            }
            ("Crash", "F") if a["at"].as_str().unwrap_or("").starts_with("sync.") => {
                // a process stop inside the certificate chain synchroniser: the named database write fails
                // (an ABORT raised by a trigger armed for this one cycle), the error propagates, then every
                // in-memory object of the follower is dropped and rebuilt from the database
                if !self.follower_can_start().await {
                    return json!({"ok": false, "hit": false, "at": a["at"], "err": "the leader is down or does not serve the follower's epoch window"});
                }
                let at = a["at"].as_str().unwrap().to_string();
                let ddl = match at.as_str() {
                    // after insert_or_replace_many, before insert_or_replace_open_message (only the synchroniser
                    // inserts an open message that is already certified)
                    "sync.after_store" => "create trigger verif_stop before insert on open_message when NEW.is_certified = 1 begin select raise(abort, 'verif stop'); end",
                    // before insert_or_replace_many (the batch starts with a genesis certificate)
                    "sync.before_store" => "create trigger verif_stop before insert on certificate when NEW.parent_certificate_id is null begin select raise(abort, 'verif stop'); end",
                    other => panic!("unknown stop point {other}"),
                };
                self.fdb().execute(ddl).unwrap();
                // (the repository's sqlite cursor panics on a failing statement: the stop is a panic here)
                let hook = std::panic::take_hook();
                std::panic::set_hook(Box::new(|_| {}));
                let r = CatchUnwind(Box::pin(self.follower.tester.cycle())).await;
                std::panic::set_hook(hook);
                Self::settle().await;
                self.fdb().execute("drop trigger verif_stop").unwrap();
                let (ok, hit) = match &r {
                    Ok(Ok(())) => (true, false),
                    Ok(Err(e)) => (false, format!("{e:?}").contains("verif stop")),
                    Err(panic) => (false, panic.contains("verif stop")),
                };
                // (a panic that is not the armed stop is data as well: the process died, it is restarted)
                let other_panic = match &r {
                    Err(p) if !hit => p.chars().take(200).collect::<String>(),
                    _ => String::new(),
                };
                self.follower.tester.rebuild(self.follower.config.clone()).await;
                self.follower.verified.clear();
                // the signed entity of the last stored certificate (what the interrupted synchronisation left behind)
                let mut entity = String::new();
                if hit {
                    let conn = self.fdb();
                    for r in conn.prepare("select cast(signed_entity_type_id as integer), cast(signed_entity_beacon as text) from certificate order by rowid desc limit 1").unwrap().into_iter() {
                        let r = r.unwrap();
                        let t = match r.read::<i64, _>(0) { 0 => "MSD", 1 => "CSD", 2 => "CIF", 3 => "CTX", 4 => "CDB", _ => "CBT" };
                        entity = format!("{}:{}", t, r.read::<&str, _>(1).replace('"', ""));
                    }
                }
                json!({"ok": ok, "hit": hit, "at": at, "entity": entity, "panic": other_panic})
            }
            ("Tick", "F") => {
                // a panic of the follower's cycle is data: the process died there; it is restarted when it can be
                let hook = std::panic::take_hook();
                std::panic::set_hook(Box::new(|_| {}));
                let r = CatchUnwind(Box::pin(self.follower.act(a))).await;
                std::panic::set_hook(hook);
                match r {
                    Ok(v) => v,
                    Err(panic) => {
                        let restarted = self.follower_can_start().await;
                        if restarted {
                            self.follower.tester.rebuild(self.follower.config.clone()).await;
                            self.follower.verified.clear();
                        }
                        json!({"ok": false, "panic": panic.chars().take(200).collect::<String>(), "restarted": restarted})
                    }
                }
            }
            (_, "L") => self.leader.act(a).await,
            (_, _) => self.follower.act(a).await,
        }
    }

    /// the follower's store, and what the leader looks like from outside
    async fn observe(&mut self) -> (Value, Value) {
        // leader's certificates (ids shared with the follower's projection)
        let conn = sqlite::open(&self.leader.db_path).unwrap();
        let rows: Vec<(String, Option<String>, i64, i64, String)> = conn
            .prepare("select certificate_id, parent_certificate_id, cast(epoch as integer), cast(signed_entity_type_id as integer), cast(signed_entity_beacon as text) from certificate order by rowid")
            .unwrap()
            .into_iter()
            .map(|r| {
                let r = r.unwrap();
                (r.read::<&str, _>(0).to_string(), r.read::<Option<&str>, _>(1).map(|s| s.to_string()), r.read::<i64, _>(2), r.read::<i64, _>(3), r.read::<&str, _>(4).to_string())
            })
            .collect();
        for (hash, ..) in &rows {
            self.leader_hashes.insert(hash.clone());
            let n = self.follower.cert_ids.len();
            self.follower.cert_ids.entry(hash.clone()).or_insert(n + 1);
        }
        self.follower.foreign = Some(self.leader_hashes.clone());
        self.follower.recorded = self.leader.recorded.clone();
        let type_name = |id: i64| match id {
            0 => "MSD",
            1 => "CSD",
            4 => "CDB",
            _ => "OTHER",
        };
        let lcerts: Vec<Value> = rows
            .iter()
            .map(|(hash, parent, epoch, type_id, beacon)| {
                json!({"id": self.follower.cert_ids[hash], "parent": parent.as_ref().and_then(|p| self.follower.cert_ids.get(p)).copied().unwrap_or(0),
                       "epoch": epoch, "kind": if parent.is_none() { "genesis" } else { "std" },
                       "entity": format!("{}:{}", type_name(*type_id), beacon.replace('"', ""))})
            })
            .collect();
        let ltp = self.leader.tester.observer.current_time_point().await;
        let leader = json!({"state": self.leader.tester.runtime.state_label(), "epoch": *ltp.epoch, "imm": ltp.immutable_file_number,
                            "up": !self.leader_down(), "certs": lcerts});
        let obs = self.follower.project().await;
        (obs, leader)
    }
}

/// seeded driver: epoch rounds in which the leader certifies some of its rounds (letting earlier ones expire), the
/// follower cycles and receives signatures, with rationed faults; the two nodes see an epoch turn together, one
/// after the other, or one of them misses it
fn random_schedule(r: &mut ChaCha20Rng, rounds: usize) -> Vec<Value> {
    let mut out = vec![];
    // who registers with the leader for the next epoch: most of the time everybody, sometimes three of the four parties
    fn lepoch(r: &mut ChaCha20Rng) -> Value {
        if below(r, 3) == 0 {
            let out_ = below(r, NSIGNERS as u64) as usize;
            let who: Vec<usize> = (0..NSIGNERS).filter(|i| *i != out_).collect();
            json!({"a":"LEpochUp","who": who})
        } else {
            json!({"a":"LEpochUp"})
        }
    }
    let kinds = ["MSD", "CSD", "CDB"];
    let mut down = false;
    out.push(json!({"a":"Tick","node":"F"}));
    for _ in 0..rounds {
        // what the leader certifies in this epoch, in its own order
        let skip_msd = below(r, 6) == 0;
        let n = below(r, 4) as usize;
        let leader_kinds: Vec<&str> = kinds.iter().skip(if skip_msd { 1 } else { 0 }).take(n).copied().collect();
        let mut todo: Vec<Value> = leader_kinds.iter().map(|k| json!({"a":"LCertify","entity":k})).collect();
        let fsteps = 5 + below(r, 8);
        for _ in 0..fsteps {
            // leader certifications are interleaved with what happens to the follower
            if !todo.is_empty() && below(r, 3) == 0 {
                out.push(todo.remove(0));
            }
            if below(r, 6) == 0 {
                // a productive stretch: the follower cycles, the signers answer each round it opens
                out.push(json!({"a":"Tick","node":"F"}));
                for ent in kinds.iter().take(1 + below(r, 3) as usize) {
                    out.push(json!({"a":"Tick","node":"F"}));
                    out.push(json!({"a":"Sign","node":"F","entity":ent,"who":0,"all":true}));
                    out.push(json!({"a":"Tick","node":"F"}));
                }
                continue;
            }
            let a = match below(r, 40) {
                0..=17 => json!({"a":"Tick","node":"F"}),
                18..=29 => {
                    let ent = kinds[below(r, 3) as usize];
                    json!({"a":"Sign","node":"F","entity":ent,"who":0,"all":true})
                }
                30 | 31 => json!({"a":"ImmUp","node":"B"}),
                32 | 33 => json!({"a":"Restart","node":"F"}),
                34 | 35 => json!({"a":"Crash","node":"F","at": if below(r, 4) == 0 { "sync.before_store" } else { "sync.after_store" }}),
                36 => {
                    down = !down;
                    json!({"a": if down { "LeaderDown" } else { "LeaderUp" }})
                }
                37 => json!({"a":"Regenesis"}),
                38 => {
                    let ent = kinds[below(r, 3) as usize];
                    json!({"a":"Expire","node":"F","entity":ent})
                }
                _ => json!({"a":"Restart","node":"L"}),
            };
            out.push(a);
        }
        out.append(&mut todo);
        if down && below(r, 2) == 0 {
            down = false;
            out.push(json!({"a":"LeaderUp"}));
        }
        // the epoch turns
        match below(r, 10) {
            0..=5 => {
                out.push(lepoch(r));
                out.push(json!({"a":"EpochUp","node":"F","n":1}));
            }
            6 => {
                out.push(json!({"a":"EpochUp","node":"F","n":1}));
                out.push(json!({"a":"Tick","node":"F"}));
                out.push(lepoch(r));
            }
            7 => {
                // the follower sees it late
                out.push(lepoch(r));
                out.push(json!({"a":"LCertify","entity":"MSD"}));
                out.push(json!({"a":"Tick","node":"F"}));
                out.push(json!({"a":"EpochUp","node":"F","n":1}));
            }
            8 => {
                // two epochs at once for the follower (it was not looking), one after the other for the leader
                out.push(lepoch(r));
                out.push(json!({"a":"LCertify","entity":"MSD"}));
                out.push(lepoch(r));
                out.push(json!({"a":"EpochUp","node":"F","n":2}));
            }
            _ => {
                // nobody certifies anything for an epoch
                out.push(lepoch(r));
                out.push(json!({"a":"EpochUp","node":"F","n":1}));
                out.push(json!({"a":"Tick","node":"F"}));
                out.push(json!({"a":"Tick","node":"F"}));
                out.push(lepoch(r));
                out.push(json!({"a":"EpochUp","node":"F","n":1}));
            }
        }
    }
    out
}

fn main() {
    let args = Args::parse();
    let seed = args.num("seed", 1);
    let out = args.req("out");
    let work = PathBuf::from(args.get("work").unwrap_or("/verif/work/aggf".into()));
    let verbose = args.flag("verbose");
    let mut trace = Trace::create(&out);
    let rt = tokio::runtime::Builder::new_current_thread().enable_all().build().unwrap();
    let schedules: Vec<(bool, Vec<Value>)> = match args.get("schedules") {
        Some(p) => read_ndjson(p).into_iter().map(|s| (s["warm"].as_bool().unwrap_or(false), s["steps"].as_array().unwrap().clone())).collect(),
        None => {
            let mut r = rng(seed, 141);
            (0..args.num("runs", 4)).map(|i| (i % 2 == 0, random_schedule(&mut r, args.num("rounds", 7) as usize))).collect()
        }
    };
    let mut actions = 0u64;
    let mut stats = std::collections::BTreeMap::<String, u64>::new();
    for (si, (warm, schedule)) in schedules.iter().enumerate() {
        rt.block_on(async {
            let mut p = Pair::new(work.join(format!("run{si}")), seed, si as u64, *warm).await;
            let (obs, leader) = p.observe().await;
            trace.emit(json!({"ev":"Start","obs":obs,"leader":leader,"nsigners":NSIGNERS,"k":p.leader.params.k,"schedule":si,"warm":*warm}));
            let mut prev_ids: Vec<u64> = vec![];
'schedule: for a in schedule {
                // "all": every party registered for the signing epoch signs (one stimulus per party)
                let steps: Vec<Value> = if a["a"] == "Sign" && a["all"].as_bool().unwrap_or(false) {
                    (0..NSIGNERS).map(|w| { let mut b = a.clone(); b["who"] = json!(w); b["label"] = json!(w); b.as_object_mut().unwrap().remove("all"); b }).collect()
                } else {
                    vec![a.clone()]
                };
                for a in &steps {
                    // a panic of the code under test outside the places where the harness restarts the node itself is
                    // data too: the process died; the rest of this schedule is abandoned (counted, not judged)
                    let hook = std::panic::take_hook();
                    std::panic::set_hook(Box::new(|_| {}));
                    let caught = CatchUnwind(Box::pin(p.act(a))).await;
                    std::panic::set_hook(hook);
                    let res = match caught {
                        Ok(v) => v,
                        Err(msg) => {
                            *stats.entry("schedules_abandoned_after_a_panic".to_string()).or_default() += 1;
                            eprintln!("PANIC (data) in schedule {si} at {a}: {}", msg.chars().take(200).collect::<String>());
                            break 'schedule;
                        }
                    };
                    Pair::settle().await;
                    let (obs, leader) = p.observe().await;
                    actions += 1;
                    // what happened to the follower's store (statistics only; the contract recomputes everything)
                    let ids: Vec<u64> = obs["certs"].as_array().unwrap().iter().map(|c| c["id"].as_u64().unwrap()).collect();
                    if ids != prev_ids {
                        let append = ids.len() >= prev_ids.len() && ids[..prev_ids.len()] == prev_ids[..];
                        let certs = obs["certs"].as_array().unwrap();
                        let new_own = certs.iter().any(|c| c["origin"] == "own" && !prev_ids.contains(&c["id"].as_u64().unwrap()));
                        let new_genesis = certs.iter().any(|c| c["kind"] == "genesis" && !prev_ids.contains(&c["id"].as_u64().unwrap()));
                        let own_before = certs.iter().any(|c| c["origin"] == "own" && prev_ids.contains(&c["id"].as_u64().unwrap()));
                        let key = if new_own {
                            "own_certificates"
                        } else if prev_ids.is_empty() {
                            "first_sync"
                        } else if append && new_genesis {
                            if own_before { "resync_new_genesis_with_own_certificates" } else { "resync_new_genesis" }
                        } else if !append {
                            if own_before { "resync_replace_with_own_certificates" } else { "resync_replace" }
                        } else {
                            "resync_same_genesis_append"
                        };
                        *stats.entry(key.to_string()).or_default() += 1;
                    }
                    prev_ids = ids;
                    if a["a"] == "Crash" && res["hit"] == true {
                        *stats.entry(format!("stop_{}", a["at"].as_str().unwrap())).or_default() += 1;
                    }
                    if verbose {
                        eprintln!("{} -> {} | F {} e{} certs {} | L {} e{} certs {}", a, res, obs["state"], obs["epoch"], obs["certs"].as_array().unwrap().len(),
                                  leader["state"], leader["epoch"], leader["certs"].as_array().unwrap().len());
                    }
                    trace.emit(json!({"ev":"Obs","action":a,"result":res,"obs":obs,"leader":leader,
                        "recorded": p.leader.recorded.iter().map(|(e, s)| json!([e, s])).collect::<Vec<_>>()}));
                }
            }
            drop(p);
            keep_global_logger();
        });
        let _ = std::fs::remove_dir_all(work.join(format!("run{si}")));
    }
    let n = trace.finish();
    eprintln!("{}", json!({"events": n, "actions": actions, "schedules": schedules.len(), "store_changes": stats}));
}
