"""C16 -- a stored signature is attributed to the party whose registered key produced it."""
from checks import agg_common

PROP = "C16"


def select(behaviours, thorough):
    n = 14 if not thorough else 150

    def relabels(b):
        return sum(1 for s in b["steps"] if s["a"] == "Sign" and s["who"] != s["label"])

    def bad(b):
        return sum(1 for s in b["steps"] if s["a"] == "Sign" and s.get("variant") == "bad")
    ranked = sorted(behaviours, key=lambda b: (-relabels(b), -b["ncerts"]))
    ranked_bad = sorted(behaviours, key=lambda b: (-bad(b), -b["ncerts"]))
    return ranked[: n // 2] + ranked_bad[: n - n // 2]


def run(tier, seed):
    c = agg_common.run(PROP, tier, seed, select)
    return c.finish()


def replay(path, seed):
    return agg_common.replay(PROP, path, seed)
