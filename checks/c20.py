"""C20 -- a signer signs each beacon once with its epoch key, acceptably to aggregators.

MC:  spec/signer/Signer.tla (state machine decomposed at its persistence steps, restarts between any two steps, aggregator
     faults, epoch turning inside a cycle) checked exhaustively for small bounds against the property clauses.
GEN: paced simulation of the same model prints behaviours; lib/signersched.py turns them into schedules for the real
     signer runtime (harness/vh-signer c20_signer); the model's predicted final state is compared with the real one
     (mismatch = SPEC-DRIFT).
VAL: every observation of the real runs (TLC schedules + seeded driver, each followed by a fault-free epilogue) is
     validated against the contract spec/signer/SignerTrace.tla."""
import json
import os

import signersched
import vlib
from checks import sys as system_loop
from checks.common import Check

PROP = "C20"
FAULTS = ["unavailable", "stale", "closed", "reg_fail", "reg_half", "pub_fail", "pub_half"]


def features(b):
    """what a behaviour exercises (used to pick a diverse subset)"""
    f = set()
    previous_flip = False
    for s in b["steps"]:
        if s["a"] == "Tick" and s.get("fault", "none") != "none":
            f.add("fault:" + s["fault"])
        if s["a"] == "Restart":
            f.add("restart@" + s.get("at", "idle"))
        if s["a"] == "EpochUp":
            if s.get("during"):
                f.add("turn")
            if s.get("flip"):
                f.add("params_change")
                if previous_flip:
                    f.add("params_change_consecutive_epochs")
            previous_flip = bool(s.get("flip"))
    # a signature made with a key that embeds the second generation of parameters, and one made in the epoch before
    # the aggregator's parameters change (its message carries the new ones)
    gens = dict((r, g) for r, g in b["expect"]["agg_gens"])
    for en in b["expect"]["published"]:
        e = en[1]
        if gens.get(e - 1) == 2:
            f.add("signed_with_changed_params")
        if gens.get(e) and gens.get(e - 1) and gens[e] != gens[e - 1]:
            f.add("message_carries_changed_next_params")
    if b["expect"]["lagged"]:
        f.add("lagged")
    return f


def select(behaviours, n):
    """greedy: behaviours exercising many features first, every feature represented several times, then the ones with
    the most published signatures"""
    order = sorted(range(len(behaviours)),
                   key=lambda i: (-len(features(behaviours[i])), -len(behaviours[i]["expect"]["published"]), i))
    chosen, seen = [], {}
    for i in order:
        b = behaviours[i]
        fs = features(b)
        if len(b["expect"]["published"]) == 0 and "lagged" not in fs:
            continue
        if any(seen.get(f, 0) < max(6, n // 20) for f in fs) or len(chosen) < n // 3:
            chosen.append(i)
            for f in fs:
                seen[f] = seen.get(f, 0) + 1
        if len(chosen) >= n:
            break
    if len(chosen) < n:
        taken = set(chosen)
        rest = sorted((i for i in range(len(behaviours)) if i not in taken),
                      key=lambda i: (-len(behaviours[i]["expect"]["published"]), i))
        chosen += rest[: n - len(chosen)]
    counts = {}
    for i in chosen:
        for f in features(behaviours[i]):
            counts[f] = counts.get(f, 0) + 1
    return [behaviours[i] for i in chosen], counts


def analyse(c, name, trace_path, expectations=None):
    recs = vlib.read_ndjson(trace_path)
    st = c.cov["stages"]["RUN:" + name]
    obs = [r for r in recs if r["ev"] == "Obs"]
    distinct = set()
    lag_sigs = 0
    states = set()
    for r in obs:
        o = r["obs"]
        states.add(o["state"])
        distinct.add(json.dumps([r["action"], o["state"], o["state_epoch"] - o["epoch"], len(o["inits"]), len(o["regs"]),
                                 len(o["signed"]), len(o["sigs"])], sort_keys=True))
    # per schedule: last observation before the epilogue, and the final one
    final, before_epilogue, sched = {}, {}, None
    for r in recs:
        if r["ev"] == "Start":
            sched = r["schedule"]
        elif r["ev"] == "Obs":
            final[sched] = r["obs"]
            if not r.get("epilogue"):
                before_epilogue[sched] = r["obs"]
    sigs_total = sum(len(o["sigs"]) for o in final.values())
    bad = 0
    republished = 0
    for o in final.values():
        ents = [s["entity"] for s in o["sigs"]]
        republished += len(ents) - len(set(ents))
        for s in o["sigs"]:
            if not ((s["ee"] - 1) in s["verifies_under"] and s["msg_ok"]):
                bad += 1
    st.update({
        "observations": len(obs), "states_seen": sorted(states), "signatures_received": sigs_total,
        "signatures_republished_same_value": republished, "signatures_not_acceptable(known finding)": bad,
        "keys_registered": sum(len(o["regs"]) for o in final.values()),
        "registrations_superseded(last wins)": sum(max(0, o["nreg_requests"] - len(o["regs"])) for o in final.values()),
        "signatures_under_second_parameter_generation": sum(
            1 for o in final.values() for s in o["sigs"]
            if any(p["epoch"] == s["ee"] - 1 and p["gen"] == 2 for p in o["params"])),
        "progress_events": sum(1 for r in recs if r["ev"] == "Progress"),
        "progress_ok": sum(1 for r in recs if r["ev"] == "Progress" and r["signed_again"]),
    })
    # how the signer keys its stored stake distributions is not part of the contract: a change is reported as drift
    odd = [(s_, o_["epoch"]) for s_ in final for o_ in final[s_]["stakes"] if not o_["of_previous_epoch"]]
    if odd:
        c.drift.append({"stake_distribution_not_of_previous_epoch": odd[:5]})
    drift = 0
    if expectations is not None:
        for sid, exp in expectations.items():
            real = before_epilogue.get(sid)
            if real is None:
                continue
            want, got = signersched.expectation(exp), signersched.projection(real)
            if want != got:
                drift += 1
                diff = {k: {"model": want[k], "real": got[k]} for k in want if want[k] != got[k]}
                c.drift.append({"schedule": sid, "diff": diff})
        st["model_predictions_compared"] = len(expectations)
        st["model_predictions_matched"] = len(expectations) - drift
    sample = next((r for r in reversed(obs) if r["obs"]["sigs"]), None)
    if sample:
        o = sample["obs"]
        c.sample({"action": sample["action"], "state": o["state"], "epoch": o["epoch"], "inits": o["inits"], "regs": o["regs"],
                  "signed": o["signed"][-3:], "sigs": o["sigs"][-2:]})
    return len(recs), distinct


def run(tier, seed):
    c = Check(PROP, tier, seed, "model_checking")
    th = tier == "thorough"
    c.assumptions = [
        "the signer runs in-process on a current-thread runtime, wired like the repository's integration tests (a copy of "
        "StateMachineTester::init): real state machine, runner, certifier, epoch service, single signer, AggregatorHttpClient "
        "over HTTP, sqlite repositories on disk; chain / immutable observers, digester and block scanner are the "
        "repository's test doubles",
        "the aggregator is a recording double with the routes and message types of the repository's FakeAggregatorHttpServer; "
        "it keeps the LAST registration per (recording epoch, party) like the real store, follows the protocol's epoch "
        "offsets with its own literals and serves closed rounds consistently (registrations of other operators only go to "
        "the open round); it keeps one network configuration per recording epoch, created when it enters the previous "
        "epoch, whose protocol parameters belong to one of two really different generations (k=2,m=30,phi_f=0.95 / "
        "k=2,m=100,phi_f=0.5) and never change once created",
        "one external stimulus at a time; a process stop inside a cycle is realised as the aggregator fault that leaves the "
        "same persisted state on both sides followed by a restart (no stop points exist in the signer); the only "
        "intra-cycle interleaving exercised is the chain epoch turning right after the epoch settings were served",
        "acceptability is judged by a real mithril_common::protocol::SignerBuilder / MultiSigner built from exactly the "
        "registrations the double holds (with the stake distribution in force when they were made) and by recomputing the "
        "protocol message on the aggregator side; STM single-signature verification itself is the subject of C01",
        "keys are generated by the code under test from OsRng: schedules and faults are seeded, key values are not "
        "(no verdict depends on them)",
    ]
    c.cov["trusted_base"] = ["TLC", "axum-test / reqwest loopback HTTP", "the harness' copy of the signer wiring",
                             "mithril-common SignerBuilder/MultiSigner (C01, C06)"]
    # the model describes the current (unfixed) code exactly as long as the finding is listed as known
    listed = {k["id"] for k in vlib.known_findings(PROP)}
    unfixed = "C20-epoch-turn-inside-registration-cycle" in listed
    env = {"C20_RECHECK": "0" if unfixed else "1"}
    c.cov["model_variant"] = {"EpochRechecked": not unfixed, "ExcuseTurn": unfixed}
    c.mc("signer", "MC_Signer", "MC_Signer_quick.cfg", workers=12, timeout=900, env_extra=env,
         vacuity=["SaveInit", "MarkSigned", "Restart", "Register", "TickNoSignWait", "TickEpochChanged"])
    if th:
        c.mc("signer", "MC_Signer", "MC_Signer_thorough.cfg", workers=14, timeout=3000, heap="24g", env_extra=env)
    nsim = 2000 if not th else 12000
    g = c.mc("signer", "MC_SignerGen", "MC_SignerGen.cfg", name="SIM+GEN", workers=1, timeout=1500,     # (one worker: reproducible from the seed)
             coverage=False, simulate=nsim, depth=130, seed=seed, env_extra=env)
    if g.violated:
        raise vlib.ToolError(f"simulation found a model counterexample to {g.violated} that is not a listed finding")
    behaviours = vlib.printed_json(g, "SCHED")
    if len(behaviours) < 300:
        raise vlib.ToolError("GEN produced too few behaviours")
    chosen, feats = select(behaviours, 120 if not th else 1000)
    c.cov["stages"]["MC:SIM+GEN"].update({"behaviours": len(behaviours), "behaviours_replayed": len(chosen),
                                          "features_in_replayed": dict(sorted(feats.items()))})
    for need in ["turn"] + (["lagged"] if unfixed else []) + ["restart@registered", "restart@published", "fault:reg_half",
                                                                "fault:pub_half", "fault:closed", "fault:stale",
                                                                "params_change", "params_change_consecutive_epochs",
                                                                "signed_with_changed_params",
                                                                "message_carries_changed_next_params"]:
        if feats.get(need, 0) == 0:
            raise vlib.ToolError(f"GEN: vacuity -- no replayed behaviour with {need}")
    # runs: the TLC schedules in chunks (one trace per chunk keeps the validation inputs small), then the seeded driver
    runs = []
    per_chunk = 150
    nchunks = (len(chosen) + per_chunk - 1) // per_chunk
    for ci in range(nchunks):
        path = os.path.join(c.work, f"schedules.{ci}.ndjson")
        exp = {}
        with open(path, "w") as f:
            for i in range(ci * per_chunk, min(len(chosen), (ci + 1) * per_chunk)):
                f.write(json.dumps({"id": i, "steps": signersched.convert(chosen[i]["steps"])}) + "\n")
                exp[i] = chosen[i]["expect"]
        runs.append(("tlc_schedules" if nchunks == 1 else f"tlc_schedules.{ci}", "tlc", ["--schedules", path], exp))
    nseeded = 1 if not th else 8
    for si in range(nseeded):
        runs.append(("seeded_driver" if nseeded == 1 else f"seeded_driver.{si}", "seeded",
                     ["--seed", int(seed) + 7919 * si, "--runs", 50 if not th else 60, "--len", 90], None))
    c.build("vh-signer", ["c20_signer"])
    total_events = 0
    distinct = set()
    hits = {"tlc": {}, "seeded": {}}
    changes = {"tlc": 0, "seeded": 0}
    for name, kind, args, exp in runs:
        t = os.path.join(c.work, f"{name}.trace.ndjson")
        s = c.run_harness("c20_signer", ["--out", t, "--work", os.path.join(c.work, "signer_" + name), "--jobs", 12] + args,
                          timeout=3000)
        c.cov["stages"]["RUN:" + name] = c.cov["stages"].pop("RUN:c20_signer")
        n, d = analyse(c, name, t, exp)
        total_events += n
        distinct |= d
        changes[kind] += (s or {}).get("parameter_changes", 0)
        for k, v in (s or {}).get("faults_exercised", {}).items():
            hits[kind][k] = hits[kind].get(k, 0) + v
        r = c.validate("signer", "SignerTrace", "SignerTrace.cfg", t, name=name, timeout=3000, heap="8g")
        if th and r["accepted"]:
            os.remove(t)        # (thorough traces are large; a rejected one is kept as the replay)
    c.cov["faults_exercised"] = hits
    c.cov["parameter_changes_in_runs"] = changes
    vacuous = [f"{kind} runs: the protocol parameters never changed" for kind in changes if changes[kind] == 0]
    vacuous += [f"{kind} runs: aggregator fault {fault} never exercised" for kind in hits for fault in FAULTS + ["turn"]
               if hits[kind].get(fault, 0) == 0]
    if vacuous and not c.violations:
        # (a signer that never signs exercises no publication fault: the contract's progress clause reports that first)
        c.defer("vacuity -- " + "; ".join(vacuous))
    c.cov["evaluations"] = total_events
    c.cov["distinct_nontrivial"] = len(distinct)
    c.cov["rule"] = ("one observation per external stimulus of the real signer; distinct = distinct (action, state label, "
                     "state epoch - chain epoch, #initializers, #registrations held, #beacons marked, #signatures received)")
    # the same signer runtime against the REAL aggregator (composed model, spec/system)
    system_loop.stage(c, tier, seed)
    return c.finish()


def replay(path, seed):
    c = Check(PROP, "quick", seed, "model_checking", replay=True)
    if system_loop.is_sys_trace(path):
        system_loop.replay_stage(c, path)
    else:
        c.validate("signer", "SignerTrace", "SignerTrace.cfg", os.path.abspath(path), timeout=3000, heap="8g")
    return c.finish()
