"""Shared pipeline of C14 / C15 / C16: Aggregator.tla (MC + simulation), TLC-generated schedules replayed on
the real aggregator runtime, AggregatorTrace.tla contract (clauses selected by PROP)."""
import json
import os
import subprocess
import time

import aggsched
import vlib
from checks.common import Check


def features(b):
    """What a TLC behaviour exercises, per signed entity type: used to pick a covering subset for replay."""
    f = set()
    expired = {}
    signed = {}
    steps = b["steps"]
    for i, s in enumerate(steps):
        # a refused submission directly followed by an honest one for the same entity (delivered as one batch)
        if (s["a"] == "Sign" and (s.get("variant") == "bad" or s["who"] != s["label"]) and i + 1 < len(steps)
                and steps[i + 1]["a"] == "Sign" and steps[i + 1].get("variant", "ok") == "ok"
                and steps[i + 1]["who"] == steps[i + 1]["label"] and steps[i + 1]["entity"] == s["entity"]):
            f.add(("refused_then_honest", s["entity"][0]))
    for s in steps:
        a = s["a"]
        if a == "Sign":
            en = tuple(s["entity"])
            kind = en[0]
            v = s.get("variant", "ok")
            if v == "bad":
                f.add(("bad", kind))
            elif s["who"] != s["label"]:
                f.add(("relabel", kind))
            if v == "ok":
                signed.setdefault(en, set()).add(s["who"])
                if en in expired:
                    expired[en].add(s["who"])
                    # enough late signers to reach a quorum on an expired open message
                    f.add(("signed_after_expiry", kind, min(len(signed[en]), 2)))
        elif a == "Expire":
            en = tuple(s["entity"])
            expired[en] = set()
            f.add(("expire", en[0]))
        elif a == "EpochUp":
            f.add(("epoch_up", s.get("n", 1)))
        elif a == "Crash":
            f.add(("crash", s.get("at")))
        elif a == "Restart":
            f.add(("restart",))
        elif a == "ImmUp":
            f.add(("imm_up",))
    return f


def cover(behaviours, budget):
    """Greedy: behaviours that together exhibit every feature seen, richest in certificates first."""
    pool = sorted(behaviours, key=lambda b: -b["ncerts"])[:4000] + behaviours[:2000]
    feats = [(features(b), b) for b in pool]
    todo = set().union(*[f for f, _ in feats]) if feats else set()
    out = []
    while todo and len(out) < budget:
        f, b = max(feats, key=lambda fb: (len(fb[0] & todo), fb[1]["ncerts"]))
        if not f & todo:
            break
        out.append(b)
        todo -= f
    return out


def run_agg_harness(c, args, timeout=7000):
    """c14_agg logs heavily on stdout (the repository's test logger): stdout is discarded, the summary comes on stderr."""
    cmd = [vlib.harness_bin("c14_agg")] + [str(a) for a in args]
    env = dict(os.environ)
    env["RUST_BACKTRACE"] = "0"
    t = time.time()
    p = subprocess.run(cmd, env=env, stdout=subprocess.DEVNULL, stderr=subprocess.PIPE, text=True, timeout=timeout)
    if p.returncode != 0:
        print(p.stderr[-3000:])
        raise vlib.ToolError(f"c14_agg exited {p.returncode}")
    summary = {}
    for line in p.stderr.splitlines():
        if line.startswith("{"):
            try:
                summary = json.loads(line)
            except Exception:
                pass
    summary["wall_s"] = round(time.time() - t, 1)
    return summary


def run(prop, tier, seed, select, level="model_checking"):
    c = Check(prop, tier, seed, level)
    c.assumptions = [
        "the aggregator runs in-process on a current-thread runtime with the repository's own test doubles for the "
        "chain / immutable observers, digester, snapshotter and uploader; sqlite repositories are real and on disk",
        "one external stimulus at a time (the only concurrency is the spawned artifact task, awaited before observing)",
        "signature validity / chain verification facts inside an observation are computed with the repository's "
        "primitives (mithril-stm single-signature verification, MithrilCertificateVerifier through the public "
        "message path) -- themselves subjects of C01 / C03",
        "open-message expiry is driven by the harness (expires_at rewritten), a process stop is the hooked function "
        "returning an error at the named point followed by a rebuild of every in-memory object from the database",
    ]
    c.cov["trusted_base"] = ["TLC", "mithril-aggregator tests/test_extensions RuntimeTester (included by path)",
                             "verif hook observer"]
    th = tier == "thorough"
    # MC: exhaustive small configuration + paced simulation of the 3-party model (the faithful model does not
    # finish exhaustively with 2+ parties: > 2*10^7 states)
    # (C14 explores one more certificate per run than C15 / C16 in the quick tier: all three entity types certified)
    c.mc("aggregator", "MC_Aggregator", "MC_Aggregator_quick.cfg" if prop == "C14" or th else "MC_Aggregator_quick3.cfg",
         workers=12, timeout=3000,
         vacuity=["InsertCertificate", "MarkCertified", "StoreArtifact", "Restart", "TickSigningLeave"])
    # the design with the two listed findings repaired (insert + mark atomic, label bound to the key) satisfies every
    # invariant with NO excuse: whatever else could break them would show here
    c.mc("aggregator", "MC_Aggregator", "MC_Aggregator_repaired.cfg" if th else "MC_Aggregator_repaired_quick.cfg",
         name="repaired-design", workers=12, timeout=3000, coverage=False)
    if th:
        c.mc("aggregator", "MC_Aggregator", "MC_Aggregator_thorough.cfg", workers=14, timeout=3400, heap="24g", coverage=False)
    nsim = 1500 if not th else 20000
    g = c.mc("aggregator", "MC_AggregatorGen", "MC_AggregatorGen.cfg", name="SIM+GEN", workers=4, timeout=3000,
             coverage=False, simulate=nsim, depth=70, seed=seed)
    if g.violated:
        raise vlib.ToolError(f"simulation found a model counterexample to {g.violated} that is not a listed finding")
    behaviours = vlib.printed_json(g, "SCHED")
    if len(behaviours) < 200:
        raise vlib.ToolError("GEN produced too few behaviours")
    covering = cover(behaviours, 6 if not th else 30)
    chosen = covering + [b for b in select(behaviours, th) if b not in covering]
    c.cov["stages"]["MC:SIM+GEN"]["features_covered"] = sorted(
        {"/".join(str(x) for x in f) for b in chosen for f in features(b)})
    sched = os.path.join(c.work, "schedules.ndjson")
    with open(sched, "w") as f:
        for i, b in enumerate(chosen):
            f.write(json.dumps({"id": i, "steps": aggsched.convert(b["steps"]), "model_ncerts": b["ncerts"]}) + "\n")
    c.cov["stages"]["MC:SIM+GEN"]["behaviours"] = len(behaviours)
    c.cov["stages"]["MC:SIM+GEN"]["behaviours_replayed"] = len(chosen)
    c.build("vh-aggregator", ["c14_agg"])
    total_events = 0
    distinct = set()
    for name, args in (("tlc_schedules", ["--schedules", sched]),
                       ("seeded_driver", ["--seed", seed, "--runs", 6 if not th else 60, "--len", 70])):
        t = os.path.join(c.work, f"{name}.trace.ndjson")
        s = run_agg_harness(c, ["--out", t, "--work", os.path.join(c.work, "agg_" + name)] + args)
        c.cov["stages"]["RUN:" + name] = s
        recs = vlib.read_ndjson(t)
        total_events += len(recs)
        for r in recs:
            if r["ev"] == "Obs":
                distinct.add(json.dumps([r["action"], r["obs"]["state"], len(r["obs"]["certs"]),
                                         len(r["obs"]["sigs"]), len(r["obs"]["open"])], sort_keys=True))
        obs = [r for r in recs if r["ev"] == "Obs" and r["obs"]["certs"] and len(r["obs"]["certs"]) > 1]
        if obs:
            c.sample({"action": obs[-1]["action"], "result": obs[-1]["result"],
                      "obs": {k: obs[-1]["obs"][k] for k in ("state", "epoch", "imm", "certs", "open")}})
        c.cov["stages"]["RUN:" + name]["crash_points_hit"] = sorted(
            {r["result"]["at"] for r in recs if r["ev"] == "Obs" and r["action"].get("a") == "Crash" and r["result"].get("hit")})
        c.cov["stages"]["RUN:" + name]["relabelled_submissions_accepted"] = sum(
            1 for r in recs if r["ev"] == "Obs" and r["action"].get("a") == "Sign"
            and r["action"].get("who") != r["action"].get("label") and r["result"].get("ok"))
        c.validate("aggregator", "AggregatorTrace", "AggregatorTrace.cfg", t, name=name, env_extra={"PROP": prop})
    c.cov["evaluations"] = total_events
    c.cov["distinct_nontrivial"] = len(distinct)
    c.cov["rule"] = ("one observation per external stimulus of the real aggregator; distinct = distinct "
                     "(action, state label, #certificates, #signature rows, #open messages)")
    return c


def replay(prop, path, seed):
    c = Check(prop, "quick", seed, "model_checking", replay=True)
    c.validate("aggregator", "AggregatorTrace", "AggregatorTrace.cfg", os.path.abspath(path), env_extra={"PROP": prop})
    return c.finish()
