"""C13 -- imported chain data converges to the canonical chain under any roll-backs (spec/chain).

MC   ChainImport.tla (importer + streamer + repository as the code does it, against a chain-sync
     faithful node) checked exhaustively with small constants; the known findings are excused by
     history shape, and for each of them a negative run shows the model still exhibits it.
GEN  behaviours at the real range length (15) from TLC (-simulate, history variable printed as
     JSON with the model's prediction per import) + a directed set (scaled MC counterexamples).
RUN  harness c13_import replays them on the real importer / streamer / sqlite repository /
     signable builders and computes the from-scratch reference with a second, fresh importer.
VAL  ChainImportTrace.tla (the contract) accepts or rejects the projected-state trace.
"""
import json
import os
import re
import shutil

import vlib
from checks.common import Check

PROP = "C13"
MODULE = "MC_ChainImport"

# letter used in the spec's Excuse constant -> id in KNOWN_FINDINGS.jsonl
FINDINGS = {
    "a": "C13-rollback-below-first-stored-block",
    "b": "C13-partial-range-skipped-when-imported-beyond",
    "c": "C13-rollback-to-scan-start-skipped",
    "d": "C13-early-return-without-asking-node",
    "e": "C13-cursor-behind-store-after-failed-import",
}


def known_letters():
    ids = {k["id"] for k in vlib.known_findings(PROP)}
    return sorted(l for l, i in FINDINGS.items() if i in ids)


def cfg_variant(c, base, name, excuse=None, hist=False, cex=False, subs=None):
    """A copy of spec/chain/<base> in the work directory with the Excuse set taken from
    KNOWN_FINDINGS.jsonl (MC is green because of the listed findings and for no other reason)."""
    s = open(os.path.join(vlib.SPEC, "chain", base)).read()

    def sub(key, val):
        nonlocal s
        s, n = re.subn(r"^    %s (=|<-) .*$" % key, "    %s %s" % (key, val), s, flags=re.M)
        if n != 1:
            raise vlib.ToolError(f"{base}: constant {key} not found")

    if excuse is not None:
        sub("Excuse", "= {%s}" % ", ".join('"%s"' % x for x in excuse))
    if hist:
        sub("RecordHist", "= TRUE")
    if cex:
        s = re.sub(r"^INVARIANTS .*$", "INVARIANTS ConvergedX RootDependsOnlyOnPrefixX CompletesX", s,
                   flags=re.M)
    for k, v in (subs or {}).items():
        sub(k, v)
    path = os.path.join(c.work, name)
    with open(path, "w") as f:
        f.write(s)
    return path


def to_script(rec, rid):
    """TLC history record -> harness script."""
    rec = dict(rec)
    rec["id"] = rid
    ops = []
    for o in rec["ops"]:
        o = dict(o)
        if o["op"] == "import":
            o["predicted"] = {"ok": o.pop("pok", True), "same": o.pop("psame", True)}
            cr = o.pop("crash", -1)
            if cr >= 0:
                o["crash_after_writes"] = cr
        ops.append(o)
    rec["ops"] = ops
    return rec


def gen(c, cfg, name, n, seed, excuse):
    path = cfg_variant(c, cfg, name + ".cfg", excuse=excuse)
    res = vlib.tlc("chain", MODULE, path, workers=1, timeout=1500, coverage=False, simulate=n,
                   depth=800, seed=seed, metaname=f"{PROP}_{name}")
    if res.error or res.violated:
        print(res.out[-3000:])
        raise vlib.ToolError(f"GEN {cfg}: {res.error or res.violated}")
    recs = vlib.printed_json(res, "REPLAY")
    if len(recs) < n // 2:
        raise vlib.ToolError(f"GEN {cfg}: only {len(recs)} finished behaviours out of {n}")
    c.cov["stages"]["GEN:" + name] = {
        "cfg": cfg, "behaviours": len(recs), "states": res.generated, "wall_s": round(res.wall, 1),
        "imports": sum(1 for r in recs for o in r["ops"] if o["op"] == "import"),
        "with_fork": sum(1 for r in recs if any(o["op"] == "fork" or any(m["op"] == "fork" for m in o.get("mid", []))
                                                for o in r["ops"])),
        "with_mid_import_env": sum(1 for r in recs if any(o.get("mid") for o in r["ops"])),
        "with_restart": sum(1 for r in recs if any(o["op"] == "restart" for o in r["ops"])),
        "with_crash": sum(1 for r in recs if any(o.get("crash", -1) >= 0 for o in r["ops"])),
        "model_taint": {k: sum(1 for r in recs if r.get(k)) for k in ("taint_a", "taint_c", "taint_e")},
    }
    c.cov["transitions"] += res.generated
    vlib.log(f"[{PROP}] GEN {name}: {len(recs)} behaviours, {res.generated} states, {res.wall:.1f}s")
    return recs


def shm_dir():
    d = "/dev/shm"
    return d if os.path.isdir(d) and os.access(d, os.W_OK) else None


def run_and_validate(c, scripts, name, vacuity=None, bulk=False):
    """The node's database is always a real file that a restart closes and re-opens by path.
    The directed set keeps it under /verif/work; the bulk replays put it on tmpfs when there is one
    (the runs are fsync-bound: 15x slower on a busy disk), as is the never-restarted reference node's."""
    sp = os.path.join(c.work, name + ".scripts.ndjson")
    vlib.write_ndjson(sp, scripts)
    tp = os.path.join(c.work, name + ".trace.ndjson")
    dbdir = os.path.join(c.work, "db")
    if bulk and shm_dir():
        dbdir = os.path.join(shm_dir(), f"verif_{PROP}_{os.getpid()}")
    args = ["--scripts", sp, "--out", tp, "--work", dbdir]
    if shm_dir():
        args += ["--ref-work", shm_dir()]
    try:
        s = c.run_harness("c13_import", args, timeout=3400)
    finally:
        shutil.rmtree(dbdir, ignore_errors=True)
        if shm_dir():      # the reference database of a harness that did not finish
            for f in os.listdir(shm_dir()):
                if f.startswith("c13_reference_"):
                    try:
                        os.remove(os.path.join(shm_dir(), f))
                    except OSError:
                        pass
    c.cov["stages"]["RUN:" + name] = c.cov["stages"].pop("RUN:c13_import")
    if s.get("predicted_mismatch", 0):
        for r in vlib.read_ndjson(tp):
            if r.get("ev") == "Import" and isinstance(r.get("predicted"), dict):
                same = all(r[k] == r["ref_" + k] for k in ("blocks", "txs", "roots", "lroots"))
                p = r["predicted"]
                if p["ok"] != r["ok"] or (r["ok"] and p["same"] != same):
                    c.drift.append({"module": "ChainImport", "run": r["run"], "step": r["step"], "t": r["t"],
                                    "predicted": p, "real": {"ok": r["ok"], "same": same}})
    r = c.validate("chain", "ChainImportTrace", "ChainImportTrace.cfg", tp, name=name, timeout=3400)
    if not r["accepted"] and r.get("first_unmatched"):
        # keep the script of the offending run next to the trace: it can be re-executed
        rid = r["first_unmatched"].get("run")
        bad = [x for x in scripts if x.get("id") == rid]
        if bad:
            rp = vlib.save_replay(PROP, name + f".run{rid}.script.ndjson", content=json.dumps(bad[0]) + "\n")
            vlib.log(f"[{PROP}]   script of the offending run: {rp}")
    # vacuity guards on what the run exercised come AFTER the validation: a change to the code under test that
    # makes the counters drop (e.g. roll-backs no longer delivered) is a rejected trace first, not a tool error
    if r["accepted"]:
        for k, least in (vacuity or {}).items():
            if s.get(k, 0) < least:
                raise vlib.ToolError(f"RUN {name}: vacuity -- {k} = {s.get(k, 0)} < {least}")
    return s, tp


def describe_model_counterexample(c, base, name, excuse, subs=None):
    """DESIGN 3.6: a counterexample of the implementation-shaped spec alone is never a violation.
    The conformance stages (behaviours at the real range length on the real code) decide; if they
    are green the model no longer speaks about the code: tool error with the history."""
    path = cfg_variant(c, base, name + "_cex.cfg", excuse=excuse, hist=True, cex=True, subs=subs)
    res = vlib.tlc("chain", MODULE, path, workers=8, timeout=1500, coverage=False, metaname=f"{PROP}_cex")
    recs = vlib.printed_json(res, "CEX")
    if not recs:
        raise vlib.ToolError(f"MC {base}: counterexample could not be extracted")
    script = to_script(recs[0], 7000)
    for o in script["ops"]:
        o.pop("predicted", None)
    # the model runs at range length 3, the code at 15: the behaviour cannot be replayed one to one;
    # it is reported for a human to scale (the GEN stage replays behaviours at length 15)
    raise vlib.ToolError(
        f"MC {base}: unlisted model counterexample to {recs[0].get('inv')} "
        f"(history {json.dumps(script['ops'])[:800]}); the conformance stages did not see it on the "
        f"real code -- SPEC-DRIFT or a new finding: scale the history to range length 15 and replay it "
        f"with `bin/check C13 --replay <script>`")


def chunked(scripts, first_id, chunk):
    out = []
    for i, s in enumerate(scripts):
        s = json.loads(json.dumps(s))
        s["id"] = first_id + i
        s["chunk"] = chunk
        s["tx_shared"] = True            # the other fork re-includes the same transactions (same hashes)
        ops = []
        for o in s["ops"]:
            o.pop("predicted", None)     # the model has no chunking: no prediction
            # positions inside the scan are not comparable: the environment acts before the import
            for m in o.pop("mid", []):
                m.pop("at", None)
                ops.append(m)
            ops.append(o)
        s["ops"] = ops
        out.append(s)
    return out


def run(tier, seed):
    c = Check(PROP, tier, seed, "model_checking")
    c.assumptions = [
        "the Cardano node is modelled (harness EnvReader = the spec's environment): chain-sync follower semantics "
        "(FindIntersect found -> read pointer moves and the point is echoed as RollBackward; not found -> pointer "
        "unchanged; new connection starts at origin with RollBackward(origin); fork switch moves a pointer on the "
        "abandoned part back to the fork point), PallasChainReader agency rule after Await and error -> reconnect",
        "a node only switches to a fork that is not shorter; import targets come from the node's own tip (target <= tip) "
        "and increase (a failed import is retried with the same or a higher target)",
        "a process stop is placed between two persistence steps (sqlite transactions are atomic)",
        "the legacy (CardanoTransactions) root is only offered at range-aligned beacons (C17 rounds them)",
        "block hash / slot / transaction hashes are functions of (block number, fork); distinct blocks never share a slot",
        "the store traits are implemented over the real CardanoTransactionRepository by the same delegation as "
        "mithril-signer's SignerCardanoChainDataRepository (harness HStore)",
    ]
    c.cov["trusted_base"] = ["TLC", "harness EnvReader (node model)", "harness HStore delegation + projection",
                             "sqlite", "reference = the same importer run once from scratch"]
    excuse = known_letters()
    c.cov["excused_in_model"] = {l: FINDINGS[l] for l in excuse}

    # ---- MC --------------------------------------------------------------------------------
    base_vac = ["Fork", "Remove", "Store", "ComputeRoots", "ComputeLegacyRoots", "NextMsg", "Done", "Failed"]
    mcs = [("MC_ChainImport_quick.cfg", "mid-import", base_vac + ["Restart", "Fault"]),
           ("MC_ChainImport_quick2.cfg", "between-imports", base_vac + ["Restart", "Fault"]),
           ("MC_ChainImport_quick3.cfg", "process-stop", base_vac + ["Crash"])]
    if tier != "quick":
        mcs += [("MC_ChainImport_thorough.cfg", "thorough", base_vac + ["Restart", "Fault", "Crash"]),
                ("MC_ChainImport_thorough_prune.cfg", "thorough-prune", base_vac + ["Prune", "Crash"]),
                ("MC_ChainImport_thorough4.cfg", "thorough-4-imports", base_vac)]
    model_cex = []
    for cfg, name, vac in mcs:
        path = cfg_variant(c, cfg, cfg, excuse=excuse)
        res = c.mc("chain", MODULE, path, name=name, workers=12, timeout=3400, heap="12g", vacuity=vac)
        if res.violated:
            model_cex.append((cfg, name, excuse))
    # pruning with roll-backs inside the kept window never produces history shape (a): (a) NOT excused here
    path = cfg_variant(c, "MC_ChainImport_prune_bound.cfg", "MC_ChainImport_prune_bound.cfg",
                       excuse=[x for x in excuse if x != "a"])
    res = c.mc("chain", MODULE, path, name="prune-within-bound", workers=12, timeout=3400, heap="12g",
               vacuity=["Prune", "Remove", "Fork"])
    if res.violated:
        model_cex.append(("MC_ChainImport_prune_bound.cfg", "prune-within-bound", [x for x in excuse if x != "a"]))
    # each listed finding is still exhibited by the model (a stale entry is reported, not fatal)
    neg = {}
    for x in excuse:
        path = cfg_variant(c, "MC_ChainImport_neg.cfg", f"MC_ChainImport_neg_{x}.cfg",
                           excuse=[y for y in excuse if y != x])
        res = vlib.tlc("chain", MODULE, path, workers=12, timeout=1500, coverage=False, metaname=f"{PROP}_neg")
        if res.error:
            print(res.out[-2000:])
            raise vlib.ToolError(f"MC neg {x}: {res.error}")
        neg[FINDINGS[x]] = {"violated": res.violated, "states": res.distinct, "wall_s": round(res.wall, 1)}
        c.cov["states"] += res.distinct
        c.cov["transitions"] += res.generated
        vlib.log(f"[{PROP}] MC without excuse {x}: {res.violated or 'NO counterexample (stale finding?)'} "
                 f"after {res.distinct} states")
    c.cov["stages"]["MC:findings-reproduced-in-model"] = neg
    stale = [k for k, v in neg.items() if not v["violated"]]
    if stale:
        c.cov["known_findings_not_in_model"] = stale

    # ---- BUILD -----------------------------------------------------------------------------
    c.build("vh-chain", ["c13_import"])

    # ---- directed: scaled MC counterexamples and the basic shapes -----------------------------
    directed = vlib.read_ndjson(os.path.join(vlib.SPEC, "chain", "directed.ndjson"))
    s, tp = run_and_validate(c, directed, "directed",
                             vacuity={"rollbacks_delivered": 5, "imports_ok": 20, "offers": 100, "prunes": 2,
                                      "restarts": 2})
    recs = vlib.read_ndjson(tp)
    c.sample([{k: r[k] for k in ("ev", "run", "t", "ok", "rollbacks", "roots", "ref_roots")}
              for r in recs if r["ev"] == "Import"][2:4])

    # ---- GEN -> RUN -> VAL -----------------------------------------------------------------
    n1, n2 = (400, 150) if tier == "quick" else (4000, 1500)
    scripts = []
    for cfg, name, n in (("MC_ChainImport_gen.cfg", "gen", n1), ("MC_ChainImport_gen_prune.cfg", "gen-prune", n2)):
        recs = gen(c, cfg, name, n, seed, excuse)
        base = len(scripts)
        scripts += [to_script(r, base + i) for i, r in enumerate(recs)]
    s, tp = run_and_validate(c, scripts, "replay", bulk=True,
                             vacuity={"rollbacks_delivered": 20, "forks_mid_import": 10, "restarts": 10,
                                      "imports_ok": 200, "offers": 1000, "prunes": 20, "imports_crashed": 3})
    c.cov["stages"]["RUN:replay"]["prediction_mismatches"] = s.get("predicted_mismatch", 0)
    recs = vlib.read_ndjson(tp)
    c.sample([{k: r[k] for k in ("ev", "run", "kind", "b", "root", "ref_root", "imported_to")}
              for r in recs if r["ev"] == "Offer"][:2])
    # the same histories through mithril-signer's production stack ByChunk(WithPruner(importer)),
    # with transactions that keep their hash when the other fork re-includes them
    k = 100 if tier == "quick" else 800
    s2, _ = run_and_validate(c, chunked(scripts[:k], 100000, 7) + chunked(scripts[-k // 2:], 200000, 16), "chunked",
                             bulk=True, vacuity={"rollbacks_delivered": 3, "imports_ok": 40})
    c.cov["histories_replayed"] = len(directed) + len(scripts) + s2.get("runs", 0)
    c.cov["imports_on_real_code"] = sum(c.cov["stages"][f"RUN:{n}"]["summary"]["imports"]
                                        for n in ("directed", "replay", "chunked"))
    c.cov["offers_on_real_code"] = sum(c.cov["stages"][f"RUN:{n}"]["summary"]["offers"]
                                       for n in ("directed", "replay", "chunked"))
    rc = c.finish()
    if rc == 0 and model_cex:
        # DESIGN 3.6: the model has an unlisted counterexample that the real code did not show
        describe_model_counterexample(c, *model_cex[0])
    return rc


def replay(path, seed):
    """A stored trace is re-validated; a stored script is re-executed against the current tree first."""
    c = Check(PROP, "quick", seed, "model_checking", replay=True)
    path = os.path.abspath(path)
    first = vlib.read_ndjson(path)[0]
    if "ops" in first:
        c.build("vh-chain", ["c13_import"])
        run_and_validate(c, vlib.read_ndjson(path), "replayed")   # database under /verif/work
    else:
        c.validate("chain", "ChainImportTrace", "ChainImportTrace.cfg", path)
    return c.finish()
