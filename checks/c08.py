"""C08 -- the signing lottery (spec/lottery: Rat.tla, Lottery.tla, MC_Lottery, LotteryTrace)."""
import os

import vlib
from checks.common import Check

PROP = "C08"


def run(tier, seed):
    c = Check(PROP, tier, seed, "model_checking")
    c.assumptions = [
        "exactness is decided on a small-rational (cmp, x) grid at the taylor_comparison interface, where model "
        "and code see identical inputs (TLC: exact 32-bit rationals, loud on overflow)",
        "the wrapper (draw -> q, f64 ln, Ratio::from_float) and 512-bit draws are covered by relational facets and "
        "by threshold probes judged with harness f64 arithmetic (tolerance 1e-9 absolute): smaller-trust sub-result",
        "rug backend not built",
    ]
    c.cov["trusted_base"] = ["TLC", "f64 exp_m1/ln_1p for Probe events", "SingleSignature::verify for Agreement"]
    cfg = "MC_Lottery_quick.cfg" if tier == "quick" else "MC_Lottery_thorough.cfg"
    res = c.mc("lottery", "MC_Lottery", cfg, workers=4, timeout=3000, vacuity=["Step", "Exhaust"])
    cases = vlib.printed_json(res, "CASE")
    if len(cases) < 100:
        raise vlib.ToolError("GEN produced too few grid points")
    cp = os.path.join(c.work, "cases.ndjson")
    vlib.write_ndjson(cp, cases)
    c.cov["stages"]["MC:" + cfg]["grid_points"] = len(cases)
    c.build("vh-common", ["c08_lottery"])
    t1 = os.path.join(c.work, "taylor.trace.ndjson")
    c.run_harness("c08_lottery", ["--mode", "cases", "--cases", cp, "--out", t1, "--seed", seed])
    r1 = vlib.read_ndjson(t1)
    c.sample(r1[len(r1) // 2])
    c.validate("lottery", "LotteryTrace", "LotteryTrace.cfg", t1, name="taylor")
    t2 = os.path.join(c.work, "facets.trace.ndjson")
    c.run_harness("c08_lottery", ["--mode", "facets", "--out", t2, "--seed", seed,
                                   "--rounds", 2 if tier == "quick" else 10,
                                   "--worlds", 6 if tier == "quick" else 40], timeout=7000)
    r2 = vlib.read_ndjson(t2)
    for kind in ("Probe", "MonoPair", "Agreement"):
        c.sample([r for r in r2 if r["ev"] == kind][:1])
    c.validate("lottery", "LotteryTrace", "LotteryTrace.cfg", t2, name="facets")
    c.cov["evaluations"] = len(r1) + len(r2)
    c.cov["distinct_nontrivial"] = len(r1) + len({(r["phi"], r["stake"], r["total"]) for r in r2 if r["ev"] == "Probe"})
    c.cov["rule"] = "Taylor grid points (distinct (cmp, x)) + distinct (phi_f, stake, total) threshold probes"
    return c.finish()


def replay(path, seed):
    c = Check(PROP, "quick", seed, "model_checking", replay=True)
    c.validate("lottery", "LotteryTrace", "LotteryTrace.cfg", os.path.abspath(path))
    return c.finish()
