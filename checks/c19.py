"""C19 -- only verified immutables and manifest-vouched ancillary files get restored
(spec/db: DbRestore.tla, MC_DbRestore (+GenPrint), DbRestoreTrace)."""
import collections
import json
import os

import vlib
from checks.common import Check
from checks.dbcommon import cfg_with, is_known, tla_bool

PROP = "C19"
UNIVERSES = ["hostile", "ancillary", "failures", "pre"]


def _allowed(e):
    return (e["heldBefore"] or (e["cls"] in ("clean", "magic") and e["origin"] == "client")
            or (e["cls"] == "imm" and e["lo"] <= e["num"] <= e["hi"])
            or (e["includeAnc"] and e["ancGenuine"] and e["vouched"]))


def _expect_violation(c, cfg, name, why):
    r = c.mc("db", "MC_DbRestore", cfg, name=name, workers=4, timeout=900)
    c.cov["stages"]["MC:" + name]["expected_counterexample"] = why
    if r.violated != "OnlyAllowed":
        raise vlib.ToolError(f"{name}: the model no longer shows the expected counterexample ({why})")


def _kept_cov(recs):
    ks = [e for e in recs if e["ev"] == "Kept"]
    rs = [e for e in recs if e["ev"] == "Restore"]
    return {
        "downloads": len(rs), "results": dict(collections.Counter(e["res"] for e in rs)),
        "with_ancillary": sum(1 for e in rs if e["includeAnc"]),
        "ancillary_manifest_classes": dict(collections.Counter(e["ancManifest"] for e in rs if e["includeAnc"])),
        "manifest_variants": dict(collections.Counter(e["manifest"] for e in rs if e["includeAnc"])),
        "entry_at_listed_path": {k: dict(collections.Counter(e["res"] for e in rs if e["includeAnc"] and e["ancAt"] == k))
                                 for k in ("file", "dir", "link_in_same", "link_in_other", "link_out_same")},
        "kept_files": len(ks),
        "kept_allowed": dict(collections.Counter(f"{e['origin']}:{e['kind']}" for e in ks if _allowed(e))),
        "kept_not_allowed": dict(collections.Counter(f"{e['origin']}:{e['kind']}" for e in ks if not _allowed(e))),
        "escaped_the_target": sum(1 for e in ks if e["cls"] == "escaped"),
        "ancillary_kept_although_not_genuine": sum(1 for e in ks if e["origin"] in ("anc", "ancx")
                                                   and not e["ancGenuine"]),
    }


def run(tier, seed):
    c = Check(PROP, tier, seed, "model_checking")
    c.assumptions = [
        "Ed25519 unforgeability: the only manifest + signature pairs a mirror can present that the key owner made are "
        "the genuine ones the harness signed (no replay of older genuine manifests is modelled)",
        "download tasks run one at a time (max_parallel_downloads = 1) so that every run is deterministic; the retry "
        "policy of the downloader is `never` instead of 3 attempts 5 s apart",
        "the origin of a kept file is read from its bytes (every archive entry carries a tag naming its source); "
        "empty directories left behind are recorded, not judged",
        "failures are injected by missing / corrupt archives, a symlink entry tar refuses to follow, and a directory "
        "occupying the place of a vouched file (the harness runs as root: permission bits cannot be used)",
    ]
    c.cov["trusted_base"] = ["TLC", "harness listing / tagging / SHA-256 of the sandbox", "tar, flate2, zstd (archive "
                             "construction and re-reading of the served ancillary archive)", "serde_json"]
    q = tier == "quick"
    # the model follows the status of the listed finding (checks/dbcommon.py)
    k_link = is_known(PROP, "C19-ancillary-symlink-at-listed-path")
    now = {"ListedMustBeRegular": tla_bool(not k_link), "ExcuseAncLink": tla_bool(k_link)}
    c.cov["model_constants"] = now
    for u in UNIVERSES:
        c.mc("db", "MC_DbRestore", cfg_with(c, f"MC_DbRestore_{'q' if q else 't'}_{u}.cfg", now), name=u, workers=4,
             timeout=1800,
             vacuity=["Start", "UnpackImmutable", "Cleanup"] + (["Ancillary"] if u == "ancillary" else []))
        # idealised fixes (staged unpacking of immutable archives, injective manifest hash): no excuse needed
        c.mc("db", "MC_DbRestore", f"MC_DbRestore_ideal_{u}.cfg", name="idealised-fix-" + u, workers=4, timeout=1800,
             coverage=False)
    _expect_violation(c, "MC_DbRestore_unexcused_hostile.cfg", "known-finding-in-model-immutable-archive",
                      "immutable archives are unpacked straight into the target (C19-immutable-archive-*)")
    if k_link:
        _expect_violation(c, "MC_DbRestore_unexcused_anclink.cfg", "known-finding-in-model-listed-symlink",
                          "a symbolic link at a listed path verifies through the link and is moved "
                          "(C19-ancillary-symlink-at-listed-path)")
    _expect_violation(c, cfg_with(c, "MC_DbRestore_unexcused_merged.cfg", now), "known-finding-in-model-manifest-hash",
                      "re-split manifest keeps the genuine signature (C19-manifest-hash-not-injective)")
    cases = []
    for u in UNIVERSES:
        g = c.mc("db", "MC_DbRestore", cfg_with(c, f"MC_DbRestore_{'gen' if q else 'gen3'}_{u}.cfg", now),
                 name="GEN-" + u, workers=2, timeout=1800, coverage=False)
        cs = vlib.printed_json(g, "CASE")
        if len(cs) < 100:
            raise vlib.ToolError(f"GEN {u} produced too few cases")
        c.cov["stages"]["MC:GEN-" + u]["cases"] = len(cs)
        cases += cs
    cases.sort(key=lambda x: json.dumps(x, sort_keys=True))
    cases_path = os.path.join(c.work, "cases.ndjson")
    vlib.write_ndjson(cases_path, cases)
    c.build("vh-client", ["c19_download"])
    fs = os.path.join(c.work, "fs")
    t1 = os.path.join(c.work, "cases.trace.ndjson")
    c.run_harness("c19_download", ["--mode", "cases", "--cases", cases_path, "--out", t1, "--seed", seed,
                                   "--work", fs], timeout=6000)
    c.cov["stages"]["RUN:cases"] = c.cov["stages"].pop("RUN:c19_download")
    recs = vlib.read_ndjson(t1)
    rs = [e for e in recs if e["ev"] == "Restore"]
    for r_ in [x for x in rs if not x["pred_match"]][:10]:
        c.drift.append({k: r_[k] for k in ("case", "label", "res", "pred_result", "pred_diff", "manifest")})
    cov = _kept_cov(recs)
    cov["prediction_mismatches"] = sum(1 for x in rs if not x["pred_match"])
    c.cov["stages"]["RUN:cases"]["coverage"] = cov
    if cov["results"].get("ok", 0) < 200 or cov["kept_allowed"].get("anc:ledger", 0) < 50 \
            or cov["kept_allowed"].get("imm_archive:imm_in_range", 0) < 1000 \
            or len(cov["manifest_variants"]) < 11 or cov["results"].get("err", 0) < 100 \
            or min(sum(v.values()) for v in cov["entry_at_listed_path"].values()) < 10:
        c.defer(f"vacuity: {cov}")
    c.sample(rs[0])
    c.sample([e for e in recs if e["ev"] == "Kept" and not _allowed(e)][:2])
    c.validate("db", "DbRestoreTrace", "DbRestoreTrace.cfg", t1, name="cases")
    t2 = os.path.join(c.work, "random.trace.ndjson")
    c.run_harness("c19_download", ["--mode", "random", "--runs", 400 if q else 6000, "--out", t2, "--seed", seed,
                                   "--work", fs], timeout=6000)
    c.cov["stages"]["RUN:random"] = c.cov["stages"].pop("RUN:c19_download")
    recs2 = vlib.read_ndjson(t2)
    c.cov["stages"]["RUN:random"]["coverage"] = _kept_cov(recs2)
    c.validate("db", "DbRestoreTrace", "DbRestoreTrace.cfg", t2, name="random")
    c.cov["evaluations"] = len(rs) + sum(1 for e in recs2 if e["ev"] == "Restore")
    c.cov["distinct_nontrivial"] = len({json.dumps([e["case"], e["path"]]) for e in recs if e["ev"] == "Kept"})
    c.cov["rule"] = ("calls of the real download_unpack on TLC-generated and seeded random scenarios; every file found "
                     "below the sandbox afterwards is judged (Kept events); non-trivial = kept files, distinct by "
                     "(scenario, path)")
    return c.finish()


def replay(path, seed):
    c = Check(PROP, "quick", seed, "model_checking", replay=True)
    c.validate("db", "DbRestoreTrace", "DbRestoreTrace.cfg", os.path.abspath(path))
    return c.finish()
