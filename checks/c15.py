"""C15 -- an aggregator crash at any point leaves a verifiable store and resumable rounds."""
from checks import agg_common

PROP = "C15"


def select(behaviours, thorough):
    n = 16 if not thorough else 160
    crashy = [b for b in behaviours if any(s["a"] == "Crash" for s in b["steps"])]
    ins = [b for b in crashy if any(s["a"] == "Crash" and s.get("at") == "inserted" for s in b["steps"])]
    mrk = [b for b in crashy if any(s["a"] == "Crash" and s.get("at") == "marked" for s in b["steps"])]
    bef = [b for b in crashy if any(s["a"] == "Crash" and s.get("at") == "before_insert" for s in b["steps"])]
    ins.sort(key=lambda b: -b["ncerts"])
    mrk.sort(key=lambda b: -b["ncerts"])
    bef.sort(key=lambda b: -b["ncerts"])
    k = n // 3
    return ins[:k] + mrk[:k] + bef[: n - 2 * k]


def run(tier, seed):
    c = agg_common.run(PROP, tier, seed, select, level="fault_enumeration")
    return c.finish()


def replay(path, seed):
    return agg_common.replay(PROP, path, seed)
