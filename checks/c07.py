"""C07 -- signer registration requires a genuine, pool-bound, stake-bound key
(spec/reg: Registration.tla, MC_Registration.tla, RegistrationTrace.tla;
 harness: vh-common/c07_reg (ProtocolKeyRegistration::register), vh-aggregator/c07_round
 (SignerRegisterer::register_signer over the real verifier and sqlite store))."""
import collections
import os
import random
import subprocess

import vlib
from vlib import log
from checks.common import Check

PROP = "C07"
SPEC = ("reg", "RegistrationTrace", "RegistrationTrace.cfg")


def _feature_off(c):
    """the mithril-common level binary must be built WITHOUT allow_skip_signer_certification"""
    out = {}
    for pkg in ("vh-common", "vh-aggregator"):
        p = subprocess.run(["cargo", "tree", "--offline", "-e", "features,normal", "-p", pkg, "-i", "mithril-common"],
                           cwd=vlib.HARNESS, stdout=subprocess.PIPE, stderr=subprocess.STDOUT, text=True, timeout=600)
        if p.returncode != 0:
            raise vlib.ToolError(f"cargo tree -p {pkg} failed: {p.stdout[-500:]}")
        out[pkg] = 'mithril-common feature "allow_skip_signer_certification"' in p.stdout
    c.cov["stages"]["FEATURES"] = {"allow_skip_signer_certification_enabled_for": out}
    if out["vh-common"]:
        raise vlib.ToolError("vh-common enables mithril-common/allow_skip_signer_certification")
    return out


def _expect_violated(c, cfg, name, invariant):
    """a cfg whose invariant MUST fail in the model: vacuity guard / the excuse is needed, not stale"""
    res = vlib.tlc("reg", "MC_Registration", cfg, workers=8, timeout=900, metaname=f"{PROP}_{name}", coverage=False)
    if res.error:
        print(res.out[-3000:])
        raise vlib.ToolError(f"MC {cfg}: {res.error}")
    c.cov["stages"]["MC:" + name] = {"cfg": cfg, "generated": res.generated, "distinct": res.distinct,
                                     "wall_s": round(res.wall, 1), "expected_counterexample": invariant,
                                     "found": res.violated}
    c.cov["states"] += res.distinct
    c.cov["transitions"] += res.generated
    log(f"[{PROP}] MC {cfg}: counterexample to {invariant} expected, found: {res.violated}")
    return res.violated == invariant


def _plain(r):
    """an unaltered honest registration arriving in an empty registration / round"""
    g = r["reg"]
    p = g["cold"]
    honest = (g["hasCert"] and g["opcert"] == {"issuer": p, "kesVk": p, "sigOk": True, "start": g["opcert"]["start"]}
              and g["kesSig"]["byKes"] == p and g["kesSig"]["overVk"] == p and g["kesSig"]["overPop"]
              and g["vk"] == p and g["pop"] == {"k1": p, "k2": p} and g["hasEvo"]
              and g["kesSig"]["evo"] == g["announcedEvo"] and g["claimedParty"] in (p, "none"))
    after = r.get("state") if "state" in r else r.get("store")
    return honest and len(after or []) <= 1


def run(tier, seed):
    c = Check(PROP, tier, seed, "model_checking")
    quick = tier == "quick"
    c.assumptions = [
        "Ed25519, Sum6-KES and BLS unforgeability; blake2b-224 injective on the cold keys used (labels are names of byte identities)",
        "a KES signature over vk||pop counts as a signature of the verification key vk (the property speaks of the key only)",
        "round level: 'accepted' = answered Ok or the stored rows changed; 'not already registered' = no OTHER party holds the key "
        "(the same party sending its key again is answered ExistingSigner and leaves the rows as they are)",
        "the epoch_setting foreign key of signer_registration is switched off as in the repository's own store tests",
        "follower aggregators (MithrilSignerRegistrationFollower synchronises rows from the leader) and the HTTP route "
        "(epoch / round bookkeeping before register_signer) are not driven",
    ]
    c.cov["trusted_base"] = ["TLC", "ed25519-dalek verify", "kes-summed-ed25519 Sum6KesSig::verify at periods 0..=63",
                             "blst pairing / min_sig verify (harness PoP oracle)", "blake2 + bech32 (harness pool id)",
                             "serde_json", "sqlite (aggregator repository, in memory)"]
    feats = _feature_off(c)

    # ---- MC: the implementation-shaped model refines the property on the whole component universe
    if quick:
        c.mc("reg", "MC_Registration", "MC_Registration_quick.cfg", name="components", workers=12, timeout=900, heap="12g")
        c.mc("reg", "MC_Registration", "MC_Registration_evo.cfg", name="evolutions", workers=12, timeout=900, heap="12g")
    else:
        c.mc("reg", "MC_Registration", "MC_Registration_thorough.cfg", name="components-x-evolutions", workers=14,
             timeout=3400, heap="14g")
        if not _expect_violated(c, "MC_Registration_vacuity.cfg", "vacuity", "NothingAccepted"):
            raise vlib.ToolError("MC vacuity: the universe contains no accepted registration")
    stale = []
    if not _expect_violated(c, "MC_Registration_unexcused.cfg", "unexcused-kes", "Soundness"):
        stale.append("C07-kes-last-evolution-aliased")
    if not _expect_violated(c, "MC_Registration_round_unexcused.cfg", "unexcused-round", "RoundSound"):
        stale.append("C07-duplicate-key-across-round")
    if stale:
        c.cov["known_findings_stale_in_model"] = stale
    # the round as a state machine (also the behaviour generator)
    rnd_mc = c.mc("reg", "MC_Registration", "MC_Registration_round.cfg", name="round", workers=1, timeout=900, coverage=False)
    behaviours = sorted(vlib.printed_json(rnd_mc, "BEHAVIOUR"), key=lambda b: repr(b))
    if len(behaviours) < 500:
        raise vlib.ToolError("GEN produced too few round behaviours")

    # ---- GEN: the decision boundary with predicted verdicts
    g = c.mc("reg", "MC_Registration", "MC_Registration_gen.cfg", name="GEN", workers=1, timeout=900, coverage=False)
    cases = sorted(vlib.printed_json(g, "CASE"), key=lambda x: repr(x))
    if len(cases) < 3000:
        raise vlib.ToolError("GEN produced too few cases")
    for i, x in enumerate(cases):
        x["id"] = i
    by = collections.Counter((x["mut"], x["impl"]) for x in cases)
    c.cov["stages"]["MC:GEN"].update({
        "cases_total": len(cases), "cases_predicted_accept": sum(1 for x in cases if x["impl"]),
        "cases_by_class": {f"{k[0]}/{'accept' if k[1] else 'reject'}": v for k, v in sorted(by.items())},
        "predicted_reject_reasons": dict(collections.Counter(x["err"] for x in cases if not x["impl"])),
        "round_behaviours_total": len(behaviours)})
    cases_path = os.path.join(c.work, "cases.ndjson")
    vlib.write_ndjson(cases_path, cases)               # all of them in both tiers (4 ms each)
    rnd = random.Random(seed)
    for i, b in enumerate(behaviours):
        b["id"] = i
    if quick:
        hot = [b for b in behaviours if not b["builderOk"]]
        rest = [b for b in behaviours if b["builderOk"]]
        sel = rnd.sample(hot, min(150, len(hot))) + rnd.sample(rest, min(350, len(rest)))
    else:
        sel = behaviours
    beh_path = os.path.join(c.work, "behaviours.ndjson")
    vlib.write_ndjson(beh_path, sel)
    c.cov["stages"]["MC:GEN"]["round_behaviours_selected"] = len(sel)

    # ---- spec -> impl, mithril-common level
    c.build("vh-common", ["c07_reg"])
    t1 = os.path.join(c.work, "cases.trace.ndjson")
    s1 = c.run_harness("c07_reg", ["--mode", "cases", "--cases", cases_path, "--out", t1, "--seed", seed], timeout=7000)
    recs = vlib.read_ndjson(t1)
    regs = [r for r in recs if r["ev"] == "Register" and r["mut"] != "pre"]
    mism = [r for r in regs if r["accepted"] != r["predicted"]]
    for r in mism[:10]:
        c.drift.append({"case": r["case"], "predicted": r["predicted"], "real": r["accepted"], "reg": r["reg"]})
    reasons = dict(collections.Counter(r["err"] for r in regs if not r["accepted"]))
    c.cov["stages"]["RUN:cases"] = dict(c.cov["stages"].pop("RUN:c07_reg"), prediction_mismatches=len(mism),
                                        real_reject_reasons=reasons)
    c.sample([r for r in regs if r["accepted"]][0])
    c.sample([r for r in regs if r["mut"] == "splice" and not r["accepted"]][0])
    c.validate(*SPEC, t1, name="cases")

    # ---- impl -> spec, seeded byte-level / structural mutation stacks
    t2 = os.path.join(c.work, "random.trace.ndjson")
    s2 = c.run_harness("c07_reg", ["--mode", "random", "--n", 400 if quick else 6000, "--out", t2, "--seed", seed],
                       timeout=7000)
    recs2 = [r for r in vlib.read_ndjson(t2) if r["ev"] == "Register"]
    c.cov["stages"]["RUN:mutations"] = c.cov["stages"].pop("RUN:c07_reg")
    c.validate(*SPEC, t2, name="mutations")

    # ---- the aggregator's registration round
    c.build("vh-aggregator", ["c07_round"])
    t3 = os.path.join(c.work, "round.trace.ndjson")
    s3 = c.run_harness("c07_round", ["--behaviours", beh_path, "--out", t3, "--seed", seed,
                                     "--random", 60 if quick else 600], timeout=7000)
    recs3 = vlib.read_ndjson(t3)
    rr = [r for r in recs3 if r["ev"] == "RoundRegister"]
    mism3 = [r for r in rr if r["predicted"] not in ("n/a", r["resp"])]
    for r in mism3[:10]:
        c.drift.append({"behaviour": r["behaviour"], "step": r["step"], "shape": r["shape"],
                        "predicted": r["predicted"], "real": r["resp"]})
    dup = [r for r in rr if r["duplicate_key_across_round"]]
    c.cov["stages"]["RUN:c07_round"]["prediction_mismatches"] = len(mism3)
    if dup:
        c.sample(dup[0])
    c.sample([r for r in recs3 if r["ev"] == "RoundClose" and not r["builder_ok"]][:1])
    c.validate(*SPEC, t3, name="round")
    if s3.get("allow_skip_signer_certification_compiled_in") or feats["vh-aggregator"]:
        c.assumptions.append("vh-aggregator is built WITH mithril-common/allow_skip_signer_certification (another bin needs it): "
                             "round-level requests always carry a certificate, so the feature's only branch is not taken there; "
                             "requests without certificate are judged at the mithril-common level only")

    # ---- vacuity: the interesting branches are really reached
    acc1 = sum(1 for r in regs if r["accepted"])
    classes = s2.get("mutation_classes", {})
    need = {
        "accepted TLC cases": acc1 >= 150,
        "every predicted reject reason seen on the real code": len(reasons) >= 6,
        "pre-registered key cases": s1.get("pre_registrations", 0) >= 500,
        "mutation classes": len(classes) >= 18 and min(classes.values()) >= 5,
        "accepted mutated registrations": sum(1 for r in recs2 if r["accepted"] and r["mut"]) >= 10,
        "round: existing / invalid / ok answers": all(s3.get("responses", {}).get(k, 0) > 20 for k in ("ok", "existing", "invalid")),
        # (since fix b34c3480b a key held by another party is refused; before it, the accepted duplicate was the finding)
        "round: key of another party attempted and refused": sum(
            1 for r in rr if r.get("key_held_by_other_before") and not r["accepted"]) > 20 or len(dup) > 0,
    }
    bad = [k for k, v in need.items() if not v]
    if bad:
        c.defer(f"vacuity: {bad}")
    allregs = regs + recs2 + rr
    c.cov["evaluations"] = len(allregs) + s1.get("pre_registrations", 0)
    c.cov["distinct_nontrivial"] = len({repr((r["reg"], r.get("state"), r.get("store"))) for r in allregs
                                         if not _plain(r)})
    c.cov["rule"] = ("real register / register_signer calls on TLC-generated registrations (all 2^9 A/B splices, single+double "
                     "alterations of honest and re-keyed registrations, evolution sweep, distribution x pre-registration sweep), on "
                     "seeded mutation stacks and on TLC-generated round behaviours; distinct = distinct (abstract projection recomputed "
                     "from the real bytes, resulting state) pairs; non-trivial = not an unaltered honest registration into an empty "
                     "registration / round")
    c.cov["accepted"] = {"cases": acc1, "mutations": sum(1 for r in recs2 if r["accepted"]),
                         "round": sum(1 for r in rr if r["accepted"])}
    c.cov["mutation_classes"] = classes
    c.cov["round"] = {k: s3.get(k) for k in ("behaviours", "requests", "responses", "duplicate_key_across_round",
                                               "rounds_where_signer_builder_fails")}
    return c.finish()


def replay(path, seed):
    c = Check(PROP, "quick", seed, "model_checking", replay=True)
    c.validate(*SPEC, os.path.abspath(path))
    return c.finish()
