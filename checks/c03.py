"""C03 -- certificate chain verification (spec/cert: CertChain.tla, MC_CertChain, MC_CertClient, CertChainTrace).

MC   the verifier walk (mithril-common) and the client loop with its verifier cache (mithril-client)
     against ValidChain, untrusted provider answering ANY certificate at every fetch.
GEN  TLC prints every accepted walk / session and every one rejected by exactly one clause, with the
     model's verdict; the harness realises them with real certificates really multi-signed by real
     key sets (honest per epoch, adversarial, colluding).
VAL  accepted => ValidChain(projection recomputed from the real certificates).
"""
import json
import os
import random

import vlib
from checks.common import Check

PROP = "C03"
F_EPOCH = "C03-epoch-order"
F_FORGED = "C03-client-cache-forged-download"
F_TAINT = "C03-client-cache-tainted-entry"
F_JUMP = "C03-client-cache-unchecked-fetched-hash"


def _cfg(c, name, known, invariants=None, flip=None):
    """A copy of spec/cert/<name> in the work directory: constants that model a listed known
    finding are switched to the fixed behaviour once the finding is no longer listed as known;
    optionally other invariants (witness runs) or forced constants (`flip`)."""
    text = open(os.path.join(vlib.SPEC, "cert", name)).read()
    if F_EPOCH not in known:
        text = text.replace("EpochOrderStrict = FALSE", "EpochOrderStrict = TRUE")
    if F_FORGED not in known and F_TAINT not in known:
        text = text.replace("CacheSound = FALSE", "CacheSound = TRUE")
    if F_JUMP not in known:
        text = text.replace("FetchedHashChecked = FALSE", "FetchedHashChecked = TRUE")
    for a, b in (flip or []):
        text = text.replace(a, b)
    tag = name[:-4]
    if invariants is not None:
        lines = [l for l in text.splitlines() if not l.startswith("INVARIANTS")]
        lines.insert(len(lines) - 1, "INVARIANTS " + " ".join(invariants))
        text = "\n".join(lines) + "\n"
        tag += "_" + "_".join(invariants)
    if flip:
        tag += "_flip"
    path = os.path.join(c.work, tag + ".cfg")
    with open(path, "w") as f:
        f.write(text)
    return path


def _cases(res):
    """CASE lines printed by TLC (several workers: a damaged line is skipped and counted)."""
    out, bad = [], 0
    prefix = '<<"CASE", "'
    for line in res.printed:
        if line.startswith(prefix) and line.endswith('">>'):
            try:
                out.append(json.loads(vlib._tla_unescape(line[len(prefix):-3])))
            except Exception:
                bad += 1
    out.sort(key=lambda x: json.dumps(x, sort_keys=True))
    return out, bad


TWIN_FIELDS = ("avk", "nextAvk", "params", "nextParams", "sigBy")


def _twin_kinds(certs):
    """which twins of composite values (a key / parameter set that agrees with an honest one on a
    part and differs on another: names with a '/') the certificates carry, as sorted 'field/kind'"""
    out = set()
    for x in certs:
        for f in TWIN_FIELDS:
            v = str(x.get(f, ""))
            if "/" in v:
                # abstract names: H3/s, p/k ...; projected names: H3/s42, H3/n3/s42
                out.add(f + "/" + v.split("/", 1)[1][:1])
    return sorted(out)


def _stratified(items, key, n, rnd):
    """At most n items, taken round-robin over the strata given by `key` (every stratum is
    represented before any stratum gets a second item), seeded."""
    if len(items) <= n:
        return list(items)
    strata = {}
    for x in items:
        strata.setdefault(key(x), []).append(x)
    for v in strata.values():
        rnd.shuffle(v)
    out, keys = [], sorted(strata)
    while len(out) < n:
        for k in keys:
            if strata[k] and len(out) < n:
                out.append(strata[k].pop())
    return out


def _session_key(x):
    """stratum of a one-attempt client session: why it ends, the deviation flags, warm or cold
    cache, whether the first answer stays in the start certificate's epoch, number of answers"""
    a = x["attempts"][-1]
    certs = x["certs"]
    first = [i for i in a["serve"][:1] if i]
    same_epoch = bool(first) and certs[first[0] - 1]["epoch"] == certs[a["start"] - 1]["epoch"]
    first_forged = bool(first) and not certs[first[0] - 1]["hashOk"]
    return json.dumps([x["cls"], bool(x["warm"]), same_epoch, first_forged, len(a["serve"]), _twin_kinds(certs)])


def _witness(c, module, cfg_name, known, finding, inv, **kw):
    """While a finding is listed as known the model must reach it (else the entry is stale)."""
    if finding not in known:
        return
    vlib.log(f"[{PROP}] MC witness {inv} ({cfg_name}): the model must reach the listed deviation")
    r = vlib.tlc("cert", module, _cfg(c, cfg_name, known, invariants=[inv]), coverage=False,
                 metaname=f"{PROP}_wit_{inv}", **kw)
    if r.error:
        raise vlib.ToolError(f"witness {inv}: {r.error}")
    c.cov["stages"][f"MC:witness:{inv}"] = {
        "generated": r.generated, "distinct": r.distinct, "wall_s": round(r.wall, 1),
        "reaches_known_deviation": r.violated == inv}
    if r.violated != inv:
        c.cov.setdefault("stale_known_findings_in_model", []).append(finding)


def _drift(c, recs, what):
    mism = [r for r in recs if r.get("predicted") in (True, False) and r["predicted"] != r["accepted"]]
    for r in mism[:10]:
        c.drift.append({"where": what, "case": r["case"], "cls": r["cls"], "predicted": r["predicted"],
                        "real": r["accepted"], "err": r["err"]})
    return len(mism)


def _require_no_model_cex(c, res, what):
    if res.violated and res.violated != "GenPrint":
        # DESIGN 3.6: an unlisted counterexample in the model is decided by the conformance stages;
        # it is recorded (Check.mc did) and the run goes on.
        vlib.log(f"[{PROP}] {what}: model counterexample to {res.violated}")


def run(tier, seed):
    c = Check(PROP, tier, seed, "model_checking")
    quick = tier == "quick"
    rnd = random.Random(seed)
    known = {k["id"] for k in vlib.known_findings(PROP)}
    c.assumptions = [
        "hash injectivity: a certificate whose stored hash matches its content is the only one with that hash "
        "(Certificate::try_compute_hash / ProtocolMessage::compute_hash themselves are C04's subject)",
        "a multi-signature / genesis signature is valid iff the named key produced it on that message; evaluated on "
        "real certificates with mithril-stm AggregateSignature::verify (C01's subject) and the Ed25519 verifier",
        "any key set, honest ones included, may sign forged certificates (collusion is not excluded); one genuine "
        "signer alone can sign under a twin of its set's key with a shrunken total stake (realised with a real aggregate)",
        "client path: cache entries only come from this verifier's own stores (cold, or warmed by real verifications "
        "served honestly); at most 2 adversarial attempts per session in MC, 4 in the random driver; the model bounds "
        "answers with a hash other than the one asked (MaxJumps) per attempt",
        "SNARK / IVC certificate variants (feature future_snark, off by default) are not modelled",
    ]
    c.cov["trusted_base"] = ["TLC", "mithril-stm AggregateSignature::verify", "ed25519 verify",
                             "Certificate::try_compute_hash / ProtocolMessage::compute_hash as hash oracles",
                             "mithril_common::test fixtures (key material)"]
    # ---------------------------------------------------------------- common path: MC + GEN
    cfg = "MC_CertChain_quick.cfg"
    g = c.mc("cert", "MC_CertChain", _cfg(c, cfg, known), name="chain", workers=6, timeout=1500,
             coverage=False, heap="8g")
    _require_no_model_cex(c, g, "MC chain")
    cases, bad = _cases(g)
    _witness(c, "MC_CertChain", cfg, known, F_EPOCH, "NoFollowingAccept", workers=8, timeout=900)
    if not quick:
        c.mc("cert", "MC_CertChain", _cfg(c, "MC_CertChain_thorough.cfg", known), name="chain-thorough",
             workers=12, timeout=3400, coverage=False, heap="12g")
        # double alterations inside and across the composite fields, twins included
        c.mc("cert", "MC_CertChain", _cfg(c, "MC_CertChain_thorough_twins.cfg", known), name="chain-thorough-twins",
             workers=12, timeout=3400, coverage=False, heap="12g")
        g5 = c.mc("cert", "MC_CertChain", _cfg(c, "MC_CertChain_gen5.cfg", known), name="chain-5",
                  workers=8, timeout=3400, coverage=False, heap="12g")
        more, bad5 = _cases(g5)
        cases += more
        bad += bad5
    if len(cases) < 1000:
        raise vlib.ToolError("GEN (chain) produced too few cases")
    acc = [x for x in cases if x["impl"]]
    rest = [x for x in cases if not x["impl"]]
    n_rest = 3000 if quick else 50000
    # twin cases are strata of their own: (which component of which composite field, why rejected)
    def case_key(x):
        return json.dumps([x["cls"], x["valid"], len(x["serve"]), x["certs"][0]["id"][:2], x["certs"][0]["hashOk"],
                           _twin_kinds(x["certs"][:1 + len(x["serve"])])])
    plain = [x for x in rest if not _twin_kinds(x["certs"])]
    twins = [x for x in rest if _twin_kinds(x["certs"])]
    sel = acc + _stratified(plain, case_key, n_rest, rnd) + _stratified(twins, case_key, n_rest // 2, rnd)
    st = c.cov["stages"]["MC:chain"]
    st.update({"cases_total": len(cases), "cases_selected": len(sel), "cases_predicted_accept": len(acc),
               "cases_predicted_accept_not_valid": len([x for x in acc if not x["valid"]]),
               "damaged_case_lines": bad,
               "reject_classes": sorted({x["cls"][0] for x in rest}),
               "twin_cases_total": len([x for x in cases if _twin_kinds(x["certs"])]),
               "twin_cases_selected": len([x for x in sel if _twin_kinds(x["certs"])]),
               "twin_kinds_selected": sorted({k for x in sel for k in _twin_kinds(x["certs"])})})
    if not acc:
        raise vlib.ToolError("vacuity: no accepted walk generated")
    p_cases = os.path.join(c.work, "chain.cases.ndjson")
    vlib.write_ndjson(p_cases, sel)
    # ---------------------------------------------------------------- client path: MC + GEN
    g1 = c.mc("cert", "MC_CertClient", _cfg(c, "MC_CertClient_quick1.cfg" if quick else "MC_CertClient_thorough1.cfg", known),
              name="client-1-attempt", workers=6, timeout=3000, coverage=False, heap="8g")
    _require_no_model_cex(c, g1, "MC client 1")
    if not quick:
        # (quick tier: the two-attempt model is checked by the GEN run below, same constants as quick2)
        c.mc("cert", "MC_CertClient", _cfg(c, "MC_CertClient_thorough2.cfg", known),
             name="client-2-attempts", workers=12, timeout=3400, coverage=False, heap="12g")
    g2 = c.mc("cert", "MC_CertClient", _cfg(c, "MC_CertClient_gen2.cfg", known), name="client-gen-2-attempts",
              workers=6, timeout=1500, coverage=False)
    _witness(c, "MC_CertClient", "MC_CertClient_quick1.cfg", known, F_FORGED, "NoForgedHit", workers=8, timeout=900)
    _witness(c, "MC_CertClient", "MC_CertClient_quick2.cfg", known, F_TAINT, "NoTaintedHit", workers=8, timeout=900)
    _witness(c, "MC_CertClient", "MC_CertClient_quick2.cfg", known, F_JUMP, "NoJumpAccept", workers=8, timeout=900)
    # the model of the proposed fixes needs no excuse (informational: says the fix design is sound in the model)
    if known & {F_EPOCH, F_FORGED, F_TAINT, F_JUMP}:
        rf = c.mc("cert", "MC_CertClient",
                  _cfg(c, "MC_CertClient_quick2.cfg", known, invariants=["ClientSound"],
                       flip=[("EpochOrderStrict = FALSE", "EpochOrderStrict = TRUE"), ("CacheSound = FALSE", "CacheSound = TRUE"),
                             ("FetchedHashChecked = FALSE", "FetchedHashChecked = TRUE")]),
                  name="client-proposed-fixes", workers=8, timeout=900, coverage=False)
        c.cov["stages"]["MC:client-proposed-fixes"]["holds_without_excuse"] = rf.violated is None
    s1, b1 = _cases(g1)
    s2, b2 = _cases(g2)
    if F_FORGED not in known and F_TAINT not in known:
        # regression histories: the sessions the model of the cache AS IT WAS BEFORE ITS FIX accepts or
        # rejects at the boundary (a rejected attempt that leaves an entry behind, then an attempt that
        # hits it) are still realised; the model that generates them no longer describes the code, so
        # they carry no prediction -- the contract decides
        g2u = c.mc("cert", "MC_CertClient",
                   _cfg(c, "MC_CertClient_gen2_prefix.cfg", known, flip=[("CacheSound = TRUE", "CacheSound = FALSE")]),
                   name="client-gen-2-attempts-prefix-cache-model", workers=6, timeout=1500, coverage=False)
        old_sessions, b2u = _cases(g2u)
        for x in old_sessions:
            for a in x["attempts"]:
                a.pop("impl", None)
            x["cls"] = x["cls"] + ["pre-fix-cache-model"]
        c.cov["stages"]["MC:client-gen-2-attempts-prefix-cache-model"].update(
            {"cases_total": len(old_sessions), "damaged_case_lines": b2u})
        c.cov["stages"]["MC:client-gen-2-attempts-prefix-cache-model"].pop("model_counterexample", None)
        c.cov["stages"]["MC:client-gen-2-attempts-prefix-cache-model"].pop("counterexample_text", None)
        s2 = s2 + old_sessions
    n1 = 800 if quick else 20000
    acc1 = [x for x in s1 if x["cls"][0] == "accept"]
    rej1 = [x for x in s1 if x["cls"][0] != "accept"]
    acc1 = _stratified(acc1, _session_key, n1, rnd)
    rej1 = _stratified(rej1, _session_key, n1, rnd)
    # every rejected single attempt is also retried once (a persistent cache must not turn a retry
    # into an acceptance); no prediction for the retry
    retry = []
    for x in rej1:
        y = json.loads(json.dumps(x))
        a = dict(y["attempts"][-1])
        a.pop("impl", None)
        # the retry is served the same answers up to the one that made the first attempt fail,
        # and honestly from there on
        a["serve"] = a["serve"][:-1]
        y["attempts"].append(a)
        y["cls"] = y["cls"] + ["retry"]
        retry.append(y)
    n2 = 800 if quick else 20000
    s2sel = _stratified(s2, _session_key, n2, rnd)
    sessions = acc1 + retry + s2sel
    c.cov["stages"]["MC:client-1-attempt"].update({"cases_total": len(s1), "damaged_case_lines": b1})
    c.cov["stages"]["MC:client-gen-2-attempts"].update({"cases_total": len(s2), "damaged_case_lines": b2})
    c.cov["client_sessions_selected"] = {"accepted_single": len(acc1), "rejected_single_with_retry": len(retry),
                                         "two_attempts": len(s2sel),
                                         "with_twins": len([x for x in sessions if _twin_kinds(x["certs"])])}
    if not acc1 or not s2sel:
        raise vlib.ToolError("vacuity: client GEN produced no accepted / no two-attempt session")
    p_sessions = os.path.join(c.work, "client.cases.ndjson")
    vlib.write_ndjson(p_sessions, sessions)
    # ---------------------------------------------------------------- RUN + VAL
    c.build("vh-common", ["c03_chain"])
    c.build("vh-client", ["c03_client"])
    t1 = os.path.join(c.work, "chain.trace.ndjson")
    c.run_harness("c03_chain", ["--mode", "cases", "--cases", p_cases, "--out", t1, "--seed", seed], timeout=7000)
    recs = vlib.read_ndjson(t1)
    c.cov["stages"]["RUN:chain-cases"] = c.cov["stages"].pop("RUN:c03_chain")
    c.cov["stages"]["RUN:chain-cases"]["prediction_mismatches"] = _drift(c, recs, "chain")
    # (samples are run-dependent: never index into a possibly empty selection)
    c.sample([{k: v for k, v in r.items() if k != "certs"} for r in recs if r["accepted"]][:1])
    c.sample([{k: v for k, v in r.items() if k != "certs"} for r in recs
              if _twin_kinds(r["certs"][:1]) and not r["accepted"]][:1])
    c.validate("cert", "CertChainTrace", "CertChainTrace.cfg", t1, name="chain-cases")

    t2 = os.path.join(c.work, "chain.random.trace.ndjson")
    s = c.run_harness("c03_chain", ["--mode", "random", "--n", 400 if quick else 20000, "--out", t2, "--seed", seed], timeout=7000)
    c.cov["stages"]["RUN:chain-random"] = c.cov["stages"].pop("RUN:c03_chain")
    recs2 = vlib.read_ndjson(t2)
    c.validate("cert", "CertChainTrace", "CertChainTrace.cfg", t2, name="chain-random")

    t3 = os.path.join(c.work, "client.trace.ndjson")
    c.run_harness("c03_client", ["--mode", "cases", "--cases", p_sessions, "--out", t3, "--seed", seed,
                                 "--nocache-every", 8], timeout=7000)
    recs3 = vlib.read_ndjson(t3)
    c.cov["stages"]["RUN:client-cases"] = c.cov["stages"].pop("RUN:c03_client")
    c.cov["stages"]["RUN:client-cases"]["prediction_mismatches"] = _drift(c, recs3, "client")
    c.sample([{k: v for k, v in r.items() if k != "certs"} for r in recs3 if r["cache_hits"] and r["accepted"]][:1])
    c.validate("cert", "CertChainTrace", "CertChainTrace.cfg", t3, name="client-cases")

    t4 = os.path.join(c.work, "client.random.trace.ndjson")
    s = c.run_harness("c03_client", ["--mode", "random", "--n", 300 if quick else 10000, "--out", t4, "--seed", seed,
                                     "--nocache-every", 3], timeout=7000)
    c.cov["stages"]["RUN:client-random"] = c.cov["stages"].pop("RUN:c03_client")
    recs4 = vlib.read_ndjson(t4)
    c.validate("cert", "CertChainTrace", "CertChainTrace.cfg", t4, name="client-random")

    allr = recs + recs2 + recs3 + recs4
    c.cov["evaluations"] = len(allr)
    c.cov["accepted_runs"] = len([r for r in allr if r["accepted"]])
    c.cov["accepted_by_path"] = {p: len([r for r in allr if r["accepted"] and r["path"] == p])
                                 for p in ("common", "client", "client-nocache")}
    c.cov["panics"] = len([r for r in allr if r["panicked"]])
    c.cov["known_deviation_events"] = {
        "dev_following": len([r for r in allr if r["dev_following"]]),
        "dev_cache_forged": len([r for r in allr if r["dev_cache_forged"]]),
        "dev_cache_tainted": len([r for r in allr if r["dev_cache_tainted"]]),
        "dev_cache_jump": len([r for r in allr if r["dev_cache_jump"]])}
    c.cov["client_cache_hits"] = sum(len(r.get("cache_hits", [])) for r in recs3 + recs4)
    c.cov["distinct_nontrivial"] = len({json.dumps([r["certs"], r["start"], r["walk"]], sort_keys=True) for r in allr})
    c.cov["rule"] = ("verify_certificate_chain / client verify_chain runs on real certificates realising TLC-generated "
                     "universes (accepted walks and walks rejected by exactly one clause) and seeded random universes; "
                     "distinct = distinct (projected universe, start, real walk)")
    # twins of composite values, as the REAL certificates carry them (names recomputed from the real
    # bytes by the projection): runs whose start or served certificates carry one
    def involved(r):
        idx = {r["start"]} | {w[1] for w in r["walk"] if w[1]}
        return [r["certs"][i - 1] for i in idx if 0 < i <= len(r["certs"])]
    tw = {}
    for r in allr:
        for k in _twin_kinds(involved(r)):
            d = tw.setdefault(k, {"runs": 0, "accepted": 0, "by_path": {}})
            d["runs"] += 1
            d["accepted"] += 1 if r["accepted"] else 0
            d["by_path"][r["path"]] = d["by_path"].get(r["path"], 0) + 1
    c.cov["twin_runs"] = tw
    # a certificate whose own key is a twin under which its multi-signature really verifies
    # (genuine signature under a shrunken total stake, or the lone-signer forgery)
    c.cov["runs_with_certificate_verifying_under_twin_key"] = len(
        [r for r in allr if any("/" in x["avk"] and x["sigOk"] for x in involved(r))])
    need = {"avk/s", "avk/n", "nextAvk/s", "nextAvk/n", "params/k", "params/m", "params/f", "params/g",
            "nextParams/k", "nextParams/m", "nextParams/f", "nextParams/g"}
    if need - set(tw):
        c.defer(f"vacuity: no run on real certificates with twin {sorted(need - set(tw))}")
    if c.cov["runs_with_certificate_verifying_under_twin_key"] == 0:
        c.defer("vacuity: no certificate whose multi-signature verifies under a twin of the committed key")
    if not any(d["by_path"].get("client") for d in tw.values()):
        c.defer("vacuity: no twin on the client path")
    if c.cov["accepted_runs"] == 0:
        c.defer("vacuity: the real verifier accepted nothing")
    return c.finish()


def replay(path, seed):
    c = Check(PROP, "quick", seed, "model_checking", replay=True)
    c.validate("cert", "CertChainTrace", "CertChainTrace.cfg", os.path.abspath(path))
    return c.finish()
