"""C12 -- the database digest depends only on the immutable files up to the beacon
(spec/db: DbDigest.tla, MC_DbDigest, MC_DbDigestGen, DbDigestTrace)."""
import collections
import json
import os

import vlib
from checks.common import Check
from checks.dbcommon import cfg_with, is_known, tla_bool

PROP = "C12"
KIND_ORDER = ["range", "hist", "other", "badname", "entry", "order", "beyond", "perturb", "remove", "nonreg",
              "rangehist", "live", "livecache", "decoy"]


def _classes(recs):
    by = collections.defaultdict(set)
    for r in recs:
        if r["res"] == "ok":
            by[r.get("op", "tree") + json.dumps(r["covered"], sort_keys=True)].add(r["root"])
    return by


def _non_prefix(case):
    """some cached step of the history finds a warm cache that is not a prefix of the files it processes"""
    cached = set()
    nums = sorted({f["num"] for f in case["imm"]})
    for st in case["hist"]:
        todo = [n for n in nums if st["lo"] <= n <= st["hi"]]
        if st["cache"]:
            warm = [n in cached for n in todo]
            if any(warm) and not all(warm[:sum(warm)]):
                return True
            if st["op"] == "range" or (todo and todo[-1] == st["hi"]):
                cached |= set(todo)
    return False


def run(tier, seed):
    c = Check(PROP, tier, seed, "model_checking")
    c.assumptions = [
        "SHA-256 and the Merkle root are injective (two different digest sequences never give the same root); "
        "the Merkle algorithms themselves are C09's subject",
        "the database of a node is <db>/immutable; a digest cache is only ever reused over the same unchanged files "
        "(as the property states)",
        "an immutable file = a regular file <db>/immutable/<number>.<chunk|primary|secondary>; a directory or a "
        "dangling link under such a name is no file; a symbolic link to a regular file is kept apart (the property does "
        "not say whether it stands for the file: nodes holding one are only compared with nodes holding the same)",
        "a result taken from an explicit cache that holds the digest of a file changed on disk since is not judged (the "
        "statement promises cache independence over the same unchanged files only); a digester built without cache "
        "provider is always judged, also when the same long-lived object computed before the files changed",
        "a computation that fails computes no root and is not constrained by the property (a stray "
        "<db>/immutable/abc.chunk makes the real digester fail: reported in the coverage, not a violation)",
        "readdir order is whatever the file system of /verif/work gives; both relative orders of the second "
        "`immutable` directory are realised by probing directory names",
    ]
    c.cov["trusted_base"] = ["TLC", "harness listing + SHA-256 of the real directory (covered projection)",
                             "MKTree (prediction only)", "serde_json"]
    q = tier == "quick"
    # the model follows the status of the listed finding (checks/dbcommon.py)
    known = is_known(PROP, "C12-nested-immutable-dir")
    now = {"FindPrefersDirectChild": tla_bool(not known), "ExcuseDecoy": tla_bool(known)}
    c.cov["model_constants"] = now
    # MC: two nodes one atomic change apart, all histories of <= MaxSteps computations
    # (Merkle trees at any beacon and digests of any range, so that caches warmed by non-prefix subsets occur)
    for cfg in (["MC_DbDigest_quick.cfg"] if q else ["MC_DbDigest_thorough.cfg"]):
        c.mc("db", "MC_DbDigest", cfg_with(c, cfg, now), name="nodes-" + cfg[len("MC_DbDigest_"):-4], workers=12,
             timeout=3400, heap="12g", coverage=False)
    # one node whose files change on disk between the computations of its long-lived digester objects
    # (byte change, other file's content, removal, addition), restarts, and a second cold node at the end
    c.mc("db", "MC_DbDigest", cfg_with(c, "MC_DbDigest_live_quick.cfg" if q else "MC_DbDigest_live_thorough.cfg", now),
         name="live", workers=12, timeout=3400, heap="12g", coverage=False)
    # a cache-less digester object that remembered digests between computations would be seen by the model
    r = c.mc("db", "MC_DbDigest", cfg_with(c, "MC_DbDigest_live_memory.cfg", now), name="instance-memory-is-seen",
             workers=4, timeout=600, coverage=False)
    if r.violated != "Sensitive":
        raise vlib.ToolError("the model does not reject a cache-less digester object with a memory")
    if known:
        # the proposed fix (prefer the direct child directory) closes the model without any excuse
        c.mc("db", "MC_DbDigest", "MC_DbDigest_fixed.cfg", name="proposed-fix", workers=8, timeout=1200)
        # the listed known finding is what the excuse is needed for (stale otherwise)
        r = c.mc("db", "MC_DbDigest", "MC_DbDigest_unexcused.cfg", name="known-finding-in-model", workers=4,
                 timeout=600)
        c.cov["stages"]["MC:known-finding-in-model"]["needed"] = (r.violated == "Determined")
        if r.violated != "Determined":
            raise vlib.ToolError("the model no longer shows the known finding C12-nested-immutable-dir (stale excuse)")
    # GEN
    g = c.mc("db", "MC_DbDigestGen",
             cfg_with(c, "MC_DbDigestGen_quick.cfg" if q else "MC_DbDigestGen_thorough.cfg", now),
             name="GEN", workers=1, timeout=1800, coverage=False)
    cases = vlib.printed_json(g, "CASE")
    if len(cases) < 1500:
        raise vlib.ToolError("GEN produced too few cases")
    # nodes with the same disk are consecutive (the harness then builds the directory once)
    cases.sort(key=lambda x: (KIND_ORDER.index(x["kind"]),
                              json.dumps([x["imm"], x["nonreg"], x["other"], x["bad"], x["decoy"], x["order"]]),
                              json.dumps(x, sort_keys=True)))
    cases_path = os.path.join(c.work, "cases.ndjson")
    vlib.write_ndjson(cases_path, cases)
    kinds = collections.Counter(x["kind"] for x in cases)
    c.cov["stages"]["MC:GEN"]["cases"] = dict(kinds)
    c.build("vh-client", ["c12_digest"])
    fs = os.path.join(c.work, "fs")
    # spec -> impl
    t1 = os.path.join(c.work, "cases.trace.ndjson")
    s1 = c.run_harness("c12_digest", ["--mode", "cases", "--cases", cases_path, "--out", t1, "--seed", seed,
                                      "--work", fs], timeout=3000)
    recs = vlib.read_ndjson(t1)
    c.cov["stages"]["RUN:cases"] = c.cov["stages"].pop("RUN:c12_digest")
    if s1.get("unrealised", 0):
        c.cov["stages"]["RUN:cases"]["note"] = "some readdir orders could not be realised on this file system"
    for r_ in [x for x in recs if not x["pred_match"]][:10]:
        c.drift.append({"case": r_["case"], "kind": r_["kind"], "pred_ok": r_["pred_ok"], "res": r_["res"],
                        "covered": r_["covered"]})
    cl = _classes(recs)
    ok = [x for x in recs if x["res"] == "ok"]
    cov = {
        "computations": len(recs), "ok": len(ok),
        "classes": len(cl), "classes_with_2plus_members": sum(
            1 for n in collections.Counter(x["op"] + json.dumps(x["covered"], sort_keys=True) for x in ok).values()
            if n >= 2),
        "by_kind_ok": dict(collections.Counter(x["kind"] for x in ok)),
        "with_cache_ok": sum(1 for x in ok if x["cache"]),
        "range_computations_ok": sum(1 for x in ok if x["op"] == "range"),
        "range_warmed_histories": sum(1 for x in cases if x["kind"] == "rangehist"),
        "histories_with_non_prefix_warm_cache": sum(1 for x in cases if _non_prefix(x)),
        "cacheless_after_files_changed": dict(collections.Counter(
            x["afterChange"] for x in ok if not x["cache"] and x["afterChange"] != "none")),
        "cached_stale_unjudged": sum(1 for x in ok if x["stale"]),
        "non_regular_entries_ok": dict(collections.Counter(k for x in ok for k in set(x["nonreg"]))),
        "decoy_first_ok": sum(1 for x in ok if x["decoy"] == "first" and x["entry"] == "db"),
        "decoy_after_ok": sum(1 for x in ok if x["decoy"] == "after"),
        "errors": dict(collections.Counter(x["kind"] for x in recs if x["res"] != "ok")),
    }
    c.cov["stages"]["RUN:cases"]["coverage"] = cov
    if len(ok) < 1000 or cov["with_cache_ok"] < 100 or cov["by_kind_ok"].get("perturb", 0) < 100 \
            or cov["decoy_after_ok"] == 0 or cov["range_computations_ok"] < 500 \
            or cov["histories_with_non_prefix_warm_cache"] < 100 \
            or cov["cacheless_after_files_changed"].get("same_object", 0) < 200 \
            or cov["cacheless_after_files_changed"].get("new_object", 0) < 20 or cov["cached_stale_unjudged"] < 10 \
            or min(cov["non_regular_entries_ok"].get(k, 0) for k in ("dir", "dangling", "link")) < 20:
        c.defer(f"vacuity: too few successful computations {cov}")
    c.sample(recs[0])
    c.sample([x for x in recs if x["kind"] == "perturb"][0])
    c.sample([x for x in recs if x["decoy"] == "first"][:1])
    c.validate("db", "DbDigestTrace", "DbDigestTrace.cfg", t1, name="cases")
    # impl -> spec: seeded random nodes
    t2 = os.path.join(c.work, "random.trace.ndjson")
    s2 = c.run_harness("c12_digest", ["--mode", "random", "--runs", 60 if q else 300, "--out", t2, "--seed", seed,
                                      "--work", fs], timeout=3000)
    c.cov["stages"]["RUN:random"] = c.cov["stages"].pop("RUN:c12_digest")
    recs2 = vlib.read_ndjson(t2)
    c.validate("db", "DbDigestTrace", "DbDigestTrace.cfg", t2, name="random")
    c.cov["evaluations"] = len(recs) + len(recs2)
    c.cov["distinct_nontrivial"] = len(cl) + len(_classes(recs2))
    c.cov["rule"] = ("Merkle-tree and range-digest computations of the real digester / signable builder on TLC-generated "
                     "and seeded random directories and cache histories; non-trivial = computation succeeded, distinct = "
                     "distinct (operation, covered file set)")
    return c.finish()


def replay(path, seed):
    c = Check(PROP, "quick", seed, "model_checking", replay=True)
    c.validate("db", "DbDigestTrace", "DbDigestTrace.cfg", os.path.abspath(path))
    return c.finish()
