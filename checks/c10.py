"""C10 -- a restored Cardano database is accepted only if every file is the certified one
(spec/db: DbVerify.tla, MC_DbVerify (+GenPrint), DbVerifyTrace)."""
import collections
import os
import random

import vlib
from checks.common import Check
from checks.dbcommon import cfg_with, is_known, tla_bool

PROP = "C10"


def _expect_violation(c, cfg, name, inv, why):
    r = c.mc("db", "MC_DbVerify", cfg, name=name, workers=4, timeout=900)
    c.cov["stages"]["MC:" + name]["expected_counterexample"] = why
    if r.violated != inv:
        raise vlib.ToolError(f"{name}: the model no longer shows the expected counterexample ({why})")


def run(tier, seed):
    c = Check(PROP, tier, seed, "model_checking")
    c.assumptions = [
        "SHA-256 and the Merkle root are injective; MKTree / MKProof themselves are C09's subject (the harness uses "
        "MKTree to compute the root the served list reproduces)",
        "the certified digest list is the list of the files of the honest database the certificate signs "
        "(complete trios 0..beacon, canonical five-digit names)",
        "the certificate itself is taken as valid (chain verification is C03's subject); its signed message is the "
        "hash of the protocol message computed by the real signable builder over the honest database",
        "an immutable file of the restored directory = <db>/immutable/<digits>.<chunk|primary|secondary> being a regular "
        "file, or a regular file reached through a symbolic link (judged by the content read through the name: the "
        "lenient reading, so that neither refusing links nor following them alarms); a directory or a dangling link "
        "under such a name is no file (a gap)",
        "'rejected and reported' is checked as: the flow returns an error (the error lists are recorded, not judged)",
    ]
    c.cov["trusted_base"] = ["TLC", "harness listing + SHA-256 of the restored directory", "MKTree (servedRoot)",
                             "serde_json"]
    q = tier == "quick"
    pre = "q" if q else "t"
    # the model follows the status of the listed findings (checks/dbcommon.py)
    k_name = is_known(PROP, "C10-content-not-bound-to-name")
    k_dir = is_known(PROP, "C10-nested-immutable-dir")
    k_nonreg = is_known(PROP, "C10-directory-counts-as-present") or is_known(PROP, "C10-symlink-not-hashed")
    now = {"PerNameOnSuccess": tla_bool(not k_name), "ListNamesCanonical": tla_bool(not k_name),
           "FindPrefersDirectChild": tla_bool(not k_dir), "NonRegularRefused": tla_bool(not k_nonreg),
           "ExcuseMisplaced": tla_bool(k_name), "ExcuseDecoy": tla_bool(k_dir),
           "ExcuseNonRegular": tla_bool(k_nonreg)}
    c.cov["model_constants"] = now
    for u in ("forged", "lists", "dirs"):
        c.mc("db", "MC_DbVerify", cfg_with(c, f"MC_DbVerify_{pre}_{u}.cfg", now), name=u, workers=12, timeout=3000,
             heap="12g", coverage=(u == "forged"), vacuity=["ChooseDir"] if u == "forged" else None)
    if not q:
        # N = 2 explores absent / own / other certified content per file; foreign contents with N = 1
        c.mc("db", "MC_DbVerify", cfg_with(c, "MC_DbVerify_q_dirs.cfg", now), name="dirs-N1-all-options", workers=12,
             timeout=3000, heap="12g", coverage=False)
    if k_name or k_dir or k_nonreg:
        # the proposed fix (per-name comparison on the success path + only canonical names kept from the served
        # list + direct-child immutable directory) closes the model without any excuse
        for u in ("fixed_forged",) if q else ("fixed_forged", "fixed_lists", "fixed_dirs", "t_fixed_forged"):
            c.mc("db", "MC_DbVerify", f"MC_DbVerify_{u}.cfg", name="proposed-fix-" + u, workers=12,
                 timeout=3000, coverage=False)
    if k_nonreg:
        _expect_violation(c, cfg_with(c, "MC_DbVerify_unexcused_nonreg.cfg",
                                      {k: now[k] for k in ("PerNameOnSuccess", "ListNamesCanonical",
                                                           "FindPrefersDirectChild")}),
                          "known-finding-in-model-non-regular", "VerifySound",
                          "a directory / symbolic link under a certified name is neither missing nor hashed "
                          "(C10-directory-counts-as-present, C10-symlink-not-hashed)")
    if k_name:
        _expect_violation(c, "MC_DbVerify_unexcused.cfg", "known-finding-in-model", "VerifySound",
                          "membership-only success path (C10-content-not-bound-to-name)")
        _expect_violation(c, "MC_DbVerify_fix_pername.cfg", "per-name-fix-alone-insufficient", "VerifySound",
                          "with only the per-name comparison added, a served list with order-preserving renamed "
                          "entries still gets a shifted directory accepted")
    # GEN
    cases = []
    gens = ["gen_dirs1", "gen_dirs_eq", "gen_lists", "gen_forged"] + ([] if q else ["gen_dirs", "gen_lists2"])
    for gname in gens:
        g = c.mc("db", "MC_DbVerify", cfg_with(c, f"MC_DbVerify_{gname}.cfg", now), name="GEN-" + gname, workers=4,
                 timeout=1800, coverage=False)
        cs = vlib.printed_json(g, "CASE")
        if len(cs) < 1000:
            raise vlib.ToolError(f"GEN {gname} produced too few cases")
        for x in cs:
            x["label"] = gname
        c.cov["stages"]["MC:GEN-" + gname]["cases"] = len(cs)
        cases += cs
    cases.sort(key=lambda x: vlib.json.dumps(x, sort_keys=True))
    excused = [x for x in cases if x["impl"] and not x["rule"]]
    good = [x for x in cases if x["impl"] and x["rule"]]
    rej = [x for x in cases if not x["impl"]]
    rnd = random.Random(seed)
    if q:
        sel = [x for x in cases if x["dir"]["nonreg"]]      # every case with an entry that is no regular file
        for gname in gens:      # stratified: per universe, per verdict class
            for pool, k in ((excused, 500), (good, 400), (rej, 600)):
                sub = [x for x in pool if x["label"] == gname and not x["dir"]["nonreg"]]
                sel += rnd.sample(sub, min(k, len(sub)))
    else:
        sel = cases
    sel.sort(key=lambda x: vlib.json.dumps(x, sort_keys=True))
    cases_path = os.path.join(c.work, "cases.ndjson")
    vlib.write_ndjson(cases_path, sel)
    c.cov["GEN"] = {"cases_total": len(cases), "selected": len(sel), "model_accepts_rule_holds": len(good),
                    "model_accepts_rule_violated": len(excused), "model_rejects": len(rej)}
    c.build("vh-client", ["c10_verify"])
    fs = os.path.join(c.work, "fs")
    t1 = os.path.join(c.work, "cases.trace.ndjson")
    c.run_harness("c10_verify", ["--mode", "cases", "--cases", cases_path, "--out", t1, "--seed", seed,
                                 "--work", fs], timeout=6000)
    c.cov["stages"]["RUN:cases"] = c.cov["stages"].pop("RUN:c10_verify")
    recs = vlib.read_ndjson(t1)
    for r_ in [x for x in recs if not x["pred_match"]][:10]:
        c.drift.append({k: r_[k] for k in ("case", "label", "accepted", "digestsAccepted", "stage", "pred", "worst")})
    acc = [x for x in recs if x["accepted"]]
    cov = {
        "runs": len(recs), "accepted": len(acc),
        "accepted_by_worst": dict(collections.Counter(x["worst"] for x in acc)),
        "rejected_by_stage": dict(collections.Counter(x["stage"] for x in recs if not x["accepted"])),
        "rejected_by_worst": dict(collections.Counter(x["worst"] for x in recs if not x["accepted"])),
        "digest_list_rejected": sum(1 for x in recs if not x["digestsAccepted"]),
        "digest_list_accepted_not_honest_names": sum(
            1 for x in recs if x["digestsAccepted"] and x["servedNames"] != [e["name"] for e in x["cert"]]),
        "allow_missing_accepted_with_gaps": sum(
            1 for x in acc if x["allowMissing"] and len([d for d in x["dir"] if x["lo"] <= d["num"] <= x["hi"]])
            < 3 * (x["hi"] - x["lo"] + 1)),
        "range_kinds": dict(collections.Counter(x["rangeKind"] for x in recs)),
        "decoy": dict(collections.Counter(x["decoy"] for x in recs)),
        "non_regular_entries": {
            k: {"runs": sum(1 for x in recs if k in x["entryKinds"]),
                "accepted": sum(1 for x in acc if k in x["entryKinds"])}
            for k in ("dir", "link", "dangling")},
        "prediction_mismatches": sum(1 for x in recs if not x["pred_match"]),
    }
    c.cov["stages"]["RUN:cases"]["coverage"] = cov
    if cov["accepted_by_worst"].get("ok", 0) < 300 or cov["rejected_by_worst"].get("foreign", 0) < 100 \
            or cov["rejected_by_worst"].get("missing", 0) < 15 or cov["digest_list_rejected"] < 100 \
            or min(v["runs"] for v in cov["non_regular_entries"].values()) < 20:
        c.defer(f"vacuity: {cov}")
    c.sample({k: v for k, v in recs[0].items() if k != "pred"})
    c.sample([{k: v for k, v in x.items() if k != "pred"} for x in acc if x["worst"] == "misplaced"][:1])
    c.validate("db", "DbVerifyTrace", "DbVerifyTrace.cfg", t1, name="cases")
    # seeded random multi-tamperings
    t2 = os.path.join(c.work, "random.trace.ndjson")
    c.run_harness("c10_verify", ["--mode", "random", "--runs", 600 if q else 8000, "--out", t2, "--seed", seed,
                                 "--work", fs], timeout=6000)
    c.cov["stages"]["RUN:random"] = c.cov["stages"].pop("RUN:c10_verify")
    recs2 = vlib.read_ndjson(t2)
    c.cov["stages"]["RUN:random"]["labels"] = dict(collections.Counter(
        t for x in recs2 for t in x["label"].split("+")))
    c.validate("db", "DbVerifyTrace", "DbVerifyTrace.cfg", t2, name="random")
    c.cov["evaluations"] = len(recs) + len(recs2)
    c.cov["distinct_nontrivial"] = len({vlib.json.dumps([x["dir"], x["servedNames"], x["lo"], x["hi"], x["allowMissing"]])
                                        for x in recs + recs2 if x["accepted"]})
    c.cov["rule"] = ("runs of the real client verification flow on TLC-generated and seeded random (served list, "
                     "restored directory, range, allow-missing) tuples; non-trivial = accepted, distinct by "
                     "(directory projection, served names, range, flag)")
    return c.finish()


def replay(path, seed):
    c = Check(PROP, "quick", seed, "model_checking", replay=True)
    c.validate("db", "DbVerifyTrace", "DbVerifyTrace.cfg", os.path.abspath(path))
    return c.finish()
