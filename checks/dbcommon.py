"""Shared by the Cardano database checks (C10, C12, C19): configuration files whose constants follow the
status of the listed findings, so that the model describes the code *as it is now* -- as long as a finding is
`known` the implementation-shaped spec keeps the deviation (and the invariants excuse it); once it is recorded
as `fixed` the spec switches to the fixed behaviour and nothing is excused."""
import os
import re

import vlib


def is_known(prop, finding_id):
    return any(k["id"] == finding_id for k in vlib.known_findings(prop))


def cfg_with(c, name, consts):
    """spec/db/<name> with the given `CONST = value` lines replaced; returns a path usable as -config."""
    src = os.path.join(vlib.SPEC, "db", name)
    text = open(src).read()
    changed = False
    for k, v in consts.items():
        new, n = re.subn(rf"(?m)^(\s*){k} = \S+\s*$", rf"\g<1>{k} = {v}", text)
        if n != 1:
            raise vlib.ToolError(f"{name}: constant {k} not found")
        changed |= new != text
        text = new
    if not changed:
        return name
    dst = os.path.join(c.work, name)
    with open(dst, "w") as f:
        f.write(text)
    return dst


def tla_bool(b):
    return "TRUE" if b else "FALSE"
