"""C05 -- decoding untrusted bytes never crashes the process and round-trips honest values
(spec/wire: Wire.tla, MC_Wire, WireTrace; harness/vh-common/src/bin/c05_decode.rs)."""
import collections
import os

import vlib
from checks.common import Check

PROP = "C05"
BIN = "c05_decode"


def _cases(res):
    cs = vlib.printed_json(res, "CASE")
    import json
    cs.sort(key=lambda c: json.dumps(c, sort_keys=True))
    for i, c in enumerate(cs):
        c["id"] = i + 1
    return cs


def _validate_all(c, files, name, keep=False):
    for i, f in enumerate(files):
        r = c.validate("wire", "WireTrace", "WireTrace.cfg", f, name=name if i == 0 else f"{name}.{i}",
                       heap="12g", timeout=3000)
        if r["accepted"] and not keep:
            os.remove(f)        # a rejected trace has been copied to replays/; accepted ones are big


def _scan(c, files, stage, want_pred):
    """vacuity counters and predicted-vs-real drift over the recorded events"""
    outcomes = collections.Counter()
    entries = collections.Counter()
    crashes = collections.Counter()
    drift = 0
    walker_drift = 0
    n = 0
    for f in files:
        for e in vlib.read_ndjson(f):
            n += 1
            outcomes[e["outcome"]] += 1
            entries[e["entry"]] += 1
            if e["outcome"] not in ("ok", "err"):
                crashes[f'{e["outcome"]}:{e["bad"]}:{e["cls"]}'] += 1
            if want_pred and e.get("pred", "na") != "na":
                if e["pred"] != e["outcome"]:
                    drift += 1
                    if len(c.drift) < 20:
                        c.drift.append({"case": e["case"], "mut": e.get("mut"), "entry": e["entry"],
                                        "predicted": e["pred"], "real": e["outcome"]})
                if "pbad" in e and (e["pbad"], e["pcls"]) != (e["bad"], e["cls"]):
                    walker_drift += 1
            if n in (1, 2) or (e["outcome"] not in ("ok", "err") and len(c.cov["samples"]) < 6):
                c.sample({k: e[k] for k in ("entry", "len", "outcome", "peak", "honest", "roundtrip", "bad", "cls",
                                            "mut", "msg") if k in e})
    st = c.cov["stages"].setdefault(stage, {})
    st.update({"events": n, "outcomes": dict(outcomes), "entry_points": len(entries),
               "crashes_by_field": dict(crashes), "prediction_mismatches": drift,
               "walker_mismatches_on_misaligned_reads": walker_drift})
    return n, outcomes, entries


def run(tier, seed):
    c = Check(PROP, tier, seed, "model_checking")
    quick = tier == "quick"
    c.assumptions = [
        "ciborium, serde_json, bincode, hex and blst point decoding are third-party parsers: exercised by the "
        "mutation driver, modelled only as dispatch (first byte 1 => CBOR else legacy; JSON-hex / bytes-hex fallback)",
        "usize is scaled to MAXU = 2^20-1 in the model (class maxu-j realised as 2^64-1-j, big as 2^40, hi1 as 2^56); "
        "eight bytes read from inside a key / hash / across fields are abstracted as one 'junk' value",
        "allocation bound 64*len + 1 MiB on the largest single request, enforced by a counting global allocator in a "
        "child process with an 8 MiB stack; overflow checks and debug assertions on (harness profile)",
        "undefined behaviour that does not crash is not observable; the future_snark feature is off (default build)",
        "honest = values produced by the real signer / clerk / Merkle code plus structure-exact values built through "
        "serde; legacy encodings are produced by the harness from the documented layouts (the current tree only "
        "decodes them) and must decode to an equal value",
    ]
    c.cov["trusted_base"] = ["TLC", "harness counting allocator / worker pool", "harness legacy encoder and layout walker",
                             "serde_json (structural equality of decoded values)"]
    known = os.path.join(c.work, "known.ndjson")
    vlib.write_known_for_tlc(PROP, known)
    # the model describes the unfixed legacy decoders exactly as long as their defects are listed as known
    listed = {k["id"] for k in vlib.known_findings(PROP)}
    env = {"KNOWN": known,
           "C05_CAP": "0" if "C05-agg-total-sigs-alloc" in listed else "1",
           "C05_CHECKED": "0" if "C05-agg-sig-reg-size-add" in listed else "1"}
    c.cov["model_variant"] = {"CapPrealloc": env["C05_CAP"] == "1", "CheckedAdd": env["C05_CHECKED"] == "1"}

    # ---- MC (+ GEN when the invariants hold: GenPrint is one of them)
    cfg = "MC_Wire_quick.cfg" if quick else "MC_Wire_thorough.cfg"
    res = c.mc("wire", "MC_Wire", cfg, workers=12, timeout=2400, heap="12g", env_extra=env,
               vacuity=["Mutate", "Truncate"])
    if res.violated:
        # the model has an unlisted counterexample: the real code decides (GEN without the property invariants)
        res = c.mc("wire", "MC_Wire", cfg.replace("MC_Wire_", "MC_Wire_gen_"), name="GEN", workers=12, timeout=2400,
                   heap="12g", env_extra=env, coverage=False)
    cases = _cases(res)
    if len(cases) < 5000:
        raise vlib.ToolError("GEN produced too few cases")
    pred = collections.Counter(x["pred"] for x in cases)
    excused = collections.Counter(f'{x["bad"]}:{x["cls"]}:{x["pred"]}' for x in cases if x["excused"])
    c.cov["stages"]["GEN"] = {"cases": len(cases), "predicted": dict(pred), "model_states_needing_a_known_finding":
                              dict(excused), "honest_cases": sum(1 for x in cases if not x["muts"] and x["cut"] < 0)}
    for k in ("ok", "err", "panic", "abort"):
        if pred[k] == 0 and k in ("ok", "err"):
            raise vlib.ToolError(f"vacuity: no case predicted {k}")
    cases_path = os.path.join(c.work, "cases.ndjson")
    vlib.write_ndjson(cases_path, cases)

    # ---- BUILD + RUN
    c.build("vh-common", [BIN])
    jobs = 12
    t_h = os.path.join(c.work, "honest.trace.ndjson")
    s_h = c.run_harness(BIN, ["--mode", "honest", "--out", t_h, "--seed", seed, "--jobs", jobs], timeout=3000)
    c.cov["stages"]["RUN:honest"] = c.cov["stages"].pop("RUN:" + BIN)
    t_c = os.path.join(c.work, "cases.trace.ndjson")
    s_c = c.run_harness(BIN, ["--mode", "cases", "--cases", cases_path, "--out", t_c, "--seed", seed, "--jobs", jobs,
                              "--forms-every", 1 if quick else 3, "--chunk", 150000], timeout=6000)
    c.cov["stages"]["RUN:cases"] = c.cov["stages"].pop("RUN:" + BIN)
    t_m = os.path.join(c.work, "mutate.trace.ndjson")
    s_m = c.run_harness(BIN, ["--mode", "mutate", "--out", t_m, "--seed", seed, "--jobs", jobs,
                              "--per", 6 if quick else 24, "--chunk", 150000], timeout=6000)
    c.cov["stages"]["RUN:mutate"] = c.cov["stages"].pop("RUN:" + BIN)

    # ---- vacuity / drift
    n_h, o_h, e_h = _scan(c, s_h["files"], "RUN:honest", False)
    n_c, o_c, e_c = _scan(c, s_c["files"], "RUN:cases", True)
    n_m, o_m, e_m = _scan(c, s_m["files"], "RUN:mutate", False)
    if s_h["honest"] == 0 or o_h["ok"] == 0:
        c.defer("vacuity: no honest round trip was exercised")
    if o_c["ok"] == 0 or o_c["err"] == 0 or o_m["ok"] == 0 or o_m["err"] == 0:
        c.defer("vacuity: ok / err outcomes not both reached")
    if any(v == 0 for v in s_m.get("mutations", {}).values()) or len(s_m.get("mutations", {})) < 25:
        c.defer("vacuity: a mutation class produced no input")
    all_entries = set(e_h) | set(e_c) | set(e_m)
    c.cov["entry_points_fed"] = len(all_entries)
    c.cov["evaluations"] = n_h + n_c + n_m
    c.cov["distinct_nontrivial"] = len(cases) + s_h["honest_values"] + sum(s_m.get("mutations", {}).values())
    c.cov["rule"] = ("one Decode event per call of a public decode entry point in a child process: honest values x "
                     "encodings x entry points (round trip), every TLC class vector realised as real legacy bytes x "
                     "outer forms, seeded structure-aware mutations; distinct = class vectors + honest values + "
                     "mutated inputs")

    # ---- VAL
    _validate_all(c, s_h["files"], "honest", keep=True)
    _validate_all(c, s_c["files"], "cases")
    _validate_all(c, s_m["files"], "mutations")
    if not quick and not c.violations:
        os.remove(cases_path)   # ~60 MB in the thorough tier
    return c.finish()


def replay(path, seed):
    c = Check(PROP, "quick", seed, "model_checking", replay=True)
    c.validate("wire", "WireTrace", "WireTrace.cfg", os.path.abspath(path), heap="12g")
    return c.finish()
